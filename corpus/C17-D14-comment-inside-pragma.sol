pragma solidity /* ^ */ 0.8.0;
contract A { }
