// Exhaustive enumerations for the correspondence checks of C02 (get_line_number) and
// C10 (storage_slots_used, pack_storage_variables / pack_struct_variables decision).
// The Coq side (coq/model/DigestCases.v) enumerates the same domains in the same order
// and folds the same digest, so no cases have to be shipped:
//     acc' = (acc * 31 + v) land (2^61 - 1)        v = answer + 1, or 0 for a panic
//
//   vh_digest line  <maxlen> <block_from> <block_to>
//       alphabet A = [a, LF, CR, 0xC3, 0xA9]; block 0 = the strings of length < 2 (in the
//       order "", A0..A4), block 1 + 5*i + j = all strings A[i] A[j] t with |t| <= maxlen-2,
//       t by length then lexicographically by alphabet index; only valid UTF-8 strings;
//       every offset 0 <= off < len.
//       -> "line <block> <n_strings> <n_all> <d_all> <n_nonlf> <d_nonlf>"
//   vh_digest slots <len> <first_from> <first_to>
//       sequences of exactly <len> sizes over S = [8,16,..,256], lexicographic, one block per
//       first element index; per sequence: storage_slots_used, and the reported / not
//       reported verdicts of the two detectors run on a contract / struct built from types
//       of those sizes.
//       -> "slots <first> <n> <d_slots> <d_bit> <n_reported>"
//   vh_digest slots2 <len> <i>:<j> ...      the same with blocks = first two element indices
//       -> "slots2 <i> <j> <n> <d_slots> <d_bit> <n_reported>"
//   vh_digest types           utils::get_type_size on a fixed list of type expressions (the
//       same list, in the same order, is UtilCases/PackCases.type_cases on the Coq side):
//       bool address address_payable payable string bytes rational, uintN / intN for
//       N = 0..=264 and 65535, bytesN for N = 0..=255, a mapping, a function type, and an
//       expression that is not a type            -> one "<name> <size|PANIC>" per line
//   vh_digest seqs            explicit cases from stdin, one sequence of sizes per line
//       (sizes are the bit sizes of the declared types; sizes that no Solidity type has are
//       built as Type::Uint(size) / Type::Int(size) directly)
//       -> "<slots|PANIC> <contract bit|PANIC> <struct bit|PANIC>"
use std::io::{self, BufRead, Write};
use std::panic::{catch_unwind, AssertUnwindSafe};

use solang_parser::pt::{
    ContractDefinition, ContractPart, ContractTy, Expression, Identifier, Loc, SourceUnit,
    SourceUnitPart, StructDefinition, Type, VariableDeclaration, VariableDefinition,
};
use solstat::analyzer::optimizations as opt;
use solstat::analyzer::utils;

const MASK: u128 = (1u128 << 61) - 1;
const ALPHA: [u8; 5] = [b'a', 10, 13, 0xC3, 0xA9];

fn step(acc: u128, v: u128) -> u128 {
    (acc * 31 + v) & MASK
}

struct LineAcc {
    n_strings: u64,
    n_all: u64,
    d_all: u128,
    n_nonlf: u64,
    d_nonlf: u128,
}

fn line_one(bytes: &[u8], a: &mut LineAcc) {
    let s = match std::str::from_utf8(bytes) {
        Ok(s) => s,
        Err(_) => return,
    };
    a.n_strings += 1;
    for off in 0..bytes.len() {
        let v = match catch_unwind(AssertUnwindSafe(|| utils::get_line_number(off, s))) {
            Ok(n) => (n as i64 + 1) as u128,
            Err(_) => 0,
        };
        a.n_all += 1;
        a.d_all = step(a.d_all, v);
        if bytes[off] != 10 {
            a.n_nonlf += 1;
            a.d_nonlf = step(a.d_nonlf, v);
        }
    }
}

// all strings over ALPHA of exactly length n, lexicographic by index, appended to prefix
fn line_rec(buf: &mut Vec<u8>, n: usize, a: &mut LineAcc) {
    if n == 0 {
        line_one(buf, a);
        return;
    }
    for c in ALPHA {
        buf.push(c);
        line_rec(buf, n - 1, a);
        buf.pop();
    }
}

fn cmd_line(maxlen: usize, from: usize, to: usize) {
    for block in from..to {
        let mut a = LineAcc { n_strings: 0, n_all: 0, d_all: 0, n_nonlf: 0, d_nonlf: 0 };
        if block == 0 {
            line_one(&[], &mut a);
            if maxlen >= 1 {
                for c in ALPHA {
                    line_one(&[c], &mut a);
                }
            }
        } else if maxlen >= 2 {
            let i = (block - 1) / 5;
            let j = (block - 1) % 5;
            for tl in 0..=(maxlen - 2) {
                let mut buf = vec![ALPHA[i], ALPHA[j]];
                line_rec(&mut buf, tl, &mut a);
            }
        }
        println!("line {} {} {} {} {} {}", block, a.n_strings, a.n_all, a.d_all, a.n_nonlf, a.d_nonlf);
    }
}

// ---------------------------------------------------------------------------- slots
fn l0() -> Loc {
    Loc::File(0, 0, 0)
}

// a type of the given bit size; which of the equally sized types is taken depends on the
// position so that bool / address / uintN / intN / bytesN all occur
fn type_of_size(size: u16, pos: usize) -> Type {
    if size % 8 != 0 || size > 256 || size == 0 {
        // not producible by the parser; only reachable through `seqs` (out-of-domain stream)
        return if pos % 2 == 0 { Type::Uint(size) } else { Type::Int(size) };
    }
    match (size, pos % 3) {
        (8, 0) => Type::Bool,
        (160, 0) => Type::Address,
        (160, 1) => Type::AddressPayable,
        (256, 2) => Type::String, // "every other type": 256
        (s, 0) => Type::Uint(s),
        (s, 1) => Type::Int(s),
        (s, _) => Type::Bytes((s / 8) as u8),
    }
}

fn ident(i: usize) -> Identifier {
    Identifier { loc: l0(), name: format!("v{}", i) }
}

fn contract_of(sizes: &[u16]) -> SourceUnit {
    let parts = sizes
        .iter()
        .enumerate()
        .map(|(i, s)| {
            ContractPart::VariableDefinition(Box::new(VariableDefinition {
                loc: l0(),
                ty: Expression::Type(l0(), type_of_size(*s, i)),
                attrs: vec![],
                name: ident(i),
                initializer: None,
            }))
        })
        .collect();
    SourceUnit(vec![SourceUnitPart::ContractDefinition(Box::new(ContractDefinition {
        loc: Loc::File(0, 1, 2),
        ty: ContractTy::Contract(l0()),
        name: ident(1000),
        base: vec![],
        parts,
    }))])
}

fn struct_of(sizes: &[u16]) -> SourceUnit {
    let fields = sizes
        .iter()
        .enumerate()
        .map(|(i, s)| VariableDeclaration {
            loc: l0(),
            ty: Expression::Type(l0(), type_of_size(*s, i + 1)),
            storage: None,
            name: ident(i),
        })
        .collect();
    SourceUnit(vec![SourceUnitPart::StructDefinition(Box::new(StructDefinition {
        loc: Loc::File(0, 3, 4),
        name: ident(1000),
        fields,
    }))])
}

// (slots, contract verdict, struct verdict); None = panic
fn slots_one(sizes: &[u16]) -> (Option<u32>, Option<bool>, Option<bool>) {
    let v = sizes.to_vec();
    let s = catch_unwind(AssertUnwindSafe(|| utils::storage_slots_used(v))).ok();
    let su = contract_of(sizes);
    let c = catch_unwind(AssertUnwindSafe(|| {
        opt::pack_storage_variables::pack_storage_variables_optimization(su).len() == 1
    }))
    .ok();
    let su = struct_of(sizes);
    let t = catch_unwind(AssertUnwindSafe(|| {
        opt::pack_struct_variables::pack_struct_variables_optimization(su).len() == 1
    }))
    .ok();
    (s, c, t)
}

struct SlotAcc {
    n: u64,
    d_slots: u128,
    d_bit: u128,
    n_rep: u64,
}

fn slots_rec(buf: &mut Vec<u16>, n: usize, a: &mut SlotAcc) {
    if n == 0 {
        let (s, c, t) = slots_one(buf);
        a.n += 1;
        a.d_slots = step(a.d_slots, s.map(|x| x as u128 + 1).unwrap_or(0));
        // verdict value: 0 panic; 1 + contract bit + 2 * struct bit
        let v = match (c, t) {
            (Some(c), Some(t)) => 1 + (c as u128) + 2 * (t as u128),
            _ => 0,
        };
        a.d_bit = step(a.d_bit, v);
        if c == Some(true) {
            a.n_rep += 1;
        }
        return;
    }
    for k in 1..=32u16 {
        buf.push(8 * k);
        slots_rec(buf, n - 1, a);
        buf.pop();
    }
}

fn cmd_slots(len: usize, from: usize, to: usize) {
    for first in from..to {
        let mut a = SlotAcc { n: 0, d_slots: 0, d_bit: 0, n_rep: 0 };
        let mut buf = vec![8 * (first as u16 + 1)];
        slots_rec(&mut buf, len - 1, &mut a);
        println!("slots {} {} {} {} {}", first, a.n, a.d_slots, a.d_bit, a.n_rep);
    }
}

fn cmd_slots2(len: usize, blocks: &[String]) {
    for b in blocks {
        let mut it = b.split(':');
        let i: usize = it.next().unwrap().parse().unwrap();
        let j: usize = it.next().unwrap().parse().unwrap();
        let mut a = SlotAcc { n: 0, d_slots: 0, d_bit: 0, n_rep: 0 };
        let mut buf = vec![8 * (i as u16 + 1), 8 * (j as u16 + 1)];
        slots_rec(&mut buf, len - 2, &mut a);
        println!("slots2 {} {} {} {} {} {}", i, j, a.n, a.d_slots, a.d_bit, a.n_rep);
    }
}

fn cmd_types() {
    let mut cases: Vec<(String, Expression)> = vec![];
    let ty = |t: Type| Expression::Type(l0(), t);
    cases.push(("bool".into(), ty(Type::Bool)));
    cases.push(("address".into(), ty(Type::Address)));
    cases.push(("address_payable".into(), ty(Type::AddressPayable)));
    cases.push(("payable".into(), ty(Type::Payable)));
    cases.push(("string".into(), ty(Type::String)));
    cases.push(("bytes".into(), ty(Type::DynamicBytes)));
    cases.push(("rational".into(), ty(Type::Rational)));
    let ns: Vec<u16> = (0..=264u16).chain(std::iter::once(65535u16)).collect();
    for n in &ns {
        cases.push((format!("uint{}", n), ty(Type::Uint(*n))));
    }
    for n in &ns {
        cases.push((format!("int{}", n), ty(Type::Int(*n))));
    }
    for n in 0..=255u8 {
        cases.push((format!("bytes{}", n), ty(Type::Bytes(n))));
    }
    cases.push((
        "mapping".into(),
        ty(Type::Mapping(l0(), Box::new(ty(Type::Uint(8))), Box::new(ty(Type::Bool)))),
    ));
    cases.push(("function".into(), ty(Type::Function { params: vec![], attributes: vec![], returns: None })));
    cases.push(("variable".into(), Expression::Variable(ident(0))));
    for (name, e) in cases {
        match catch_unwind(AssertUnwindSafe(|| utils::get_type_size(e))) {
            Ok(n) => println!("{} {}", name, n),
            Err(_) => println!("{} PANIC", name),
        }
    }
}

fn cmd_seqs() {
    let stdin = io::stdin();
    let stdout = io::stdout();
    let mut w = stdout.lock();
    for line in stdin.lock().lines() {
        let line = line.unwrap();
        let v: Vec<u16> = line.split(' ').filter(|x| !x.is_empty()).map(|x| x.parse().unwrap()).collect();
        let (s, c, t) = slots_one(&v);
        let f = |o: Option<bool>| match o {
            Some(b) => (b as u8).to_string(),
            None => "PANIC".to_string(),
        };
        writeln!(w, "{} {} {}", s.map(|x| x.to_string()).unwrap_or("PANIC".into()), f(c), f(t)).unwrap();
    }
}

fn main() {
    std::panic::set_hook(Box::new(|_| {}));
    let args: Vec<String> = std::env::args().collect();
    let num = |i: usize| -> usize { args[i].parse().unwrap() };
    match args.get(1).map(|s| s.as_str()) {
        Some("line") => cmd_line(num(2), num(3), num(4)),
        Some("slots") => cmd_slots(num(2), num(3), num(4)),
        Some("slots2") => cmd_slots2(num(2), &args[3..]),
        Some("seqs") => cmd_seqs(),
        Some("types") => cmd_types(),
        _ => {
            eprintln!("usage: vh_digest line <maxlen> <from> <to> | slots <len> <from> <to> | slots2 <len> i:j ... | seqs | types");
            std::process::exit(2);
        }
    }
}
