// vh_report: run the real report generators of solstat on findings maps read from stdin.
//
// Protocol (line oriented, names hex-encoded UTF-8):
//   case <opt|vul|qa|all|allfile|allfilestale> [<dir for allfile>]   (allfilestale: a long stale report exists before the run)
//   pat <opt|vul|qa> <VariantName>          patterns in HashMap insertion order
//   file x<hexname> <i32> <i32> ...         appended to the vector of the last `pat` (the token is `x` for the empty name)
//   end
// Answer per case, one line:  out <hex of the returned String>   |   out PANIC
//   opt/vul/qa : generate_<category>_report(map)
//   all        : the three generators concatenated exactly as report::generation::generate_report does
//   allfile    : the real generate_report, run with the given directory (under <verification tree>/.cache) as cwd;
//                the file solstat_report.md it writes is read back
use std::collections::{BTreeSet, HashMap};
use std::io::{self, BufRead, Write};
use std::panic::{catch_unwind, AssertUnwindSafe};

use solstat::analyzer::optimizations::{get_all_optimizations, Optimization};
use solstat::analyzer::qa::{get_all_qa, QualityAssurance};
use solstat::analyzer::utils::LineNumber; // whatever integer type the crate uses for line numbers
use solstat::analyzer::vulnerabilities::{get_all_vulnerabilities, Vulnerability};
use solstat::report::generation::generate_report;
use solstat::report::optimization_report::generate_optimization_report;
use solstat::report::qa_report::generate_qa_report;
use solstat::report::vulnerability_report::generate_vulnerability_report;

type Entries = Vec<(String, BTreeSet<LineNumber>)>;

fn unhex(s: &str) -> String {
    let b: Vec<u8> = (0..s.len() / 2)
        .map(|i| u8::from_str_radix(&s[2 * i..2 * i + 2], 16).expect("bad hex"))
        .collect();
    String::from_utf8(b).expect("file name is not UTF-8")
}

fn hex(s: &str) -> String {
    let mut o = String::with_capacity(s.len() * 2);
    for b in s.as_bytes() {
        o.push_str(&format!("{:02x}", b));
    }
    o
}

fn find_opt(name: &str) -> Optimization {
    for v in get_all_optimizations() {
        if format!("{:?}", v) == name {
            return v;
        }
    }
    eprintln!("unknown optimization variant {}", name);
    std::process::exit(3);
}
fn find_vul(name: &str) -> Vulnerability {
    for v in get_all_vulnerabilities() {
        if format!("{:?}", v) == name {
            return v;
        }
    }
    eprintln!("unknown vulnerability variant {}", name);
    std::process::exit(3);
}
fn find_qa(name: &str) -> QualityAssurance {
    for v in get_all_qa() {
        if format!("{:?}", v) == name {
            return v;
        }
    }
    eprintln!("unknown qa variant {}", name);
    std::process::exit(3);
}

#[derive(Default)]
struct Case {
    mode: String,
    dir: String,
    // insertion order kept
    pats: Vec<(String, String, Entries)>,
}

fn build(
    c: &Case,
) -> (
    HashMap<Vulnerability, Entries>,
    HashMap<Optimization, Entries>,
    HashMap<QualityAssurance, Entries>,
) {
    let mut v = HashMap::new();
    let mut o = HashMap::new();
    let mut q = HashMap::new();
    for (cat, name, entries) in &c.pats {
        match cat.as_str() {
            "vul" => {
                v.insert(find_vul(name), entries.clone());
            }
            "opt" => {
                o.insert(find_opt(name), entries.clone());
            }
            "qa" => {
                q.insert(find_qa(name), entries.clone());
            }
            other => {
                eprintln!("unknown category {}", other);
                std::process::exit(3);
            }
        }
    }
    (v, o, q)
}

fn run_case(c: &Case) -> Option<String> {
    let (v, o, q) = build(c);
    let mode = c.mode.clone();
    let dir = c.dir.clone();
    catch_unwind(AssertUnwindSafe(move || match mode.as_str() {
        "vul" => generate_vulnerability_report(v),
        "opt" => generate_optimization_report(o),
        "qa" => generate_qa_report(q),
        "all" => {
            // mirrors report::generation::generate_report up to the fs::write
            let mut s = String::from("");
            if v.len() > 0 {
                s.push_str(&generate_vulnerability_report(v));
                s.push_str("\n\n");
            }
            if o.len() > 0 {
                s.push_str(&generate_optimization_report(o));
                s.push_str("\n\n");
            }
            if q.len() > 0 {
                s.push_str(&generate_qa_report(q));
                s.push_str("\n\n");
            }
            s
        }
        "allfile" | "allfilestale" => {
            if !dir.contains("/.cache/") {
                panic!("allfile: directory must be under the .cache directory of the verification tree");
            }
            std::fs::create_dir_all(&dir).expect("mkdir");
            let old = std::env::current_dir().expect("cwd");
            std::env::set_current_dir(&dir).expect("chdir");
            if mode == "allfilestale" {
                // an earlier run with many findings for every pattern has left its (much longer) report behind:
                // it must be replaced as a whole
                let mut v0 = HashMap::new();
                let mut o0 = HashMap::new();
                let mut q0 = HashMap::new();
                let entries = |tag: &str| -> Entries {
                    (0..60)
                        .map(|i| (format!("Earlier{}{}.sol", tag, i), (1..(3 + i % 5)).map(|x| (x as i64 * 7 + i as i64) as LineNumber).collect()))
                        .collect()
                };
                for p in get_all_vulnerabilities() {
                    v0.insert(p, entries("V"));
                }
                for p in get_all_optimizations() {
                    o0.insert(p, entries("O"));
                }
                for p in get_all_qa() {
                    q0.insert(p, entries("Q"));
                }
                generate_report(v0, o0, q0);
            }
            let r = catch_unwind(AssertUnwindSafe(|| generate_report(v, o, q)));
            let text = std::fs::read_to_string("solstat_report.md");
            let _ = std::fs::remove_file("solstat_report.md");
            std::env::set_current_dir(old).expect("chdir back");
            if r.is_err() {
                panic!("generate_report panicked");
            }
            text.expect("report file not written")
        }
        other => {
            eprintln!("unknown mode {}", other);
            std::process::exit(3);
        }
    }))
    .ok()
}

fn main() {
    std::panic::set_hook(Box::new(|_| {}));
    let stdin = io::stdin();
    let stdout = io::stdout();
    let mut out = stdout.lock();
    let mut cur: Option<Case> = None;
    for line in stdin.lock().lines() {
        let line = line.expect("read");
        let mut it = line.split(' ').filter(|x| !x.is_empty());
        match it.next() {
            Some("case") => {
                let mut c = Case::default();
                c.mode = it.next().unwrap_or("").to_string();
                c.dir = it.next().unwrap_or("").to_string();
                cur = Some(c);
            }
            Some("pat") => {
                let cat = it.next().expect("category").to_string();
                let name = it.next().expect("variant").to_string();
                cur.as_mut().expect("pat outside case").pats.push((cat, name, vec![]));
            }
            Some("file") => {
                let tok = it.next().expect("file name token");
                if !tok.starts_with('x') {
                    eprintln!("file name token must start with x");
                    std::process::exit(3);
                }
                let name = unhex(&tok[1..]);
                let mut set = BTreeSet::new();
                for t in it {
                    set.insert(t.parse::<i64>().expect("line number") as LineNumber);
                }
                cur.as_mut()
                    .expect("file outside case")
                    .pats
                    .last_mut()
                    .expect("file before pat")
                    .2
                    .push((name, set));
            }
            Some("end") => {
                let c = cur.take().expect("end outside case");
                match run_case(&c) {
                    Some(s) => writeln!(out, "out {}", hex(&s)).unwrap(),
                    None => writeln!(out, "out PANIC").unwrap(),
                }
            }
            Some(other) => {
                eprintln!("unknown directive {}", other);
                std::process::exit(3);
            }
            None => {}
        }
    }
}
