// Correspondence harness for the directory walkers (C03, C15, C16).
// Calls the real solstat::analyzer::{optimizations,vulnerabilities,qa}::analyze_dir and
// analyze_for_* of /repo.  Line-oriented protocol, strings hex-encoded, one request per
// line on stdin:
//
//   dir <hex root> <opt|vul|qa> <name,name,..|->
//        begin
//        ls <hex relative path of a directory ('-' = root)> <d|f><hex entry name> ...
//             one line per directory, recursively, in the order std::fs::read_dir lists it
//        result ok | result PANIC | result LISTING-CHANGED
//        key <pattern name>              keys sorted by pattern name
//        item <hex file name> <line> ..  the vector of the key, IN ORDER
//        end
//   files <hex dir>
//        an <hex file name> <cat> <pattern> ok <line> .. | PANIC | UNREADABLE
//             analyze_for_*(content, 0, pattern) for every regular file of the directory
//             (not recursive; sorted by name) and each of the 30 patterns
//        fileno <hex file name> <cat> <pattern>
//             printed after an `an` line when file numbers 7 or 1000 give a different answer
//        end
//   threads <hex dir> <n threads> <repetitions>
//        the same analyze_for_* calls concurrently from n threads, each thread walking the
//        (file, pattern) pairs from a different starting point, repeated; compared with the
//        sequential answers
//        threads ok <comparisons> | threads MISMATCH <hex file> <pattern>
//        end
//   lowercheck
//        str::to_lowercase versus ASCII lowering: no non-ASCII scalar value may produce one of
//        the characters of ".t.sol" when lowered
//        lowercheck ok <scalars> | lowercheck BAD <code point> ..
//        end
// Every call into solstat is wrapped in catch_unwind (panic -> token PANIC).
use std::collections::{BTreeSet, HashMap};
use std::io::{self, BufRead, Write};
use std::os::unix::ffi::OsStrExt;
use std::panic::{catch_unwind, AssertUnwindSafe};
use std::path::{Path, PathBuf};
use std::sync::Arc;

use solstat::analyzer::optimizations as opt;
use solstat::analyzer::qa;
use solstat::analyzer::utils::LineNumber; // whatever integer type the crate uses for line numbers
use solstat::analyzer::vulnerabilities as vul;

const OPT_NAMES: [&str; 23] = [
    "address_balance", "address_zero", "assign_update_array_value", "bool_equals_bool",
    "cache_array_length", "constant_variables", "immutable_variables", "increment_decrement",
    "memory_to_calldata", "multiple_require", "optimal_comparison", "pack_storage_variables",
    "pack_struct_variables", "payable_function", "private_constant", "safe_math_pre_080",
    "safe_math_post_080", "shift_math", "short_revert_string", "solidity_keccak256",
    "solidity_math", "sstore", "string_errors",
];
const VUL_NAMES: [&str; 4] =
    ["divide_before_multiply", "floating_pragma", "unprotected_selfdestruct", "unsafe_erc20_operation"];
const QA_NAMES: [&str; 3] =
    ["constructor_order", "private_func_leading_underscore", "private_vars_leading_underscore"];

fn hexb(b: &[u8]) -> String {
    if b.is_empty() {
        return "-".into();
    }
    b.iter().map(|x| format!("{:02x}", x)).collect()
}

fn unhex(s: &str) -> Vec<u8> {
    if s == "-" {
        return vec![];
    }
    (0..s.len() / 2).map(|i| u8::from_str_radix(&s[2 * i..2 * i + 2], 16).unwrap()).collect()
}

fn path_of(hexs: &str) -> PathBuf {
    use std::os::unix::ffi::OsStringExt;
    PathBuf::from(std::ffi::OsString::from_vec(unhex(hexs)))
}

// the order in which read_dir lists every directory below root (depth first, listing order)
fn listing(root: &Path, rel: &Path, out: &mut Vec<String>) {
    let dir = root.join(rel);
    let mut line = format!("ls {}", hexb(rel.as_os_str().as_bytes()));
    let mut subs = vec![];
    if let Ok(rd) = std::fs::read_dir(&dir) {
        for e in rd {
            let e = match e {
                Ok(e) => e,
                Err(_) => continue,
            };
            let p = e.path();
            let name = e.file_name();
            if p.is_dir() {
                line.push_str(&format!(" d{}", hexb(name.as_bytes())));
                subs.push(rel.join(&name));
            } else {
                line.push_str(&format!(" f{}", hexb(name.as_bytes())));
            }
        }
    }
    out.push(line);
    for s in subs {
        listing(root, &s, out);
    }
}

type Found = Vec<(String, Vec<(String, BTreeSet<LineNumber>)>)>;

fn named<K: PartialEq + Copy>(
    names: &[&str],
    conv: &dyn Fn(&str) -> K,
    map: HashMap<K, Vec<(String, BTreeSet<LineNumber>)>>,
) -> Found
where
    K: std::hash::Hash + Eq,
{
    let mut out: Found = vec![];
    for (k, v) in map {
        let name = names.iter().find(|n| conv(n) == k).map(|s| s.to_string()).unwrap_or("?".into());
        out.push((name, v));
    }
    out.sort_by(|a, b| a.0.cmp(&b.0));
    out
}

fn run_dir(root: &str, cat: &str, names: &[&str]) -> Result<Found, ()> {
    catch_unwind(AssertUnwindSafe(|| match cat {
        "opt" => {
            let ps: Vec<opt::Optimization> = names.iter().map(|n| opt::str_to_optimization(n)).collect();
            named(names, &|n| opt::str_to_optimization(n), opt::analyze_dir(root, ps))
        }
        "vul" => {
            let ps: Vec<vul::Vulnerability> = names.iter().map(|n| vul::str_to_vulnerability(n)).collect();
            named(names, &|n| vul::str_to_vulnerability(n), vul::analyze_dir(root, ps))
        }
        _ => {
            let ps: Vec<qa::QualityAssurance> = names.iter().map(|n| qa::str_to_qa(n)).collect();
            named(names, &|n| qa::str_to_qa(n), qa::analyze_dir(root, ps))
        }
    }))
    .map_err(|_| ())
}

fn cmd_dir(w: &mut impl Write, root_hex: &str, cat: &str, names: &str) {
    let root = path_of(root_hex);
    let names: Vec<&str> = if names == "-" { vec![] } else { names.split(',').collect() };
    let mut before = vec![];
    listing(&root, Path::new(""), &mut before);
    let res = run_dir(root.to_str().unwrap(), cat, &names);
    let mut after = vec![];
    listing(&root, Path::new(""), &mut after);
    writeln!(w, "begin").unwrap();
    for l in &before {
        writeln!(w, "{}", l).unwrap();
    }
    if before != after {
        writeln!(w, "result LISTING-CHANGED").unwrap();
    } else {
        match res {
            Err(()) => writeln!(w, "result PANIC").unwrap(),
            Ok(found) => {
                writeln!(w, "result ok").unwrap();
                for (k, v) in found {
                    writeln!(w, "key {}", k).unwrap();
                    for (f, lines) in v {
                        let ls: Vec<String> = lines.iter().map(|x| x.to_string()).collect();
                        writeln!(w, "item {} {}", hexb(f.as_bytes()), ls.join(" ")).unwrap();
                    }
                }
            }
        }
    }
    writeln!(w, "end").unwrap();
}

fn analyze_one(cat: &str, name: &str, src: &str, file_no: usize) -> Result<BTreeSet<LineNumber>, ()> {
    catch_unwind(AssertUnwindSafe(|| match cat {
        "opt" => opt::analyze_for_optimization(src, file_no, opt::str_to_optimization(name)),
        "vul" => vul::analyze_for_vulnerability(src, file_no, vul::str_to_vulnerability(name)),
        _ => qa::analyze_for_qa(src, file_no, qa::str_to_qa(name)),
    }))
    .map_err(|_| ())
}

fn all_patterns() -> Vec<(&'static str, &'static str)> {
    let mut v = vec![];
    for n in OPT_NAMES.iter() {
        v.push(("opt", *n));
    }
    for n in VUL_NAMES.iter() {
        v.push(("vul", *n));
    }
    for n in QA_NAMES.iter() {
        v.push(("qa", *n));
    }
    v
}

fn regular_files(dir: &Path) -> Vec<PathBuf> {
    let mut files: Vec<PathBuf> =
        std::fs::read_dir(dir).unwrap().map(|e| e.unwrap().path()).filter(|p| p.is_file()).collect();
    files.sort();
    files
}

fn fmt_res(r: &Result<BTreeSet<LineNumber>, ()>) -> String {
    match r {
        Err(()) => "PANIC".into(),
        Ok(set) => {
            let ls: Vec<String> = set.iter().map(|x| x.to_string()).collect();
            format!("ok {}", ls.join(" ")).trim_end().to_string()
        }
    }
}

fn cmd_files(w: &mut impl Write, dir_hex: &str) {
    let dir = path_of(dir_hex);
    for f in regular_files(&dir) {
        let name = hexb(f.file_name().unwrap().as_bytes());
        let src = match std::fs::read_to_string(&f) {
            Ok(s) => s,
            Err(_) => {
                writeln!(w, "an {} - - UNREADABLE", name).unwrap();
                continue;
            }
        };
        for (cat, p) in all_patterns() {
            let r0 = analyze_one(cat, p, &src, 0);
            let r7 = analyze_one(cat, p, &src, 7);
            let r1000 = analyze_one(cat, p, &src, 1000);
            // the answer with file number 0 is "the file on its own" (a file alone in a directory has index 0)
            writeln!(w, "an {} {} {} {}", name, cat, p, fmt_res(&r0)).unwrap();
            if r0 != r7 || r0 != r1000 {
                writeln!(w, "fileno {} {} {}", name, cat, p).unwrap();
            }
        }
    }
    writeln!(w, "end").unwrap();
}

fn cmd_threads(w: &mut impl Write, dir_hex: &str, nthreads: usize, reps: usize) {
    let dir = path_of(dir_hex);
    let mut work: Vec<(String, String, &'static str, &'static str)> = vec![]; // (hex name, src, cat, pattern)
    for f in regular_files(&dir) {
        if let Ok(src) = std::fs::read_to_string(&f) {
            for (cat, p) in all_patterns() {
                work.push((hexb(f.file_name().unwrap().as_bytes()), src.clone(), cat, p));
            }
        }
    }
    let seq: Vec<Result<BTreeSet<LineNumber>, ()>> = work.iter().map(|(_, s, c, p)| analyze_one(c, p, s, 0)).collect();
    let work = Arc::new(work);
    let seq = Arc::new(seq);
    let mut handles = vec![];
    for t in 0..nthreads {
        let work = Arc::clone(&work);
        let seq = Arc::clone(&seq);
        // generous stacks: stack depth is not what C15 is about
        let builder = std::thread::Builder::new().stack_size(256 << 20);
        handles.push(builder.spawn(move || -> Result<usize, usize> {
            let n = work.len();
            let mut cmp = 0usize;
            if n == 0 {
                return Ok(0);
            }
            for rep in 0..reps {
                // a different starting point and stride per thread and repetition
                let start = (t * 7919 + rep * 104729) % n;
                let backwards = (t + rep) % 2 == 1;
                for j in 0..n {
                    let i = if backwards { (start + n - j) % n } else { (start + j) % n };
                    let (_, src, cat, p) = &work[i];
                    let r = analyze_one(cat, p, src, t * 100 + rep);
                    if r != seq[i] {
                        return Err(i);
                    }
                    cmp += 1;
                }
            }
            Ok(cmp)
        }).unwrap());
    }
    let mut total = 0usize;
    let mut bad: Option<usize> = None;
    for h in handles {
        match h.join() {
            Ok(Ok(c)) => total += c,
            Ok(Err(i)) => bad = Some(i),
            Err(_) => bad = Some(usize::MAX),
        }
    }
    match bad {
        None => writeln!(w, "threads ok {}", total).unwrap(),
        Some(i) if i < work.len() => writeln!(w, "threads MISMATCH {} {}", work[i].0, work[i].3).unwrap(),
        Some(_) => writeln!(w, "threads MISMATCH - thread-died").unwrap(),
    }
    writeln!(w, "end").unwrap();
}

fn cmd_lowercheck(w: &mut impl Write) {
    let mut bad = vec![];
    let mut n = 0u32;
    for cp in 0x80u32..=0x10FFFF {
        if let Some(c) = char::from_u32(cp) {
            n += 1;
            let s = c.to_string().to_lowercase();
            if s.chars().any(|d| ".tsol".contains(d)) {
                bad.push(cp);
            }
            // in context (str::to_lowercase has one context rule, for the Greek final sigma)
            let s2 = format!("a{}.T.SOL", c).to_lowercase();
            if !s2.ends_with(".t.sol") || s2.matches(".t.sol").count() != 1 {
                bad.push(cp);
            }
        }
    }
    // ASCII: to_lowercase agrees with to_ascii_lowercase
    for cp in 0u32..0x80 {
        let c = char::from_u32(cp).unwrap();
        if c.to_string().to_lowercase() != c.to_ascii_lowercase().to_string() {
            bad.push(cp);
        }
    }
    if bad.is_empty() {
        writeln!(w, "lowercheck ok {}", n).unwrap();
    } else {
        let v: Vec<String> = bad.iter().map(|x| x.to_string()).collect();
        writeln!(w, "lowercheck BAD {}", v.join(" ")).unwrap();
    }
    writeln!(w, "end").unwrap();
}

fn main() {
    std::panic::set_hook(Box::new(|_| {}));
    // the request loop runs on a thread with a large stack, so that deeply nested sources
    // cannot kill the harness (stack depth belongs to C04, not to the directory properties)
    let worker = std::thread::Builder::new().stack_size(1 << 30).spawn(serve).unwrap();
    worker.join().unwrap();
}

fn serve() {
    let stdin = io::stdin();
    let stdout = io::stdout();
    let mut w = io::BufWriter::new(stdout.lock());
    for line in stdin.lock().lines() {
        let line = line.unwrap();
        let a: Vec<&str> = line.split(' ').filter(|x| !x.is_empty()).collect();
        match a.first().copied() {
            Some("dir") if a.len() >= 4 => cmd_dir(&mut w, a[1], a[2], a[3]),
            Some("files") if a.len() >= 2 => cmd_files(&mut w, a[1]),
            Some("threads") if a.len() >= 4 => {
                cmd_threads(&mut w, a[1], a[2].parse().unwrap(), a[3].parse().unwrap())
            }
            Some("lowercheck") => cmd_lowercheck(&mut w),
            Some(_) => {
                writeln!(w, "?").unwrap();
                writeln!(w, "end").unwrap();
            }
            None => {}
        }
        w.flush().unwrap();
    }
}
