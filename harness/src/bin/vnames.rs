// vnames: what a pattern NAME selects, observed on the implementation (property C14).
// One request per line on stdin, one answer per line on stdout (strings hex-encoded):
//   all                      -> `all opt V..` / `all vul V..` / `all qa V..`  (get_all_*; three lines)
//   lowercheck               -> `lowercheck <cp>:<hex of lower-case form> ..` : every non-ASCII scalar value whose
//                               str::to_lowercase() is made of ASCII characters only (exhaustive over Unicode)
//   sel <cat> <name> <src>   -> `unknown` (str_to_* panicked) |
//                               `ok <Variant> <lines>|PANIC  <direct>|PANIC|nodet <section>|PANIC`
//        <lines>  = analyze_for_*(src, 0, str_to_*(name))            (comma separated, `-` when empty)
//        <direct> = lines of the detector function that carries this NAME in the source tree
//                   (table below, written from the module / function names, independent of str_to_*)
//        <section>= hex of the first non-empty line of get_*_report_section(str_to_*(name))
// Every call into solstat is wrapped in catch_unwind.
use std::collections::{BTreeSet, HashSet};
use std::io::{self, BufRead, Write};
use std::panic::{catch_unwind, AssertUnwindSafe};

use solang_parser::pt::{Loc, SourceUnit};
use solstat::analyzer::optimizations as opt;
use solstat::analyzer::qa;
use solstat::analyzer::utils;
use solstat::analyzer::vulnerabilities as vul;
use solstat::report::{optimization_report, qa_report, vulnerability_report};

type Det = fn(SourceUnit) -> HashSet<Loc>;

// lower-case documented name -> the detector function of the module of that name
fn detector_named(name: &str) -> Option<Det> {
    Some(match name {
        "address_balance" => opt::address_balance::address_balance_optimization as Det,
        "address_zero" => opt::address_zero::address_zero_optimization,
        "assign_update_array_value" => opt::assign_update_array_value::assign_update_array_optimization,
        "bool_equals_bool" => opt::bool_equals_bool::bool_equals_bool_optimization,
        "cache_array_length" => opt::cache_array_length::cache_array_length_optimization,
        "constant_variables" => opt::constant_variables::constant_variable_optimization,
        "immutable_variables" => opt::immutable_variables::immutable_variables_optimization,
        "increment_decrement" => opt::increment_decrement::increment_decrement_optimization,
        "memory_to_calldata" => opt::memory_to_calldata::memory_to_calldata_optimization,
        "multiple_require" => opt::multiple_require::multiple_require_optimization,
        "optimal_comparison" => opt::optimal_comparison::optimal_comparison_optimization,
        "pack_storage_variables" => opt::pack_storage_variables::pack_storage_variables_optimization,
        "pack_struct_variables" => opt::pack_struct_variables::pack_struct_variables_optimization,
        "payable_function" => opt::payable_function::payable_function_optimization,
        "private_constant" => opt::private_constant::private_constant_optimization,
        "safe_math_pre_080" => opt::safe_math::safe_math_pre_080_optimization,
        "safe_math_post_080" => opt::safe_math::safe_math_post_080_optimization,
        "shift_math" => opt::shift_math::shift_math_optimization,
        "short_revert_string" => opt::short_revert_string::short_revert_string_optimization,
        "solidity_keccak256" => opt::solidity_keccak256::solidity_keccak256_optimization,
        "solidity_math" => opt::solidity_math::solidity_math_optimization,
        "sstore" => opt::sstore::sstore_optimization,
        "string_errors" => opt::string_errors::string_error_optimization,
        "divide_before_multiply" => vul::divide_before_multiply::divide_before_multiply_vulnerability,
        "floating_pragma" => vul::floating_pragma::floating_pragma_vulnerability,
        "unprotected_selfdestruct" => vul::unprotected_selfdestruct::unprotected_selfdestruct_vulnerability,
        "unsafe_erc20_operation" => vul::unsafe_erc20_operation::unsafe_erc20_operation_vulnerability,
        "constructor_order" => qa::constructor_order::constructor_order_qa,
        "private_func_leading_underscore" => qa::private_func_leading_underscore::private_func_leading_underscore,
        "private_vars_leading_underscore" => qa::private_vars_leading_underscore::private_vars_leading_underscore,
        _ => return None,
    })
}

fn hex(s: &str) -> String {
    s.bytes().map(|b| format!("{:02x}", b)).collect()
}

fn unhex(s: &str) -> Vec<u8> {
    (0..s.len() / 2).map(|i| u8::from_str_radix(&s[2 * i..2 * i + 2], 16).unwrap()).collect()
}

fn fmt_lines(s: &BTreeSet<utils::LineNumber>) -> String {
    if s.is_empty() {
        "-".into()
    } else {
        s.iter().map(|x| x.to_string()).collect::<Vec<_>>().join(",")
    }
}

fn first_line(s: &str) -> String {
    hex(s.lines().map(|l| l.trim()).find(|l| !l.is_empty()).unwrap_or(""))
}

fn main() {
    std::panic::set_hook(Box::new(|_| {}));
    let stdin = io::stdin();
    let stdout = io::stdout();
    let mut w = stdout.lock();
    for line in stdin.lock().lines() {
        let line = line.unwrap();
        let mut it = line.split(' ');
        match it.next().unwrap_or("") {
            "all" => {
                let o: Vec<String> = opt::get_all_optimizations().iter().map(|v| format!("{:?}", v)).collect();
                let v: Vec<String> = vul::get_all_vulnerabilities().iter().map(|v| format!("{:?}", v)).collect();
                let q: Vec<String> = qa::get_all_qa().iter().map(|v| format!("{:?}", v)).collect();
                writeln!(w, "all opt {}", o.join(" ")).unwrap();
                writeln!(w, "all vul {}", v.join(" ")).unwrap();
                writeln!(w, "all qa {}", q.join(" ")).unwrap();
            }
            "lowercheck" => {
                // every non-ASCII scalar value whose str::to_lowercase() consists of ASCII characters only
                let mut hits: Vec<String> = vec![];
                for cp in 0x80u32..=0x10FFFF {
                    if let Some(c) = char::from_u32(cp) {
                        let l = c.to_string().to_lowercase();
                        if l.is_ascii() {
                            hits.push(format!("{:x}:{}", cp, hex(&l)));
                        }
                    }
                }
                writeln!(w, "lowercheck {}", hits.join(" ")).unwrap();
            }
            "sel" => {
                let cat = it.next().unwrap_or("").to_string();
                let name = String::from_utf8(unhex(it.next().unwrap_or(""))).unwrap();
                let src = String::from_utf8(unhex(it.next().unwrap_or(""))).unwrap();
                // 1. the name table
                let variant: Result<(String, String, String), _> = catch_unwind(AssertUnwindSafe(|| match cat.as_str() {
                    "opt" => {
                        let v = opt::str_to_optimization(&name);
                        let l = catch_unwind(AssertUnwindSafe(|| fmt_lines(&opt::analyze_for_optimization(&src, 0, v))))
                            .unwrap_or("PANIC".into());
                        let s = catch_unwind(AssertUnwindSafe(|| {
                            first_line(&optimization_report::get_optimization_report_section(v))
                        }))
                        .unwrap_or("PANIC".into());
                        (format!("{:?}", v), l, s)
                    }
                    "vul" => {
                        let v = vul::str_to_vulnerability(&name);
                        let l = catch_unwind(AssertUnwindSafe(|| fmt_lines(&vul::analyze_for_vulnerability(&src, 0, v))))
                            .unwrap_or("PANIC".into());
                        let s = catch_unwind(AssertUnwindSafe(|| {
                            first_line(&vulnerability_report::get_vulnerability_report_section(v).0)
                        }))
                        .unwrap_or("PANIC".into());
                        (format!("{:?}", v), l, s)
                    }
                    _ => {
                        let v = qa::str_to_qa(&name);
                        let l = catch_unwind(AssertUnwindSafe(|| fmt_lines(&qa::analyze_for_qa(&src, 0, v))))
                            .unwrap_or("PANIC".into());
                        let s = catch_unwind(AssertUnwindSafe(|| first_line(&qa_report::get_qa_report_section(v))))
                            .unwrap_or("PANIC".into());
                        (format!("{:?}", v), l, s)
                    }
                }));
                match variant {
                    Err(_) => writeln!(w, "unknown").unwrap(),
                    Ok((v, l, s)) => {
                        // 2. the detector that carries this name, called directly
                        let direct = match detector_named(&name.to_ascii_lowercase()) {
                            None => "nodet".to_string(),
                            Some(d) => catch_unwind(AssertUnwindSafe(|| {
                                let su = solang_parser::parse(&src, 0).unwrap().0;
                                let mut set = BTreeSet::new();
                                for loc in d(su) {
                                    set.insert(utils::get_line_number(loc.start(), &src));
                                }
                                fmt_lines(&set)
                            }))
                            .unwrap_or("PANIC".into()),
                        };
                        writeln!(w, "ok {} {} {} {}", v, l, direct, s).unwrap()
                    }
                }
            }
            _ => writeln!(w, "?").unwrap(),
        }
    }
}
