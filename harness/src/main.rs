// Correspondence harness: runs the implementation in /repo (linked by path) on
// inputs prepared by /verif/tools and prints its observable behaviour in a
// line-oriented text format.  Every call into solstat is wrapped in
// catch_unwind; a panic is reported as the token PANIC.
use std::collections::{BTreeSet, HashSet};
use std::io::{self, BufRead, Write};
use std::panic::{catch_unwind, AssertUnwindSafe};

use solang_parser::pt::{self, CodeLocation, Loc, SourceUnit};
use solstat::analyzer::ast::{self, Node, Target};
use solstat::analyzer::optimizations as opt;
use solstat::analyzer::qa;
use solstat::analyzer::utils;
use solstat::analyzer::utils::LineNumber; // whatever integer type the crate uses for line numbers
use solstat::analyzer::vulnerabilities as vul;

type Det = fn(SourceUnit) -> HashSet<Loc>;

fn detectors() -> Vec<(&'static str, Det)> {
    vec![
        ("address_balance", opt::address_balance::address_balance_optimization as Det),
        ("address_zero", opt::address_zero::address_zero_optimization),
        ("assign_update_array_value", opt::assign_update_array_value::assign_update_array_optimization),
        ("bool_equals_bool", opt::bool_equals_bool::bool_equals_bool_optimization),
        ("cache_array_length", opt::cache_array_length::cache_array_length_optimization),
        ("constant_variables", opt::constant_variables::constant_variable_optimization),
        ("immutable_variables", opt::immutable_variables::immutable_variables_optimization),
        ("increment_decrement", opt::increment_decrement::increment_decrement_optimization),
        ("memory_to_calldata", opt::memory_to_calldata::memory_to_calldata_optimization),
        ("multiple_require", opt::multiple_require::multiple_require_optimization),
        ("optimal_comparison", opt::optimal_comparison::optimal_comparison_optimization),
        ("pack_storage_variables", opt::pack_storage_variables::pack_storage_variables_optimization),
        ("pack_struct_variables", opt::pack_struct_variables::pack_struct_variables_optimization),
        ("payable_function", opt::payable_function::payable_function_optimization),
        ("private_constant", opt::private_constant::private_constant_optimization),
        ("safe_math_pre_080", opt::safe_math::safe_math_pre_080_optimization),
        ("safe_math_post_080", opt::safe_math::safe_math_post_080_optimization),
        ("shift_math", opt::shift_math::shift_math_optimization),
        ("short_revert_string", opt::short_revert_string::short_revert_string_optimization),
        ("solidity_keccak256", opt::solidity_keccak256::solidity_keccak256_optimization),
        ("solidity_math", opt::solidity_math::solidity_math_optimization),
        ("sstore", opt::sstore::sstore_optimization),
        ("string_errors", opt::string_errors::string_error_optimization),
        ("divide_before_multiply", vul::divide_before_multiply::divide_before_multiply_vulnerability),
        ("floating_pragma", vul::floating_pragma::floating_pragma_vulnerability),
        ("unprotected_selfdestruct", vul::unprotected_selfdestruct::unprotected_selfdestruct_vulnerability),
        ("unsafe_erc20_operation", vul::unsafe_erc20_operation::unsafe_erc20_operation_vulnerability),
        ("constructor_order", qa::constructor_order::constructor_order_qa),
        ("private_func_leading_underscore", qa::private_func_leading_underscore::private_func_leading_underscore),
        ("private_vars_leading_underscore", qa::private_vars_leading_underscore::private_vars_leading_underscore),
    ]
}

const N_OPT: usize = 23;
const N_VUL: usize = 4;

fn all_targets() -> Vec<Target> {
    use Target::*;
    vec![
        Args, Return, Revert, RevertNamedArgs, Emit, Expression, VariableDefinition, Block, If,
        While, For, DoWhile, Try, Add, And, ArrayLiteral, ArraySlice, ArraySubscript, Assign,
        AssignAdd, AssignAnd, AssignDivide, AssignModulo, AssignMultiply, AssignOr,
        AssignShiftLeft, AssignShiftRight, AssignSubtract, AssignXor, BitwiseAnd, BitwiseOr,
        BitwiseXor, Complement, Delete, Divide, Equal, FunctionCall, FunctionCallBlock, Less,
        LessEqual, List, MemberAccess, Modulo, More, MoreEqual, Multiply, NamedFunctionCall, New,
        Not, NotEqual, Or, Parenthesis, PostDecrement, PostIncrement, PreIncrement, PreDecrement,
        ShiftLeft, ShiftRight, Subtract, Ternary, Type, Function, UnaryMinus, UnaryPlus, Unit,
        Power, BoolLiteral, NumberLiteral, RationalNumberLiteral, HexNumberLiteral, HexLiteral,
        StringLiteral, AddressLiteral, Variable, This, SourceUnit, ContractDefinition,
        EnumDefinition, EventDefinition, ErrorDefinition, FunctionDefinition, ImportDirective,
        PragmaDirective, StraySemicolon, StructDefinition, TypeDefinition, Using, None,
    ]
}

fn target_index(all: &[Target], t: Target) -> usize {
    all.iter().position(|x| *x == t).unwrap()
}

fn loc_pair(l: Loc) -> (usize, usize) {
    match l {
        Loc::File(_, s, e) => (s, e),
        _ => (usize::MAX, usize::MAX),
    }
}

fn node_loc(n: &Node) -> (usize, usize) {
    match n {
        Node::Expression(e) => loc_pair(e.loc()),
        Node::Statement(s) => loc_pair(s.loc()),
        Node::SourceUnit(_) => (0, 0),
        Node::SourceUnitPart(p) => loc_pair(*p.loc()),
        Node::ContractPart(p) => loc_pair(*p.loc()),
    }
}

fn hex(s: &str) -> String {
    s.bytes().map(|b| format!("{:02x}", b)).collect()
}

fn unhex(s: &str) -> Vec<u8> {
    (0..s.len() / 2).map(|i| u8::from_str_radix(&s[2 * i..2 * i + 2], 16).unwrap()).collect()
}

// subset k of the target indices (same formula on the Coq side: Cases.subset_sel)
fn in_subset(i: usize, k: usize) -> bool {
    ((((i as u64 + 1) * 2654435761u64) % 4294967296u64) >> (8 + k)) & 1 == 1
}

fn fmt_locs(set: HashSet<Loc>) -> String {
    let mut v: Vec<(usize, usize)> = set.into_iter().map(loc_pair).collect();
    v.sort();
    v.dedup();
    v.iter().map(|(s, e)| format!("{}:{}", s, e)).collect::<Vec<_>>().join(" ")
}

fn fmt_lines(set: BTreeSet<LineNumber>) -> String {
    set.iter().map(|x| x.to_string()).collect::<Vec<_>>().join(" ")
}

// A small file with findings for many detectors, padded with line feeds to the length of the file under
// analysis: it is analysed immediately BEFORE that file, under the same file number and in the same buffer
// (same address, same length), the way analyze_dir meets two equally long files at the same listing index of two
// directories.  A verdict must not depend on what was analysed before (C15); a cache keyed by file number,
// length or address shows up as a wrong line set for the file that follows.
const DECOY: &str = "pragma solidity ^0.7.1;\ncontract Decoy { uint public _v; address o;\n function k(uint[] memory m) external { require(_v > 0 && m.length >= 1, \"this message is longer than thirty-two bytes!\"); _v = _v / 2 * 4; _v++; selfdestruct(payable(o)); }\n function t(address a) public { IERC20(a).transfer(a, address(this).balance); }\n}\n";

// A SIBLING of a source: the same text with every ordinary lower-case identifier renamed (last character advanced) and
// `+` / `-` exchanged - same length, same layout, same contract names, the same node kinds at the same byte offsets, but
// other names and other findings.  It is analysed right before the source itself (as the decoy is): whatever is
// remembered per (file number, contract name, location, length) from one file must not reach the next one.
fn sibling(src: &str) -> Option<String> {
    const KEEP: &[&str] = &[
        "abstract", "anonymous", "as", "assembly", "break", "calldata", "catch", "constant", "constructor", "continue", "contract",
        "delete", "do", "else", "emit", "enum", "error", "event", "external", "fallback", "for", "from", "function", "global", "if",
        "immutable", "import", "indexed", "interface", "internal", "is", "let", "library", "mapping", "memory", "modifier", "new",
        "override", "payable", "private", "public", "pure", "receive", "return", "returns", "revert", "storage", "struct", "throw",
        "try", "type", "unchecked", "using", "view", "virtual", "while", "bool", "string", "address", "bytes", "byte", "int", "uint",
        "true", "false", "wei", "gwei", "ether", "seconds", "minutes", "hours", "days", "weeks", "years", "var", "this", "super",
        "require", "assert", "msg", "sender", "value", "data", "sig", "block", "tx", "origin", "abi", "encode", "encodePacked",
        "decode", "keccak256", "sha256", "selfdestruct", "suicide", "transfer", "transferFrom", "approve", "balance", "length",
        "push", "pop", "add", "sub", "mul", "div", "now", "call", "send", "delegatecall", "staticcall", "gas", "hex", "unicode",
        "solidity", "experimental", "abicoder", "switch", "case", "default", "leave", "fixed", "ufixed", "timestamp", "number",
    ];
    let b = src.as_bytes();
    let n = b.len();
    let mut out: Vec<u8> = Vec::with_capacity(n);
    let is_id = |c: u8| c.is_ascii_alphanumeric() || c == b'_' || c == b'$' || c >= 0x80;
    let mut i = 0usize;
    let mut in_asm = 0usize; // brace depth inside an assembly block (its identifiers are left alone)
    let mut asm_pending = false;
    while i < n {
        let c = b[i];
        if c == b'/' && i + 1 < n && b[i + 1] == b'/' {
            while i < n && b[i] != b'\n' && b[i] != b'\r' {
                out.push(b[i]);
                i += 1;
            }
        } else if c == b'/' && i + 1 < n && b[i + 1] == b'*' {
            let mut j = i + 2;
            while j + 1 < n && !(b[j] == b'*' && b[j + 1] == b'/') {
                j += 1;
            }
            j = (j + 2).min(n);
            out.extend_from_slice(&b[i..j]);
            i = j;
        } else if c == b'"' || c == b'\'' {
            let q = c;
            out.push(c);
            i += 1;
            while i < n && b[i] != q && b[i] != b'\n' {
                if b[i] == b'\\' && i + 1 < n {
                    out.push(b[i]);
                    i += 1;
                }
                out.push(b[i]);
                i += 1;
            }
            if i < n {
                out.push(b[i]);
                i += 1;
            }
        } else if c.is_ascii_digit() {
            // a number: copied as it is (with a signed exponent)
            while i < n && (is_id(b[i]) || b[i] == b'.') {
                out.push(b[i]);
                i += 1;
                if (b[i - 1] == b'e' || b[i - 1] == b'E') && i < n && b[i] == b'-' && !(i >= 2 && b[i - 2] == b'x') {
                    out.push(b[i]);
                    i += 1;
                }
            }
        } else if is_id(c) {
            let mut j = i;
            while j < n && is_id(b[j]) {
                j += 1;
            }
            let w = &src[i..j];
            if w == "pragma" || w == "import" {
                while j < n && b[j] != b';' {
                    j += 1;
                }
                out.extend_from_slice(&b[i..j]);
                i = j;
                continue;
            }
            if w == "assembly" {
                asm_pending = true;
            }
            let last = b[j - 1];
            let elementary = (w.starts_with("uint") || w.starts_with("int") || w.starts_with("bytes")) && w.bytes().skip_while(|x| x.is_ascii_alphabetic()).all(|x| x.is_ascii_digit());
            let rename = in_asm == 0 && !asm_pending && w.len() >= 2 && (c.is_ascii_lowercase() || c == b'_') && !KEEP.contains(&w) && !elementary && last.is_ascii_alphanumeric();
            out.extend_from_slice(&b[i..j - 1]);
            out.push(if !rename {
                last
            } else {
                match last {
                    b'z' => b'a',
                    b'Z' => b'A',
                    b'9' => b'0',
                    x => x + 1,
                }
            });
            i = j;
        } else {
            if c == b'{' && (asm_pending || in_asm > 0) {
                in_asm += 1;
                asm_pending = false;
            } else if c == b'}' && in_asm > 0 {
                in_asm -= 1;
            } else if c == b';' {
                asm_pending = false;
            }
            let swapped = if in_asm > 0 {
                c
            } else if c == b'+' {
                b'-'
            } else if c == b'-' && !(i + 1 < n && b[i + 1] == b'>') {
                b'+'
            } else {
                c
            };
            out.push(swapped);
            i += 1;
        }
    }
    let s = String::from_utf8(out).ok()?;
    if s.len() != src.len() || s == src {
        return None;
    }
    match catch_unwind(AssertUnwindSafe(|| solang_parser::parse(&s, 0))) {
        Ok(Ok(_)) => Some(s),
        _ => None,
    }
}

fn analyze_one(idx: usize, name: &str, src: &str) -> BTreeSet<LineNumber> {
    if idx < N_OPT {
        opt::analyze_for_optimization(src, 0, opt::str_to_optimization(name))
    } else if idx < N_OPT + N_VUL {
        vul::analyze_for_vulnerability(src, 0, vul::str_to_vulnerability(name))
    } else {
        qa::analyze_for_qa(src, 0, qa::str_to_qa(name))
    }
}

fn lines_for(idx: usize, name: &str, src: &str, sib: &Option<String>) -> Result<BTreeSet<LineNumber>, ()> {
    let n = src.len();
    let mut buf = String::with_capacity(n.max(1));
    if n >= DECOY.len() {
        buf.push_str(DECOY);
        while buf.len() < n {
            buf.push('\n');
        }
        let _ = catch_unwind(AssertUnwindSafe(|| analyze_one(idx, name, &buf)));
    }
    if let Some(s) = sib {
        buf.clear();
        buf.push_str(s);
        let _ = catch_unwind(AssertUnwindSafe(|| analyze_one(idx, name, &buf)));
    }
    buf.clear();
    buf.push_str(src); // same allocation: capacity is unchanged
    let r = catch_unwind(AssertUnwindSafe(|| analyze_one(idx, name, &buf)));
    r.map_err(|_| ())
}

static DONE: std::sync::atomic::AtomicUsize = std::sync::atomic::AtomicUsize::new(0);
static CUR_DET: std::sync::atomic::AtomicUsize = std::sync::atomic::AtomicUsize::new(0);
static FINISHED: std::sync::atomic::AtomicBool = std::sync::atomic::AtomicBool::new(false);
static PARTIAL: std::sync::Mutex<String> = std::sync::Mutex::new(String::new());
const FILE_TIME_LIMIT_S: u64 = 120;

// All files of the directory, analysed one after the other on a worker thread with a large stack (as the solstat
// binary does).  If one file is not finished within FILE_TIME_LIMIT_S seconds the analysis is taken not to
// terminate on it: its result file says `hang <detector>`, the stuck thread is abandoned and a new worker goes on
// with the next file (C04: a hang is an abort the user sees).
static DUMP_ONLY: std::sync::atomic::AtomicBool = std::sync::atomic::AtomicBool::new(false);

fn cmd_prog(dir: &str, want_walk: bool, want_dump: bool) {
    use std::sync::atomic::Ordering::SeqCst;
    let mut files: Vec<_> = std::fs::read_dir(dir)
        .unwrap()
        .map(|e| e.unwrap().path())
        .filter(|p| p.extension().map(|x| x == "sol").unwrap_or(false))
        .collect();
    files.sort();
    let files = std::sync::Arc::new(files);
    let mut start = 0usize;
    loop {
        DONE.store(start, SeqCst);
        FINISHED.store(false, SeqCst);
        let fs = files.clone();
        std::thread::Builder::new()
            .stack_size(2usize << 30)
            .spawn(move || {
                prog_files(&fs[start..], want_walk, want_dump);
                FINISHED.store(true, SeqCst);
            })
            .expect("spawn");
        let mut last = start;
        let mut since = std::time::Instant::now();
        loop {
            std::thread::sleep(std::time::Duration::from_millis(20));
            if FINISHED.load(SeqCst) {
                return;
            }
            let d = DONE.load(SeqCst);
            if d != last {
                last = d;
                since = std::time::Instant::now();
            } else if since.elapsed().as_secs() >= FILE_TIME_LIMIT_S {
                let dets = detectors();
                let k = CUR_DET.load(SeqCst);
                let name = if k < dets.len() { dets[k].0 } else { "other" };
                let mut p = files[last].clone();
                p.set_extension("res");
                let partial = PARTIAL.lock().map(|g| g.clone()).unwrap_or_default();
                let head = if partial.starts_with("parse ok") { partial } else { String::from("parse ok\n") };
                std::fs::write(p, format!("{}hang {}\n", head, name)).unwrap();
                start = last + 1;
                break;
            }
        }
        if start >= files.len() {
            return;
        }
    }
}

fn prog_files(files: &[std::path::PathBuf], want_walk: bool, want_dump: bool) {
    use std::sync::atomic::Ordering::SeqCst;
    let dets = detectors();
    let targets = all_targets();
    for f in files {
        let f = f.clone();
        CUR_DET.store(usize::MAX, SeqCst);
        if let Ok(mut g) = PARTIAL.lock() {
            g.clear();
        }
        let src = std::fs::read_to_string(&f).unwrap();
        let mut out = String::new();
        let parsed = catch_unwind(AssertUnwindSafe(|| solang_parser::parse(&src, 0)));
        match parsed {
            Err(_) => out.push_str("parse PANIC\n"),
            Ok(Err(_)) => out.push_str("parse err\n"),
            Ok(Ok((su, _comments))) => {
                out.push_str("parse ok\n");
                if want_dump {
                    out.push_str(&format!("dump {:?}\n", su));
                }
                if let Ok(mut g) = PARTIAL.lock() {
                    *g = out.clone();
                }
                if DUMP_ONLY.load(SeqCst) {
                    let mut p = f.clone();
                    p.set_extension("res");
                    std::fs::write(p, out).unwrap();
                    DONE.fetch_add(1, SeqCst);
                    continue;
                }
                let sib = if src.len() <= 20000 { sibling(&src) } else { None };
                out.push_str(if sib.is_some() { "sibling yes\n" } else { "sibling no\n" });
                for (i, (name, f)) in dets.iter().enumerate() {
                    CUR_DET.store(i, SeqCst);
                    let su2 = su.clone();
                    match catch_unwind(AssertUnwindSafe(|| f(su2))) {
                        Ok(set) => out.push_str(&format!("det {} ok {}\n", name, fmt_locs(set))),
                        Err(_) => out.push_str(&format!("det {} PANIC\n", name)),
                    }
                    match lines_for(i, name, &src, &sib) {
                        Ok(set) => out.push_str(&format!("lines {} ok {}\n", name, fmt_lines(set))),
                        Err(_) => out.push_str(&format!("lines {} PANIC\n", name)),
                    }
                }
                // version helper
                {
                    let su2 = su.clone();
                    match catch_unwind(AssertUnwindSafe(|| utils::get_solidity_version_from_source_unit(su2))) {
                        Ok(Some((a, b, c))) => out.push_str(&format!("version some {} {} {}\n", a, b, c)),
                        Ok(None) => out.push_str("version none\n"),
                        Err(_) => out.push_str("version PANIC\n"),
                    }
                }
                if want_walk {
                    let full: HashSet<Target> = targets.iter().cloned().collect();
                    let r = catch_unwind(AssertUnwindSafe(|| {
                        let nodes = ast::walk_node_for_targets(&full, su.clone().into());
                        let mut s = String::from("walk all");
                        for n in &nodes {
                            let (a, b) = node_loc(n);
                            s.push_str(&format!(" {}:{}:{}", target_index(&targets, n.as_target()), a, b));
                        }
                        s.push('\n');
                        // sub-roots: size of the full walk from every node found
                        // the full walk from EVERY node as root is quadratic in the depth: it is left out for very large trees
                        // (the checks then compare the other entry points only)
                        if nodes.len() <= 700 {
                            s.push_str("walk sub");
                            for n in &nodes {
                                s.push_str(&format!(" {}", ast::walk_node_for_targets(&full, n.clone()).len()));
                            }
                            s.push('\n');
                            // the multi-kind ENTRY POINT from every node as root must return what the walker returns from that root;
                            // it is called after the same searches over the sibling's tree (same kinds of roots at the same offsets)
                            if let Some(sb) = &sib {
                                if let Ok((ssu, _)) = solang_parser::parse(sb, 0) {
                                    for n in ast::walk_node_for_targets(&full, ssu.into()) {
                                        let _ = ast::extract_targets_from_node(targets.clone(), n);
                                    }
                                }
                            }
                            let mut mism = 0usize;
                            for n in &nodes {
                                let a: Vec<_> = ast::walk_node_for_targets(&full, n.clone())
                                    .iter()
                                    .map(|x| (target_index(&targets, x.as_target()), node_loc(x)))
                                    .collect();
                                let b: Vec<_> = ast::extract_targets_from_node(targets.clone(), n.clone())
                                    .iter()
                                    .map(|x| (target_index(&targets, x.as_target()), node_loc(x)))
                                    .collect();
                                if a != b {
                                    mism += 1;
                                }
                            }
                            s.push_str(&format!("walk subx {}\n", mism));
                        } else {
                            s.push_str("walk subskipped\n");
                        }
                        for k in 0..4usize {
                            let sub: Vec<Target> = targets
                                .iter()
                                .enumerate()
                                .filter(|(i, _)| in_subset(*i, k))
                                .map(|(_, t)| *t)
                                .collect();
                            let nodes = ast::extract_targets_from_node(sub, su.clone().into());
                            s.push_str(&format!("walk set{}", k));
                            for n in &nodes {
                                let (a, b) = node_loc(n);
                                s.push_str(&format!(" {}:{}:{}", target_index(&targets, n.as_target()), a, b));
                            }
                            s.push('\n');
                        }
                        // single-target entry point, for every target: count only
                        s.push_str("walk single");
                        for t in &targets {
                            s.push_str(&format!(" {}", ast::extract_target_from_node(*t, su.clone().into()).len()));
                        }
                        s.push('\n');
                        s
                    }));
                    match r {
                        Ok(s) => out.push_str(&s),
                        Err(_) => out.push_str("walk PANIC\n"),
                    }
                }
            }
        }
        let mut p = f.clone();
        p.set_extension("res");
        std::fs::write(p, out).unwrap();
        DONE.fetch_add(1, SeqCst);
    }
}

// util: one request per line on stdin, one answer per line on stdout
fn cmd_util() {
    let stdin = io::stdin();
    let stdout = io::stdout();
    let mut w = stdout.lock();
    for line in stdin.lock().lines() {
        let line = line.unwrap();
        let mut it = line.split(' ');
        let c = it.next().unwrap_or("");
        let ans = match c {
            "line" => {
                let off: usize = it.next().unwrap().parse().unwrap();
                let content = String::from_utf8(unhex(it.next().unwrap_or(""))).unwrap();
                match catch_unwind(AssertUnwindSafe(|| utils::get_line_number(off, &content))) {
                    Ok(n) => n.to_string(),
                    Err(_) => "PANIC".into(),
                }
            }
            "slots" => {
                let v: Vec<u16> = it.filter(|x| !x.is_empty()).map(|x| x.parse().unwrap()).collect();
                match catch_unwind(AssertUnwindSafe(|| utils::storage_slots_used(v))) {
                    Ok(n) => n.to_string(),
                    Err(_) => "PANIC".into(),
                }
            }
            "ver" => {
                let s = String::from_utf8(unhex(it.next().unwrap_or(""))).unwrap();
                match catch_unwind(AssertUnwindSafe(|| {
                    utils::get_solidity_major_minor_patch_version(&s)
                        .iter()
                        .map(|x| hex(x))
                        .collect::<Vec<_>>()
                        .join(" ")
                })) {
                    Ok(n) => format!("ok {}", n),
                    Err(_) => "PANIC".into(),
                }
            }
            "name" => {
                // name <category> <hex>
                let cat = it.next().unwrap();
                let s = String::from_utf8(unhex(it.next().unwrap_or(""))).unwrap();
                let r = catch_unwind(AssertUnwindSafe(|| match cat {
                    "opt" => format!("{:?}", opt::str_to_optimization(&s)),
                    "vul" => format!("{:?}", vul::str_to_vulnerability(&s)),
                    _ => format!("{:?}", qa::str_to_qa(&s)),
                }));
                match r {
                    Ok(n) => format!("ok {}", n),
                    Err(_) => "PANIC".into(),
                }
            }
            _ => "?".into(),
        };
        writeln!(w, "{}", ans).unwrap();
    }
}

fn main() {
    // silence panic messages (they are expected on the out-of-domain stream)
    std::panic::set_hook(Box::new(|_| {}));
    let args: Vec<String> = std::env::args().collect();
    match args.get(1).map(|s| s.as_str()) {
        Some("prog") => {
            let flags: Vec<&str> = args[3..].iter().map(|s| s.as_str()).collect();
            // dumponly: parse and print the tree, run nothing of solstat (used for a file on which the analysis kills the process)
            DUMP_ONLY.store(flags.contains(&"dumponly"), std::sync::atomic::Ordering::SeqCst);
            cmd_prog(&args[2], flags.contains(&"walk"), !flags.contains(&"nodump"));
            std::process::exit(0); // abandoned (non-terminating) worker threads die with the process
        }
        Some("util") => cmd_util(),
        _ => {
            eprintln!("usage: vharness prog <dir> [walk] [nodump] | util");
            std::process::exit(2);
        }
    }
}
