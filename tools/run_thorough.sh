#!/bin/bash
# run the thorough tier of every claimed check one after the other (for `vp run`); prints one line per check
cd "$(dirname "$0")/.."
./check --setup || exit 2
for c in $(python3 -c "import json; print(' '.join(x['property_id'] for x in json.load(open('MANIFEST.json'))['checks']))"); do
  s=$(date +%s)
  ./check $c --tier thorough > thorough_$c.log 2>&1
  rc=$?
  echo "$c rc=$rc $(( $(date +%s) - s ))s $(grep -c '^VIOLATION' thorough_$c.log) violation lines"
done
