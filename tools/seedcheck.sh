#!/bin/bash
# Confirm a seeded change delivered by a sub-agent and run the checks against it.
#   tools/seedcheck.sh <Cxx> <mN> [<check ids to run, default Cxx>]
# Input : /tmp/mut/<Cxx>-out/<mN>/{patch.diff,demo.rs|demo.sh,meta.json}, scratch worktree /tmp/mut/<Cxx>
# Output: /verif/seeded/<Cxx>-<mN>/{patch.diff,demo.*,meta.json,confirm.json,checks/<Cyy>.log,...}
set -u
P=$1; M=$2; shift 2
CHECKS="${*:-$P}"
SRC=/tmp/mut/$P-out/$M; [ -d "$SRC" ] || SRC=/tmp/mut/$P-out2/$M; [ -d "$SRC" ] || SRC=/tmp/mut/$P-out3/$M; [ -d "$SRC" ] || SRC=/tmp/mut/$P-out4/$M; [ -d "$SRC" ] || SRC=/tmp/mut/$P-out5/$M; [ -d "$SRC" ] || SRC=/tmp/mut/$P-out6/$M; [ -d "$SRC" ] || SRC=/tmp/mut/$P-out7/$M
WT=/tmp/mut/$P
DST=/verif/seeded/$P-$M
export CARGO_NET_OFFLINE=true CARGO_TARGET_DIR=$WT/target
mkdir -p "$DST/checks"
cp "$SRC/patch.diff" "$DST/patch.diff"
cp "$SRC"/demo.* "$DST"/ 2>/dev/null
cp "$SRC/meta.json" "$DST/meta.agent.json"
git -C "$WT" checkout -q -- . ; git -C "$WT" clean -fdq -e target
run_demo() {
  if [ -f "$SRC/demo.rs" ]; then
    mkdir -p "$WT/tests"; cp "$SRC/demo.rs" "$WT/tests/demo.rs"
    (cd "$WT" && timeout 1800 cargo test --offline --test demo) > "$1" 2>&1; local rc=$?
    rm -rf "$WT/tests/demo.rs"; rmdir "$WT/tests" 2>/dev/null
    return $rc
  else
    (cd "$WT" && timeout 1800 bash "$SRC/demo.sh" "$WT") > "$1" 2>&1
  fi
}
run_demo "$DST/demo_without_patch.log"; D0=$?
git -C "$WT" apply "$SRC/patch.diff" || { echo "PATCH DOES NOT APPLY"; exit 2; }
(cd "$WT" && timeout 1800 cargo test --workspace --no-fail-fast --offline) > "$DST/tests_with_patch.log" 2>&1; T1=$?
NPASS=$(grep -h "^test result" "$DST/tests_with_patch.log" | sed 's/.*ok\. \([0-9]*\) passed.*/\1/' | paste -sd+ | bc)
run_demo "$DST/demo_with_patch.log"; D1=$?
git -C "$WT" checkout -q -- . ; git -C "$WT" clean -fdq -e target
echo "{\"demo_without_patch_rc\": $D0, \"tests_with_patch_rc\": $T1, \"tests_passed_with_patch\": ${NPASS:-0}, \"demo_with_patch_rc\": $D1}" > "$DST/confirm.json"
cat "$DST/confirm.json"
if [ $D0 -ne 0 ] || [ $T1 -ne 0 ] || [ $D1 -eq 0 ]; then echo "NOT CONFIRMED"; exit 1; fi
/verif/tools/mutrun.sh "$DST/patch.diff" "$DST/checks" $CHECKS
