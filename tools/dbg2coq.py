#!/usr/bin/env python3
"""Rust `{:?}` text of a solang_parser::pt::SourceUnit  ->  Coq term of gen/Pt.v.

Type-directed by the same declaration table that pt2coq.py reads (variant
names repeat across enums, so the expected type decides the constructor).
Also returns simple statistics (node count, maximal depth).
"""
import sys, os, re
sys.path.insert(0, os.path.dirname(os.path.abspath(__file__)))
import pt2coq

_T = None


def table():
    global _T
    if _T is None:
        T, deps, ver, path = pt2coq.load()
        _T = T
    return _T


class DbgError(Exception):
    pass


class R:
    def __init__(self, s):
        self.s = s
        self.i = 0
        self.nodes = 0
        self.depth = 0
        self.maxdepth = 0

    def ws(self):
        while self.i < len(self.s) and self.s[self.i] == ' ':
            self.i += 1

    def peek(self):
        self.ws()
        return self.s[self.i] if self.i < len(self.s) else ''

    def eat(self, tok):
        self.ws()
        if not self.s.startswith(tok, self.i):
            raise DbgError('expected %r at %d: %r' % (tok, self.i, self.s[self.i:self.i + 40]))
        self.i += len(tok)

    def try_eat(self, tok):
        self.ws()
        if self.s.startswith(tok, self.i):
            self.i += len(tok)
            return True
        return False

    def ident(self):
        self.ws()
        m = re.compile(r'[A-Za-z_][A-Za-z0-9_]*').match(self.s, self.i)
        if not m:
            raise DbgError('ident at %d: %r' % (self.i, self.s[self.i:self.i + 40]))
        self.i = m.end()
        return m.group(0)

    def number(self):
        self.ws()
        m = re.compile(r'\d+').match(self.s, self.i)
        if not m:
            raise DbgError('number at %d' % self.i)
        self.i = m.end()
        return m.group(0)

    def string(self):
        """returns bytes"""
        self.eat('"')
        out = bytearray()
        s = self.s
        while True:
            c = s[self.i]
            if c == '"':
                self.i += 1
                break
            if c == '\\':
                d = s[self.i + 1]
                if d == 'n':
                    out.append(10)
                elif d == 'r':
                    out.append(13)
                elif d == 't':
                    out.append(9)
                elif d == '0':
                    out.append(0)
                elif d in '"\'\\':
                    out.append(ord(d))
                elif d == 'u':
                    j = s.index('}', self.i)
                    out.extend(chr(int(s[self.i + 3:j], 16)).encode('utf-8'))
                    self.i = j + 1
                    continue
                elif d == 'x':
                    out.append(int(s[self.i + 2:self.i + 4], 16))
                    self.i += 4
                    continue
                else:
                    raise DbgError('escape \\' + d)
                self.i += 2
            else:
                out.extend(c.encode('utf-8'))
                self.i += 1
        return bytes(out)

    def skip_value(self):
        """skip any Debug value (used for opaque types)"""
        self.ws()
        c = self.peek()
        if c == '"':
            self.string()
            return
        if c in '[(':
            close = ']' if c == '[' else ')'
            self.i += 1
            while not self.try_eat(close):
                self.skip_value()
                self.try_eat(',')
            return
        if c.isdigit():
            self.number()
            return
        self.ident()
        if self.peek() == '(':
            self.i += 1
            while not self.try_eat(')'):
                self.skip_value()
                self.try_eat(',')
        elif self.peek() == '{':
            self.i += 1
            while not self.try_eat('}'):
                self.ident()
                self.eat(':')
                self.skip_value()
                self.try_eat(',')


def coq_string(b):
    if all((32 <= x < 127) or x in (9, 10, 13) or x >= 128 for x in b):
        try:
            txt = b.decode('utf-8')
            return '"' + txt.replace('"', '""') + '"'
        except UnicodeDecodeError:
            pass
    return '(bs [%s])' % '; '.join(str(x) for x in b)


def conv(r, t, T):
    k = t[0]
    if k == 'vec':
        r.eat('[')
        items = []
        while not r.try_eat(']'):
            items.append(conv(r, t[1], T))
            r.try_eat(',')
        return '[' + '; '.join(items) + ']'
    if k == 'opt':
        if r.try_eat('None'):
            return 'None'
        r.eat('Some(')
        v = conv(r, t[1], T)
        r.eat(')')
        return '(Some %s)' % v
    if k == 'tuple':
        r.eat('(')
        items = []
        for j, x in enumerate(t[1]):
            items.append(conv(r, x, T))
            if j < len(t[1]) - 1:
                r.eat(',')
        r.try_eat(',')
        r.eat(')')
        return '(' + ', '.join(items) + ')'
    name = t[1]
    if name in ('usize', 'u8', 'u16'):
        return r.number()
    if name == 'bool':
        return r.ident()
    if name == 'String':
        return coq_string(r.string())
    if name in pt2coq.OPAQUE:
        r.skip_value()
        return '%s_opaque' % pt2coq.cn(name)
    kind, body = T[name]
    if name in pt2coq.NODE_TYPES:
        r.nodes += 1
        r.depth += 1
        r.maxdepth = max(r.maxdepth, r.depth)
    try:
        if kind == 'struct':
            r.eat(name)
            fields = body
            vals = []
            if fields and fields[0][0] is None:
                r.eat('(')
                for j, (_, ft) in enumerate(fields):
                    vals.append(conv(r, ft, T))
                    if j < len(fields) - 1:
                        r.eat(',')
                r.eat(')')
            elif fields:
                r.eat('{')
                for j, (fn, ft) in enumerate(fields):
                    r.eat(fn)
                    r.eat(':')
                    vals.append(conv(r, ft, T))
                    if j < len(fields) - 1:
                        r.eat(',')
                r.eat('}')
            return '(%s %s)' % (pt2coq.mk(name), ' '.join(vals)) if vals else pt2coq.mk(name)
        # enum
        v = r.ident()
        for vn, fields in body:
            if vn == v:
                break
        else:
            raise DbgError('variant %s of %s' % (v, name))
        vals = []
        if fields and fields[0][0] is None:
            r.eat('(')
            for j, (_, ft) in enumerate(fields):
                vals.append(conv(r, ft, T))
                if j < len(fields) - 1:
                    r.eat(',')
            r.eat(')')
        elif fields:
            r.eat('{')
            for j, (fn, ft) in enumerate(fields):
                r.eat(fn)
                r.eat(':')
                vals.append(conv(r, ft, T))
                if j < len(fields) - 1:
                    r.eat(',')
            r.eat('}')
        c = pt2coq.ctor(name, v)
        return '(%s %s)' % (c, ' '.join(vals)) if vals else c
    finally:
        if name in pt2coq.NODE_TYPES:
            r.depth -= 1


def convert(dbg, root='SourceUnit'):
    """-> (coq term, node count, max node depth)"""
    T = table()
    old = sys.getrecursionlimit()
    sys.setrecursionlimit(100000)
    try:
        r = R(dbg)
        term = conv(r, ('name', root), T)
        r.ws()
        if r.i != len(r.s):
            raise DbgError('trailing text at %d' % r.i)
        return term, r.nodes, r.maxdepth
    finally:
        sys.setrecursionlimit(old)


if __name__ == '__main__':
    txt = sys.stdin.read().strip()
    if txt.startswith('dump '):
        txt = txt[5:]
    term, n, d = convert(txt)
    print(term)
    print('(* nodes %d depth %d *)' % (n, d), file=sys.stderr)
