#!/bin/bash
# Run checks of /verif against a MUTATED copy of /repo without touching /repo or /verif:
# a scratch git worktree of /repo with the patch applied and a scratch copy of /verif's working
# tree are bind-mounted over /repo and /verif inside a private mount namespace (unshare -m), so
# every hard-wired /repo and /verif path in the tools, the harness Cargo.toml and cargo's
# fingerprints keeps working.  Development aid for the seeded-change experiments (seeded/*/);
# the registered checks never use it.
#   tools/mutrun.sh <patch.diff> <outdir> [--tier quick|thorough] <Cxx> [<Cyy> ...]
# Writes <outdir>/<Cxx>.log, <outdir>/<Cxx>.rc, <outdir>/<Cxx>.evidence.json, <outdir>/replays/.
set -u
PATCH=$(readlink -f "$1"); OUT=$2; shift 2
TIER=quick
if [ "$1" = "--tier" ]; then TIER=$2; shift 2; fi
mkdir -p "$OUT"; OUT=$(readlink -f "$OUT")
N=$$
WT=/tmp/mutwt-$N
VC=/tmp/mutv-$N
cleanup() {
  rm -rf "$VC"
  git -C /repo worktree remove --force "$WT" >/dev/null 2>&1
  rm -rf "$WT"
}
trap cleanup EXIT
git -C /repo worktree add --detach "$WT" HEAD -q || exit 3
if [ -s "$PATCH" ]; then
  git -C "$WT" apply "$PATCH" || { echo "patch does not apply" > "$OUT/apply.err"; exit 4; }
fi
mkdir -p "$VC"
# copy under the locks that the checks hold while they write compiled files (a copy taken in the middle of a Coq or cargo
# build of another run would hold inconsistent .vo files)
mkdir -p /verif/.cache
flock /verif/.cache/coq.lock flock /verif/.cache/cargo.lock rsync -a --exclude .git --exclude '.cache/fs' --exclude '.cache/c17' --exclude '.cache/cases*' /verif/ "$VC"/
rm -rf "$VC/replays"; mkdir -p "$VC/replays"
for C in "$@"; do
  unshare -m bash -c "mount --bind $WT /repo && mount --bind $VC /verif && cd /verif && rm -f evidence/$C.json && timeout 3600 ./check $C --tier $TIER" > "$OUT/$C.log" 2>&1
  echo $? > "$OUT/$C.rc"
  cp "$VC/evidence/$C.json" "$OUT/$C.evidence.json" 2>/dev/null
done
mkdir -p "$OUT/replays"; cp -r "$VC/replays/." "$OUT/replays/" 2>/dev/null
for C in "$@"; do echo "$C rc=$(cat $OUT/$C.rc) $(grep -c '^VIOLATION' $OUT/$C.log) violation line(s)"; grep '^VIOLATION\|^KNOWN-FINDING' "$OUT/$C.log" | head -5; done
