#!/usr/bin/env python3
"""A small lexer for Rust source text, used by names2coq.py and effects2coq.py.

lex(src) -> list of (kind, text, line) with kind in
   'id'    identifier / keyword (raw identifiers r#x are returned as x)
   'str'   string literal; text = the decoded contents (ordinary, byte, raw strings)
   'char'  character / byte literal (text = source spelling)
   'life'  lifetime
   'num'   numeric literal
   'p'     punctuation: '::', '=>', '->' are single tokens, everything else one character
Comments (line, nested block, doc) are dropped.  Nothing is evaluated; macros are not expanded."""
import re

_ID = re.compile(r'[A-Za-z_][A-Za-z0-9_]*')
_NUM = re.compile(r'[0-9][0-9A-Za-z_]*(?:\.[0-9][0-9A-Za-z_]*)?')
_ESC = {'n': '\n', 'r': '\r', 't': '\t', '0': '\0', '\\': '\\', '"': '"', "'": "'"}


def _unescape(s):
    out = []
    i = 0
    while i < len(s):
        c = s[i]
        if c != '\\':
            out.append(c)
            i += 1
            continue
        d = s[i + 1]
        if d in _ESC:
            out.append(_ESC[d])
            i += 2
        elif d == 'x':
            out.append(chr(int(s[i + 2:i + 4], 16)))
            i += 4
        elif d == 'u':
            j = s.index('}', i)
            out.append(chr(int(s[i + 3:j].replace('_', ''), 16)))
            i = j + 1
        elif d == '\n':                      # line continuation: skip the newline and leading blanks
            i += 2
            while i < len(s) and s[i] in ' \t\n\r':
                i += 1
        else:
            raise SyntaxError('unknown escape \\%s' % d)
    return ''.join(out)


def lex(src):
    toks = []
    i = 0
    n = len(src)
    line = 1
    while i < n:
        c = src[i]
        if c == '\n':
            line += 1
            i += 1
        elif c in ' \t\r':
            i += 1
        elif src.startswith('//', i):
            j = src.find('\n', i)
            i = n if j < 0 else j
        elif src.startswith('/*', i):
            depth = 1
            j = i + 2
            while j < n and depth:
                if src.startswith('/*', j):
                    depth += 1
                    j += 2
                elif src.startswith('*/', j):
                    depth -= 1
                    j += 2
                else:
                    j += 1
            line += src.count('\n', i, j)
            i = j
        elif c == '"' or (c == 'b' and src.startswith('b"', i)):
            j = i + (2 if c == 'b' else 1)
            k = j
            while src[k] != '"':
                k += 2 if src[k] == '\\' else 1
            toks.append(('str', _unescape(src[j:k]), line))
            line += src.count('\n', i, k)
            i = k + 1
        elif c in 'rb' and re.match(r'b?r#*"', src[i:i + 40]):
            m = re.match(r'b?r(#*)"', src[i:])
            close = '"' + m.group(1)
            j = i + m.end()
            k = src.index(close, j)
            toks.append(('str', src[j:k], line))
            line += src.count('\n', i, k)
            i = k + len(close)
        elif c == "'" or (c == 'b' and src.startswith("b'", i)):
            j = i + (2 if c == 'b' else 1)
            # char literal:  'x'  '\n'  '\u{..}' ; lifetime: 'ident not followed by '
            m = re.match(r"(\\u\{[0-9a-fA-F_]+\}|\\x[0-9a-fA-F]{2}|\\.|[^\\'])'", src[j:j + 16])
            if m:
                toks.append(('char', src[i:j + m.end()], line))
                i = j + m.end()
            else:
                m = _ID.match(src, j)
                if not m:
                    raise SyntaxError('bad quote at line %d' % line)
                toks.append(('life', src[i:m.end()], line))
                i = m.end()
        elif src.startswith('r#', i) and _ID.match(src, i + 2):
            m = _ID.match(src, i + 2)
            toks.append(('id', m.group(0), line))
            i = m.end()
        elif c.isalpha() or c == '_':
            m = _ID.match(src, i)
            toks.append(('id', m.group(0), line))
            i = m.end()
        elif c.isdigit():
            m = _NUM.match(src, i)
            toks.append(('num', m.group(0), line))
            i = m.end()
        elif src.startswith('::', i) or src.startswith('=>', i) or src.startswith('->', i):
            toks.append(('p', src[i:i + 2], line))
            i += 2
        else:
            toks.append(('p', c, line))
            i += 1
    return toks


OPEN = {'(': ')', '[': ']', '{': '}'}
CLOSE = set(OPEN.values())


def skip_balanced(toks, i):
    """toks[i] is an opening bracket; returns the index just after its matching close"""
    assert toks[i][0] == 'p' and toks[i][1] in OPEN, toks[i]
    depth = 0
    while True:
        k, t, _ = toks[i]
        if k == 'p' and t in OPEN:
            depth += 1
        elif k == 'p' and t in CLOSE:
            depth -= 1
            if depth == 0:
                return i + 1
        i += 1


def find_fn(toks, name):
    """index range (body_start, body_end) of the braces of `fn <name>`; raises if absent or ambiguous"""
    hits = [i for i in range(len(toks) - 1) if toks[i][:2] == ('id', 'fn') and toks[i + 1][:2] == ('id', name)]
    if len(hits) != 1:
        raise ValueError('expected exactly one `fn %s`, found %d' % (name, len(hits)))
    i = hits[0] + 2
    while toks[i][:2] != ('p', '{'):
        if toks[i][:2] == ('p', '('):
            i = skip_balanced(toks, i)
        else:
            i += 1
    return i, skip_balanced(toks, i)


def match_arms(toks, i):
    """toks[i] is the `{` of a match expression.  -> (list of (pattern_tokens, body_tokens), index after `}`)"""
    assert toks[i][:2] == ('p', '{')
    end = skip_balanced(toks, i)
    i += 1
    arms = []
    while i < end - 1:
        pat = []
        while toks[i][:2] != ('p', '=>'):
            if toks[i][0] == 'p' and toks[i][1] in OPEN:
                j = skip_balanced(toks, i)
                pat += toks[i:j]
                i = j
            else:
                pat.append(toks[i])
                i += 1
            if i >= end - 1:
                raise ValueError('match arm without =>')
        i += 1
        body = []
        if toks[i][:2] == ('p', '{'):
            j = skip_balanced(toks, i)
            body = toks[i:j]
            i = j
            if toks[i][:2] == ('p', ','):
                i += 1
        else:
            while i < end - 1 and toks[i][:2] != ('p', ','):
                if toks[i][0] == 'p' and toks[i][1] in OPEN:
                    j = skip_balanced(toks, i)
                    body += toks[i:j]
                    i = j
                else:
                    body.append(toks[i])
                    i += 1
            if i < end - 1:
                i += 1
        arms.append((pat, body))
    return arms, end
