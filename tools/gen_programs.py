#!/usr/bin/env python3
"""Seeded generators of Solidity inputs for the correspondence checks.

Every random choice comes from one random.Random(seed); each program records the
generator that produced it.  Streams:
  corpus()        Solidity literals harvested from /repo's own tests + /verif/corpus
  slots()         slot catalogue: one marker expression/statement in every
                  syntactic position (constructor x child slot)
  carriers()      per-detector canonical / matching / near-miss forms
  product()       carriers x slots
  random_programs()  weighted grammar, multi-contract files
  out_of_domain() inputs outside the properties' hypotheses (no pragma, huge literals...)
"""
import os, re, random, glob

REPO = '/repo'
VERIF = os.path.dirname(os.path.dirname(os.path.abspath(__file__)))


# ----------------------------------------------------------------------------- corpus
def corpus():
    out = []
    for path in sorted(glob.glob(os.path.join(REPO, 'src/analyzer/**/*.rs'), recursive=True)):
        txt = open(path).read()
        for m in re.finditer(r'r#"(.*?)"#', txt, re.S):
            s = m.group(1)
            if 'contract' in s or 'pragma' in s or 'function' in s:
                out.append({'gen': 'corpus:' + os.path.relpath(path, REPO), 'src': s})
    for path in sorted(glob.glob(os.path.join(VERIF, 'corpus', '*.sol'))):
        out.append({'gen': 'corpus:' + os.path.basename(path), 'src': open(path).read()})
    return out


# ----------------------------------------------------------------------------- slots
# Expression contexts: '@' is the hole; each is a full expression.
EXPR_CTX = [
    '@++', '@--', 'new uint[](@)', 'a[@]', '(@)[1]', 'b[@:]', 'b[:@]', 'b[@:2]', 'b[1:@]', '(@)[1:2]', '(@)',
    '(@).x', 'f(@)', 'f(1, @)', '(@)(1)', 'g{value: @}(1)', 'g{value: 1}(@)', 'f({p: @, q: 2})', 'f({p: 1, q: @})',
    '!(@)', '~(@)', 'delete @', '++@', '--@', '+@', '-@', '@ ** 2', '2 ** @', '@ * 3', '3 * @', '@ / 3', '3 / @',
    '@ % 3', '3 % @', '@ + 3', '3 + @', '@ - 3', '3 - @', '@ << 3', '3 << @', '@ >> 3', '3 >> @', '@ & 3', '3 & @',
    '@ ^ 3', '3 ^ @', '@ | 3', '3 | @', '@ < 3', '3 < @', '@ > 3', '3 > @', '@ <= 3', '3 <= @', '@ >= 3', '3 >= @',
    '@ == 3', '3 == @', '@ != 3', '3 != @', '@ && c', 'c && @', '@ || c', 'c || @', '@ ? 1 : 2', 'c ? @ : 2',
    'c ? 1 : @', 'y = @', 'y |= @', 'y &= @', 'y ^= @', 'y <<= @', 'y >>= @', 'y += @', 'y -= @', 'y *= @',
    'y /= @', 'y %= @', 'a[@] = 1', '[@, 2]', '[1, @]', '(@, 2)', '(1, @)', '@ * 1 ether', '(@) * 1 days',
    'uint8(@)', 'payable(@)', 'address(@)', 'abi.encode(@)', 'type(uint).max + @',
]
# Statement contexts with an expression hole
STMT_CTX_E = [
    '@;', 'uint z = @;', 'return @;', 'if (@) { y = 1; }', 'if (c) { @; }', 'if (c) y = 1; else { @; }',
    'while (@) { y = 1; }', 'while (c) { @; }', 'do { @; } while (c);', 'do { y = 1; } while (@);',
    'for (uint i = @; i < 3; i++) { }', 'for (uint i = 0; @; i++) { }', 'for (uint i = 0; i < 3; @) { }',
    'for (uint i = 0; i < 3; i++) { @; }', 'for (;;) { @; break; }', 'for (@; ; ) { break; }',
    'emit Ev(@);', 'revert Er(@);', 'revert Er({p: @});', 'revert(@);', 'unchecked { @; }', '{ @; }', '{ { @; } }',
    'try this.ext(@) returns (uint r) { y = r; } catch { }', 'try this.ext(1) returns (uint r) { @; } catch { }',
    'try this.ext(1) returns (uint r) { y = r; } catch { @; }',
    'try this.ext(1) { } catch Error(string memory s) { @; } catch { }',
    'try this.ext(1) { } catch Error(string memory s) { } catch (bytes memory d) { @; }',
    'try this.ext(1) { } catch Panic(uint code) { @; }',
    'try this.ext{gas: @}(1) { } catch { }',
    'uint[] memory w = new uint[](@);', '(uint p1, uint p2) = (@, 2);', 'assembly { let t := 1 } @;',
    'function(uint) external returns (uint) fp; @;',
]
# Member-level contexts with an expression hole
PART_CTX_E = [
    'uint public sv = @;', 'uint constant CC = @;', 'uint immutable II = @;',
    'function h1(uint q) public om(@) { }', 'function h2(uint q) public om(1) om2(@, 2) { }',
    'constructor(uint q) Base1(@) { }', 'constructor(uint q) Base1(1) om(@) { }',
    'modifier mm(uint q) { y = @; _; }', 'function h3() public virtual returns (uint) { return @; }',
    'fallback() external { @; }', 'receive() external payable { @; }',
    'function h4(uint[@] memory arr) public { }', 'uint[@] fixedArr;', 'mapping(uint => uint[@]) mp2;',
    'struct S2 { uint[@] f1; uint f2; }', 'event Ev2(uint[@] arr);', 'error Er2(uint[@] arr);',
    'function h5() public returns (uint[@] memory) { }', 'function(uint[@] memory) external fpv;',
    'function(uint) external returns (uint[@] memory) fpv2;',
]
# File-level contexts with an expression hole
FILE_CTX_E = [
    'uint constant FC = @;', 'function free1(uint q) pure returns (uint) { return @; }',
    'contract D1 is Base1(@) { }', 'contract D2 is Base1(1), Base2(@) { }', 'struct FS { uint[@] f1; }',
    'type UT is uint256; function free2(uint[@] memory q) pure { }', 'error FE(uint[@] a);', 'event FEv(uint[@] a);',
    'using L for uint[@];', 'library L2 { function lf(uint q) internal pure returns (uint) { return @; } }',
    'interface I2 { function itf(uint[@] calldata q) external; }',
    'abstract contract AC { function af(uint q) public virtual returns (uint) { return @; } }',
]

PRELUDE = 'pragma solidity ^0.8.10;\n'
BASES = ('contract Base1 { constructor(uint q) { } }\ncontract Base2 { constructor(uint q) { } }\n'
         'library L { function add(uint a, uint b) internal pure returns (uint) { return a + b; } }\n')
CONTRACT_HEAD = ('contract C {\n  uint y; uint[] a; bytes b; bool c; event Ev(uint p); error Er(uint p);\n'
                 '  modifier om(uint q) { _; }\n  modifier om2(uint q, uint r) { _; }\n'
                 '  function f(uint p) public returns (uint) { return p; }\n'
                 '  function f(uint p, uint q) public returns (uint) { return p + q; }\n'
                 '  function g(uint p) public payable returns (uint) { return p; }\n'
                 '  function ext(uint p) external returns (uint) { return p; }\n')


def in_function(stmt):
    return PRELUDE + BASES + CONTRACT_HEAD + '  function t(uint x, uint v) public {\n    ' + stmt + '\n  }\n}\n'


def in_contract(part):
    return PRELUDE + BASES + CONTRACT_HEAD + '  ' + part + '\n}\n'


def in_file(item):
    return PRELUDE + BASES + item + '\n'


def place(ctx_kind, ctx, expr):
    """put expression `expr` into context; returns full source"""
    if ctx_kind == 'E':      # expression context inside a statement
        return in_function('y = ' + ctx.replace('@', expr) + ';') if not ctx.startswith(('delete', 'y ', 'a[@] =')) \
            else in_function(ctx.replace('@', expr) + ';')
    if ctx_kind == 'S':
        return in_function(ctx.replace('@', expr))
    if ctx_kind == 'P':
        return in_contract(ctx.replace('@', expr))
    if ctx_kind == 'F':
        return in_file(ctx.replace('@', expr))
    raise ValueError(ctx_kind)


def all_contexts():
    return ([('E', c) for c in EXPR_CTX] + [('S', c) for c in STMT_CTX_E] +
            [('P', c) for c in PART_CTX_E] + [('F', c) for c in FILE_CTX_E])


MARKER = '(x + 7)'      # Parenthesis > Add > Variable, NumberLiteral: distinctive kinds


def slots():
    out = []
    for kind, ctx in all_contexts():
        out.append({'gen': 'slot:%s:%s' % (kind, ctx), 'src': place(kind, ctx, MARKER)})
    # statement-valued slots
    for st in ['y = 1;', 'return;', 'if (c) y = 1;', 'while (c) { break; }', 'do { continue; } while (c);',
               'for (;;) { break; }', 'emit Ev(1);', 'revert Er(1);', 'revert();', 'unchecked { y++; }',
               'try this.ext(1) { } catch { }', 'assembly { let q := add(1, 2) }', 'uint zz;', '{ }',
               'revert Er({p: 1});', 'return 1;', 'delete y;', ';' if False else 'y;']:
        for wrap in ['@', 'if (c) @', 'if (c) { } else @', 'while (c) @', 'for (;;) @', 'do @ while (c);',
                     'unchecked { @ }', '{ @ }', 'try this.ext(1) { @ } catch { }', 'try this.ext(1) { } catch { @ }',
                     'for (@ c; ) { break; }']:
            if wrap.startswith('for (@') and not st.endswith(';'):
                continue
            if wrap == 'do @ while (c);' and st.startswith('uint zz'):
                continue
            out.append({'gen': 'stslot:%s:%s' % (wrap, st), 'src': in_function(wrap.replace('@', st))})
    return out


# ----------------------------------------------------------------------------- carriers
# (detector, class, expression-or-statement text, category E/S/P/F)
def carriers():
    C = []

    def add(det, cls, kind, txt):
        C.append({'det': det, 'cls': cls, 'kind': kind, 'txt': txt})
    # --- C05
    for t in ['address(this).balance', 'address(x).balance', 'address(0x00).balance']:
        add('address_balance', 'canon', 'e', t)
    for t in ['payable(x).balance', 'x.balance', 'address(x).code', 'address(this).balanc']:
        add('address_balance', 'never', 'e', t)
    for t in ['x == address(0)', 'address(0) == x', 'x != address(0)', 'address(0) != x']:
        add('address_zero', 'canon', 'e', t)
    for t in ['x == address(00)', 'x == address(0e5)']:
        add('address_zero', 'between', 'e', t)
    for t in ['x == address(1)', 'x == address(v)', 'x == 0', 'x < address(0)', 'x == payable(0)']:
        add('address_zero', 'never', 'e', t)
    for t in ['c == true', 'true == c', 'c != false', 'false != c', 'true == false']:
        add('bool_equals_bool', 'canon', 'e', t)
    for t in ['c == c', '!c', 'c && true', 'c == (true)']:
        add('bool_equals_bool', 'never' if '(true)' not in t else 'between', 'e', t)
    for op in ['+', '-', '*', '/', '%', '<<', '>>', '&', '|', '^']:
        add('assign_update_array_value', 'canon', 'e', 'a[1] = a[1] %s x' % op)
    add('assign_update_array_value', 'between', 'e', 'a[1] = x + a[1]')
    add('assign_update_array_value', 'between', 'e', 'a[1] = m[0][1] + a[1]')
    for t in ['a[1] += x', 'a[x] = a[x] + 1', 'a[1] = a[2] + x', 'a[1] = q[1] + x', 'a[1] = -a[1]', 'a[1] = a[1] ** 2',
              'a[1] = f(a[1] + x)']:
        add('assign_update_array_value', 'never', 'e', t)
    for t in ['a1[2] = a[12] + x', 'q2[5] = q[25] * 2', 'a[12] = a1[2] + x', 'a1[11] = a11[1] + 1']:
        add('assign_update_array_value', 'never', 'e', t)
    add('cache_array_length', 'canon', 's', 'for (uint i = 0; i < a.length; i++) { }')
    add('cache_array_length', 'canon', 's', 'for (uint i = 0; i + 1 < f(a.length) + b.length; i++) { }')
    add('cache_array_length', 'never', 's', 'for (uint i = a.length; i < 3; i++) { y = a.length; }')
    add('cache_array_length', 'never', 's', 'while (y < a.length) { y++; }')
    add('cache_array_length', 'never', 's', 'for (uint i = 0; i < a.len; i++) { }')
    for t in ['y++', 'y--', '++y', '--y', 'a[1]++', '++a[x + 1]']:
        add('increment_decrement', 'canon', 'e', t)
    add('increment_decrement', 'never', 's', 'unchecked { ++y; }')
    add('increment_decrement', 'never', 's', 'unchecked { if (c) { a[--y] = 1; } }')
    add('increment_decrement', 'canon', 's', 'unchecked { y++; }')
    add('increment_decrement', 'never', 'e', 'y += 1')
    add('multiple_require', 'canon', 's', 'require(c && x > 1);')
    add('multiple_require', 'canon', 's', 'require(c && x > 1, "msg");')
    for t in ['require(c || x > 1);', 'require(f(c && c) > 0);', 'require(!(c && c));', 'assert(c && c);',
              'this.require(c && c);']:
        add('multiple_require', 'never', 's', t)
    add('multiple_require', 'between', 's', 'require((c && c));')
    for t in ['x >= 1', 'x <= 1']:
        add('optimal_comparison', 'canon', 'e', t)
    for t in ['x > 1', 'x < 1', 'x == 1', 'y >>= 1', 'y <<= 1']:
        add('optimal_comparison', 'never', 'e', t)
    for k in [0, 1, 2, 5, 16, 31]:
        add('shift_math', 'canon', 'e', 'x * %d' % (2 ** k))
        add('shift_math', 'canon', 'e', '%d * x' % (2 ** k))
        add('shift_math', 'canon', 'e', 'x / %d' % (2 ** k))
    for t in ['x * 4294967296', 'x / 18446744073709551616', 'x * 1_024', 'x * 0x10', 'x * 2e0',
              'x * 57896044618658097711785492504343953926634992332820282019728792003956564819968']:
        add('shift_math', 'between', 'e', t)
    for t in ['x * 3', 'x * 0', 'x * 1e18', 'x * 2 ether', 'x * 0x18', 'x % 2', 'x ** 2', 'y *= 2', 'x * v', 'x * 6',
              'x * 4294967295', 'x * 4294967297', 'x * 10000000000', 'x * 2e1', 'x / 1000000000000000000000']:
        add('shift_math', 'never', 'e', t)
    add('solidity_keccak256', 'canon', 'e', 'keccak256(abi.encode(x))')
    add('solidity_keccak256', 'canon', 'e', 'keccak256(b)')
    for t in ['this.keccak256(b)', 'sha256(b)', 'keccak(b)']:
        add('solidity_keccak256', 'never', 'e', t)
    for t in ['x + 1', 'x - 1', 'x * 3', 'x / 3']:
        add('solidity_math', 'canon', 'e', t)
    for t in ['x % 3', 'x ** 3', '-x', 'y += 1', 'x << 1']:
        add('solidity_math', 'never', 'e', t)
    # --- C07
    for t in ['tok.transfer(x, 1)', 'tok.transferFrom(x, x, 1)', 'tok.approve(x, 1)', 'tok.transfer', 'a[1].approve']:
        add('unsafe_erc20_operation', 'canon', 'e', t)
    for t in ['tok.safeTransfer(x, 1)', 'tok.Transfer(x)', 'transfer(x, 1)', 'tok.transferfrom(x)']:
        add('unsafe_erc20_operation', 'never', 'e', t)
    for t in ['x / 2 * 3', '(x / 2) * 3', 'x / 2 * 3 * 4', '((x / 2) * 3) * 4', 'x / 2 / 3 * 4']:
        add('divide_before_multiply', 'canon', 'e', t)
    for t in ['y /= x * 2', 'y /= x * 2 + 1', 'y /= (x * 2 - 1) % 3', 'y /= x * 2 / 3', 'y /= (x * 3 << 1) | 2']:
        add('divide_before_multiply', 'canon', 'e', t)
    for t in ['x * 2 / 3', 'x * (y / 2)', '3 * (x / 2 + 1)', 'y /= 2 + x * 3', 'y /= f(x * 2)', 'y *= x / 2',
              'x / 2 + 3 * 4', 'y /= x ** 2 * 3 ** 2 + 1' if False else 'y /= 1 + (x * 2)']:
        add('divide_before_multiply', 'never', 'e', t)
    return C


def product(rng, n_per_carrier=3, full=False):
    out = []
    ctxs_e = [('E', c) for c in EXPR_CTX] + [('S', c) for c in STMT_CTX_E] + \
             [('P', c) for c in PART_CTX_E] + [('F', c) for c in FILE_CTX_E]
    for car in carriers():
        if car['kind'] == 'e':
            # expression carriers: direct, plus sampled contexts
            txt = car['txt']
            picks = ctxs_e if full else rng.sample(ctxs_e, n_per_carrier)
            out.append({'gen': 'carrier:%s:%s:%s' % (car['det'], car['cls'], txt), 'src': in_function('y; ' + txt + ';' if False else txt + ';'),
                        'det': car['det'], 'cls': car['cls'], 'carrier': txt, 'ctx': '@;'})
            for kind, ctx in picks:
                wrapped = '(' + txt + ')'
                out.append({'gen': 'product:%s:%s:%s@%s' % (car['det'], car['cls'], txt, ctx),
                            'src': place(kind, ctx, wrapped), 'det': car['det'], 'cls': car['cls'],
                            'carrier': txt, 'ctx': ctx})
        else:
            txt = car['txt']
            out.append({'gen': 'carrier:%s:%s:%s' % (car['det'], car['cls'], txt), 'src': in_function(txt),
                        'det': car['det'], 'cls': car['cls'], 'carrier': txt, 'ctx': '@'})
            wraps = ['if (c) { @ }', 'while (c) { @ }', 'unchecked { @ }' if car['det'] != 'increment_decrement' else '{ @ }',
                     'try this.ext(1) { } catch { @ }', 'for (;;) { @ }', 'do { @ } while (c);', '{ { @ } }']
            picks = wraps if full else rng.sample(wraps, min(n_per_carrier, len(wraps)))
            for wdef in picks:
                out.append({'gen': 'product:%s:%s:%s@%s' % (car['det'], car['cls'], txt, wdef),
                            'src': in_function(wdef.replace('@', txt)), 'det': car['det'], 'cls': car['cls'],
                            'carrier': txt, 'ctx': wdef})
    return out


# ----------------------------------------------------------------------------- random grammar
class G:
    def __init__(self, rng, maxdepth=5):
        self.r = rng
        self.maxdepth = maxdepth
        self.names = ['x', 'v', 'y', 'owner', 'total', 'count', '_priv', 'limit']
        if rng.random() < 0.15:
            self.names += ['z\u00e4hler', '\u00f1', '_\u00e9t\u00e9']     # identifiers that start with / contain multi-byte characters
        self.arrs = ['a', 'arr']
        self.uid = 0

    def fresh(self, p='n'):
        self.uid += 1
        return '%s%d' % (p, self.uid)

    def num(self):
        r = self.r
        return r.choice(['0', '1', '2', '3', '4', '7', '8', '16', '32', '64', '100', '256', '1024', '65536',
                         '2147483648', '4294967295', '1e18', '2e0', '1_000', '0x10', '0xff', '10 ether', '1 days',
                         '2 wei', '3 gwei', '1 hours', '5 minutes', '6 seconds', '7 weeks', '12.5e1'])

    def var(self):
        return self.r.choice(self.names)

    def expr(self, d=0):
        r = self.r
        if d >= self.maxdepth or r.random() < 0.25:
            return r.choice([self.var(), self.var(), self.num(), 'true', 'false', 'msg.sender', 'msg.value',
                             'this', 'a.length', 'address(0)', 'address(this)', '"str"', 'hex"00ff"',
                             'block.timestamp', 'type(uint256).max', '0x52908400098527886E0F7030069857D2E4169EE7',
                             'unicode"é"', '"a" "b"'])
        e = lambda: self.expr(d + 1)
        k = r.randrange(34)
        binops = ['+', '-', '*', '/', '%', '**', '<<', '>>', '&', '|', '^', '<', '>', '<=', '>=', '==', '!=', '&&', '||']
        if k < 12:
            return '%s %s %s' % (self.paren(e()), r.choice(binops), self.paren(e()))
        if k == 12:
            # redundant parentheses, sometimes several levels
            return self._parens(e())
        if k == 13:
            return '%s(%s)' % (r.choice(['f', 'g', 'keccak256', 'require', 'address', 'uint8', 'payable', 'selfdestruct',
                                        'tok.transfer', 'owner.add', 'total.sub', 'x.mul', 'abi.encode', 'bytes',
                                        'uint160', 'uint256', 'bytes32', 'bytes20', 'int128', 'bool', 'string', 'check', 'emit_']),
                               ', '.join(e() for _ in range(r.randrange(0, 3))))
        if k == 14:
            return '%s[%s]' % (r.choice(self.arrs), e())
        if k == 15:
            return '%s ? %s : %s' % (self.paren(e()), self.paren(e()), self.paren(e()))
        if k == 16:
            return '%s%s' % (r.choice(['!', '~', '-', '++', '--', 'delete ']), self.paren(self.lval(d + 1)))
        if k == 17:
            return '%s%s' % (self.paren(self.lval(d + 1)), r.choice(['++', '--']))
        if k == 18:
            return '%s %s %s' % (self.lval(d + 1), r.choice(['=', '+=', '-=', '*=', '/=', '%=', '|=', '&=', '^=', '<<=', '>>=']), e())
        if k == 19:
            return '%s.%s' % (self.paren(e()), r.choice(['balance', 'length', 'transfer', 'approve', 'x', 'sender', 'add']))
        if k == 20:
            return '[%s]' % ', '.join(e() for _ in range(r.randrange(1, 4)))
        if k == 21:
            return 'new uint[](%s)' % e()
        if k == 22:
            return 'f({p: %s, q: %s})' % (e(), e())
        if k == 23:
            return 'g{value: %s}(%s)' % (e(), e())
        if k == 24:
            return '%s[%s:%s]' % (r.choice(['b', 'msg.data']), r.choice(['', e()]), r.choice(['', e()]))
        if k == 25:
            return '(%s, %s)' % (e(), e())
        if k == 26:
            return '%s * %s' % (self.paren(e()), r.choice(['2', '4', '8', '1024', '3', '1e18']))
        if k == 27:
            return '%s %s address(0)' % (self.var(), r.choice(['==', '!=']))
        if k == 28:
            return '%s %s %s' % (self.paren(e()), r.choice(['==', '!=']), r.choice(['true', 'false']))
        if k == 29:
            return 'a[%s] = a[%s] %s %s' % (r.choice(['0', '1', '2']), r.choice(['0', '1', '2']), r.choice(['+', '-', '*']), e())
        if k == 30:
            return '%s / %s * %s' % (self.paren(e()), self.paren(e()), self.paren(e()))
        if k == 31:
            return 'address(%s).balance' % e()
        if k == 32:
            return 'msg.sender %s owner' % r.choice(['==', '!='])
        return 'x'

    def _parens(self, s):
        n = 1 if self.r.random() < 0.6 else self.r.choice([2, 2, 3])
        return '(' * n + s + ')' * n

    def paren(self, s):
        if re.match(r'^[A-Za-z_0-9.]+$', s) or (s.startswith('(') and s.endswith(')') and s.count('(') == 1):
            return s
        return '(' + s + ')'

    def lval(self, d):
        r = self.r
        k = r.randrange(5)
        if k < 3:
            return self.var()
        if k == 3:
            return '%s[%s]' % (r.choice(self.arrs), self.expr(d + 1))
        return 'st.fld'

    def stmt(self, d=0):
        r = self.r
        e = lambda: self.expr(max(d, 2))
        if d >= 4:
            return e() + ';'
        s = lambda: self.stmt(d + 1)
        blk = lambda: '{ ' + ' '.join(self.stmt(d + 1) for _ in range(r.randrange(0, 3))) + ' }'
        k = r.randrange(24)
        if k < 6:
            return e() + ';'
        if k == 6:
            return 'uint %s = %s;' % (self.fresh('loc'), e())
        if k == 7:
            return 'if (%s) %s' % (e(), blk()) + (' else ' + blk() if r.random() < 0.4 else '')
        if k == 8:
            return 'while (%s) %s' % (e(), blk())
        if k == 9:
            i = self.fresh('i')
            return 'for (uint %s = 0; %s < %s; %s%s) %s' % (i, i, r.choice(['a.length', 'arr.length', e()]), r.choice(['', '++']) and '', i + '++' if r.random() < .5 else '++' + i) if False else \
                'for (uint %s = 0; %s < %s; %s) %s' % (i, i, r.choice(['a.length', 'arr.length', e()]),
                                                    r.choice([i + '++', '++' + i, i + ' += 1']), blk())
        if k == 10:
            return 'do %s while (%s);' % (blk(), e())
        if k == 11:
            return r.choice(['return;', 'return %s;' % e()])
        if k == 12:
            return 'emit Ev(%s);' % e()
        if k == 13:
            return r.choice(['revert Er(%s);' % e(), 'revert Er({p: %s});' % e(), 'revert("no");', 'revert();'])
        if k == 14:
            return 'unchecked ' + blk()
        if k == 15:
            return blk()
        if k == 16:
            return 'require(%s%s);' % (e(), r.choice(['', ', "err"', ', "a long error message that is over 32 bytes"', ' && c']))
        if k == 17:
            return ('try this.ext(%s) returns (uint %s) %s catch Error(string memory %s) %s catch %s'
                    % (e(), self.fresh('r'), blk(), self.fresh('s'), blk(), blk()))
        if k == 18:
            return 'assembly { let t := add(1, mul(2, 3)) if eq(t, 7) { revert(0, 0) } }'
        if k == 19:
            return 'selfdestruct(%s);' % r.choice(['payable(msg.sender)', 'payable(owner)', 'owner'])
        if k == 20:
            return 'require(msg.sender == owner);'
        if k == 21:
            return '(uint %s, ) = (%s, 1);' % (self.fresh('t'), e())
        if k == 22:
            return r.choice(['break;', 'continue;']) if d > 0 else e() + ';'
        return 'y = %s;' % e()

    def elem_type(self):
        return self.r.choice(['uint', 'uint256', 'uint8', 'uint16', 'uint32', 'uint64', 'uint128', 'int', 'int8',
                              'bool', 'address', 'address payable', 'bytes32', 'bytes1', 'bytes4', 'bytes16',
                              'string', 'bytes'])

    def any_type(self):
        r = self.r
        k = r.randrange(8)
        if k < 5:
            return self.elem_type()
        if k == 5:
            return 'mapping(%s => %s)' % (r.choice(['uint', 'address', 'bytes32']), self.elem_type())
        if k == 6:
            return self.elem_type().replace(' payable', '') + '[]'
        return r.choice(['IERC20', 'S1', 'function(uint) external returns (uint)'])

    def state_var(self, used):
        r = self.r
        base = r.choice(['x', 'v', 'y', 'owner', 'total', 'count', '_priv', 'limit', 'a', 'arr', 'tok', 'st', '_hidden',
                         'balance', '_x', 'data'])
        name = base
        while name in used:
            name = base + str(r.randrange(100))
        used.add(name)
        ty = self.any_type() if name not in ('a', 'arr') else 'uint[]'
        attrs = []
        if r.random() < 0.6:
            attrs.append(r.choice(['public', 'private', 'internal']))
        mut = r.random()
        simple = re.match(r'^(u?int\d*|bool|address|bytes\d+)$', ty)
        init = ''
        if mut < 0.15 and simple:
            attrs.append('constant')
            init = ' = ' + ('true' if ty == 'bool' else 'address(0)' if ty == 'address' else 'bytes32(0)' if ty.startswith('bytes') else r.choice(['1', '2 ** 8', '10']))
            if ty.startswith('bytes') and ty != 'bytes32':
                init = ''
                attrs.remove('constant')
        elif mut < 0.25 and simple:
            attrs.append('immutable')
        elif r.random() < 0.2 and simple and not ty.startswith('bytes'):
            init = ' = ' + ('true' if ty == 'bool' else 'address(0)' if ty == 'address' else self.expr(3))
        r.shuffle(attrs)
        return '%s %s %s%s;' % (ty, ' '.join(attrs), name, init)

    def function(self, kind=None):
        r = self.r
        kind = kind or r.choice(['function'] * 6 + ['constructor', 'modifier', 'fallback', 'receive'])
        body = '{ ' + ' '.join(self.stmt(1) for _ in range(r.randrange(0, 5))) + ' }'
        if kind == 'constructor':
            return 'constructor(uint q%s) %s%s %s' % (r.choice(['', ', string memory nm']), r.choice(['', 'public ', 'payable ']),
                                                     r.choice(['', 'Base1(q + 1)']), body)
        if kind == 'modifier':
            return 'modifier %s(uint q) { %s _; }' % (r.choice(['onlyOwner', 'mm', 'checked', 'only_x']) + str(r.randrange(50)), self.stmt(2))
        if kind == 'fallback':
            return 'fallback() external %s%s' % (r.choice(['', 'payable ']), body)
        if kind == 'receive':
            return 'receive() external payable ' + body
        name = r.choice(['foo', 'bar', '_baz', 'kill', 'withdraw', '_internalThing', 'set', 'destroy']) + str(r.randrange(100))
        params = []
        for _ in range(r.randrange(0, 3)):
            pn = self.fresh('p')
            pt_ = r.choice(['uint', 'uint[] memory', 'uint[] calldata', 'string memory', 'bytes memory', 'address', 'S1 memory'])
            if r.random() < 0.1:
                params.append(pt_)       # unnamed
            else:
                params.append(pt_ + ' ' + pn)
                if 'memory' in pt_ and r.random() < 0.5:
                    body = body[:-1] + r.choice(['%s = %s; ' % (pn, pn), '%s[0] = 1; ' % pn if '[]' in pt_ else 'y = 1; ']) + '}'
        attrs = []
        if r.random() < 0.9:
            attrs.append(r.choice(['public', 'external', 'internal', 'private']))
        if r.random() < 0.3:
            attrs.append(r.choice(['payable', 'view', 'pure']))
        if r.random() < 0.3:
            attrs.append(r.choice(['onlyOwner', 'mm(1)', 'om(x + 1)', 'virtual', 'only_admin', 'nonReentrant']))
        r.shuffle(attrs)
        rets = r.choice(['', '', ' returns (uint)', ' returns (uint r1, bool)'])
        if r.random() < 0.1:
            return 'function %s(%s) %s%s;' % (name, ', '.join(params).replace(' memory', ' calldata'), 'external', rets)
        return 'function %s(%s) %s%s %s' % (name, ', '.join(params), ' '.join(attrs), rets, body)

    def contract(self, name=None, kind=None):
        r = self.r
        kind = kind or r.choice(['contract'] * 5 + ['abstract contract', 'library', 'interface'])
        name = name or self.fresh('K')
        parts = []
        if kind == 'interface':
            for _ in range(r.randrange(0, 4)):
                parts.append('function %s(uint q) external%s;' % (self.fresh('itf'), r.choice(['', ' returns (uint)', ' payable'])))
            if r.random() < .3:
                parts.append('event IE(uint indexed q);')
            return '%s %s {\n  %s\n}' % (kind, name, '\n  '.join(parts))
        used = self.used_vars
        nvars = r.randrange(0, 7) if kind != 'library' else 0
        for _ in range(nvars):
            parts.append(self.state_var(used))
        if r.random() < 0.4:
            parts.append('struct %s { %s }' % (self.fresh('St'), ' '.join('%s %s;' % (self.elem_type().replace(' payable', ''), self.fresh('fl')) for _ in range(r.randrange(1, 6)))))
        if r.random() < 0.3:
            parts.append('using SafeMath for uint256;' if r.random() < .7 else 'using L for uint;')
        if r.random() < 0.3:
            parts.append('event Ev(uint p); error Er(uint p);')
        if r.random() < 0.15:
            parts.append('enum En { A, B }')
        if r.random() < 0.1:
            parts.append('type UV is uint128;')
        nf = r.randrange(0, 6)
        fkinds = []
        for _ in range(nf):
            fkinds.append(None)
        if kind != 'library' and r.random() < 0.6:
            fkinds.insert(r.randrange(0, len(fkinds) + 1), 'constructor')
        seen_special = set()
        for fk in fkinds:
            f = self.function(fk) if kind != 'library' else self.function('function')
            head = f.split('(')[0]
            if head in ('constructor', 'fallback', 'receive'):
                if head in seen_special:
                    continue
                seen_special.add(head)
            parts.append(f)
        if r.random() < 0.5:
            r.shuffle(parts)
        base = ''
        if kind in ('contract', 'abstract contract') and r.random() < 0.25:
            base = ' is ' + r.choice(['Base1', 'Base1(1)', 'Base1(x + 1), Base2(2)'])
        return '%s %s%s {\n  %s\n}' % (kind, name, base, '\n  '.join(parts))

    def file(self):
        r = self.r
        self.used_vars = set()
        items = []
        pr = r.random()
        ver = r.choice(['0.8.10', '0.8.4', '0.8.3', '0.8.0', '0.7.6', '0.6.12', '0.8.19', '0.5.17'])
        op = r.choice(['^', '', '>=', '~', '=', '>', '^', '^'])
        pragma = 'pragma solidity %s%s;' % (op, ver)
        items.append(pragma)
        if r.random() < 0.2:
            items.insert(r.randrange(0, 2), r.choice(['pragma abicoder v2;', 'pragma experimental ABIEncoderV2;']))
        if r.random() < 0.3:
            items.append('import "./x.sol";')
        if r.random() < 0.3:
            items.append('library SafeMath { function add(uint a, uint b) internal pure returns (uint) { return a + b; } }')
        if r.random() < 0.2:
            items.append('using SafeMath for uint256;' if False else 'struct FS1 { uint128 p1; uint256 p2; uint128 p3; }')
        if r.random() < 0.15:
            items.append('function freeFn(uint q) pure returns (uint) { %s return q; }' % self.stmt(2))
        if r.random() < 0.1:
            items.append('uint constant FILE_CONST = 1 << 4;')
        if r.random() < 0.1:
            items.append('error FileErr(uint p); event FileEv(uint p);' if False else 'error FileErr(uint p);')
        if r.random() < 0.1:
            items.append('type Price is uint128;')
        for _ in range(r.randrange(1, 4)):
            items.append(self.contract())
        head = items[:1]
        rest = items[1:]
        if r.random() < 0.3:
            r.shuffle(rest)
        return '\n'.join(head + rest) + '\n'


def random_programs(rng, n, maxdepth=5):
    out = []
    for i in range(n):
        g = G(rng, maxdepth=rng.choice([2, 3, 4, maxdepth]))
        out.append({'gen': 'random:%d' % i, 'src': g.file()})
    return out


# ----------------------------------------------------------------------------- out of domain
def out_of_domain(rng):
    P = []

    def add(tag, src):
        P.append({'gen': 'ood:' + tag, 'src': src})
    add('nopragma', 'contract A { function f() public { require(false, "x"); uint z = 1; z = z.add(2); } }')
    add('nopragma-safemath', 'contract A { using SafeMath for uint; function f(uint z) public { z = z.add(2); } }')
    add('bigpatch', 'pragma solidity 0.8.99999999999;\ncontract A { function f() public { require(false, "x"); } }')
    add('dotdot', 'pragma solidity 0.8..4;\ncontract A { function f() public { require(false, "x"); } }')
    add('abicoder-first', 'pragma abicoder v2;\npragma solidity 0.8.10;\ncontract A { function f() public { require(false, "x"); } }')
    add('experimental-first', 'pragma experimental ABIEncoderV2;\npragma solidity ^0.7.0;\ncontract A { function f() public { require(false, "this string is definitely longer than 32 bytes"); } }')
    add('two-solidity', 'pragma solidity ^0.7.0;\npragma solidity ^0.8.4;\ncontract A { function f() public { require(false, "x"); } }')
    add('biglit', PRELUDE + 'contract A { function f(uint a) public returns (uint) { return a * 10000000000 + a / 4294967296; } }')
    add('hugelit', PRELUDE + 'contract A { function f(uint a) public returns (uint) { return a * 115792089237316195423570985008687907853269984665640564039457584007913129639935; } }')
    add('address-noargs', PRELUDE + 'contract A { function f(address a) public returns (bool) { return a == address(); } }')
    add('free-fn', PRELUDE + 'function ff(uint a) pure returns (uint) { return a + 1; }\ncontract A { constructor() { } }')
    add('free-fn-after', PRELUDE + 'contract A { function g() public { } constructor() { } }\nfunction _ff(uint a) pure returns (uint) { return a; }')
    add('many-fns', PRELUDE + 'contract A {\n' + '\n'.join('function f%d() public {}' % i for i in range(300)) + '\nconstructor() {}\n}')
    add('255-fns', PRELUDE + 'contract A {\n' + '\n'.join('function f%d() public {}' % i for i in range(255)) + '\nconstructor() {}\n}')
    add('256-fns', PRELUDE + 'contract A {\n' + '\n'.join('function f%d() public {}' % i for i in range(256)) + '\nconstructor() {}\n}')
    add('dup-names', PRELUDE + 'contract A { uint x; function f() public { x = 1; } }\ncontract B { uint x; }')
    add('shadow', PRELUDE + 'contract A { uint x; function f(uint x) public { x = 1; } }')
    add('empty', '')
    add('only-pragma', 'pragma solidity 0.8.4;')
    add('stray', PRELUDE + ';\ncontract A { ; }')
    add('exp-lit', PRELUDE + 'contract A { function f(uint a) public returns (uint) { return a * 1e18 + a * 2e0 + a * 1e0 + a / 4e1; } }')
    add('unit-lit', PRELUDE + 'contract A { function f(uint a) public returns (uint) { return a * 2 ether + a * 1 wei; } }')
    add('hex-lit', PRELUDE + 'contract A { function f(uint a) public returns (uint) { return a * 0x10 + a * 0x0; } }')
    add('underscore-lit', PRELUDE + 'contract A { function f(uint a) public returns (uint) { return a * 1_024 + a * 4_294_967_296; } }')
    add('require-noargs', 'pragma solidity 0.8.10;\ncontract A { function f() public { require(); } }')
    add('require-multistr', 'pragma solidity 0.8.10;\ncontract A { function f() public { require(true, "ab" "cd"); } }')
    add('ver-0.9.0', 'pragma solidity 0.9.0;\ncontract A { using SafeMath for uint; function f(uint z) public { require(z > 0, "x"); z = z.add(2); } }')
    add('ver-1.0.0', 'pragma solidity 1.0.0;\ncontract A { using SafeMath for uint; function f(uint z) public { require(z > 0, "x"); z = z.add(2); } }')
    add('ver-0.8.3', 'pragma solidity 0.8.3;\ncontract A { using SafeMath for uint; function f(uint z) public { require(z > 0, "this string is definitely longer than 32 bytes"); z = z.add(2); } }')
    add('ver-0.10.0', 'pragma solidity 0.10.0;\ncontract A { function f(uint z) public { require(z > 0, "x"); } }')
    add('ver-range', 'pragma solidity >=0.7.0 <0.9.0;\ncontract A { function f(uint z) public { require(z > 0, "x"); } }')
    add('deep', PRELUDE + 'contract A { function f(uint a) public returns (uint) { return ' + '(' * 60 + 'a + 1' + ')' * 60 + '; } }')
    add('deep-blocks', PRELUDE + 'contract A { function f(uint a) public { ' + 'if (a > 1) { ' * 50 + 'a++;' + ' }' * 50 + ' } }')
    add('selfdestruct-conv', PRELUDE + 'contract A { function k() public { selfdestruct(payable(msg.sender)); } }')
    add('selfdestruct-req-right', PRELUDE + 'contract A { address o; function k() public { require(o == msg.sender); selfdestruct(payable(o)); } }')
    add('mapping-private', PRELUDE + 'contract A { mapping(address => uint) private balances; uint[] private arr; IERC20 private tok; uint private n; IERC20 public constant T = IERC20(address(0)); }')
    add('immutable-cross', PRELUDE + 'contract A { uint x; uint z = (x = 3); }\ncontract B { uint w; constructor() { w = 1; } }')
    add('ctor-cross', PRELUDE + 'contract A { function f() public {} }\ncontract B { constructor() {} }')
    add('ctor-two', PRELUDE + 'contract A { function f() public {} constructor() {} }\ncontract B { function g() public {} constructor() {} }')
    add('catch-write', PRELUDE + 'contract A { uint x; function f() public { try this.f() { } catch { x = 1; } } }')
    add('pow-write', PRELUDE + 'contract A { uint x; function f() public returns (uint) { return 2 ** (x = 1); } }')
    add('mod-arg-write', PRELUDE + 'contract A { uint x; modifier m(uint q) { _; } function f() public m(x = 1) { } }')
    add('preinc-idx-write', PRELUDE + 'contract A { uint x; uint[] a; function f() public { ++a[x = 1]; } }')
    add('comment-pragma', 'pragma solidity /* ^ */ 0.8.0;\ncontract A { }')
    add('crlf', 'pragma solidity 0.8.10;\r\ncontract A {\r\n  function f(uint a) public returns (uint) {\r\n    return a + 1;\r\n  }\r\n}')
    add('nofinalnl', 'pragma solidity 0.8.10;\ncontract A {\n  function f(uint a) public returns (uint) {\n    return a + 1; } }')
    add('lastline', 'pragma solidity 0.8.10; contract A { function f(uint a) public returns (uint) { return a + 1; } }')
    add('multibyte', 'pragma solidity 0.8.10;\n// é comment ü\ncontract A { string s = unicode"héllo";\n  function f(uint a) public returns (uint) { return a + 1; } }\n')
    return P


# ----------------------------------------------------------------------------- special shapes
def special_programs():
    """hand-written programs for shapes that the other streams reach rarely: non-ASCII identifiers, multi-part string
    literals around the 32-byte boundary, attribute orders, fallback/receive bodies, call options / parenthesised callees,
    state variables written from another contract, abstract contracts, several contracts with the same member names"""
    P = []

    def add(tag, src):
        P.append({'gen': 'special:' + tag, 'src': src})
    add('unicode-ident', PRELUDE + 'contract A { uint zähler; function ändern() internal { zähler = zähler + 1; } function _öffentlich() public { } }')
    add('unicode-ident-expr', PRELUDE + 'contract A { function f(address à, uint montant) public { ñandú.transfer(à, montant); '
        'if (größe >= montant) { größe++; } ü = ü * 2; } }')
    add('unicode-first-byte', 'pragma solidity 0.8.10;\ncontract Ä {\n  uint public _é;\n  function ö() public {\n    é.approve(address(0), 1);\n  }\n}\n')
    add('multipart-short', 'pragma solidity 0.8.3;\ncontract A { function f(uint z) public { require(z > 0, "insufficient " "balance"); '
        'require(z > 1, "0123456789012345" "0123456789012345678"); require(z > 2, "0123456789012345678901234567890123" "x"); } }')
    add('multipart-long', 'pragma solidity 0.8.10;\ncontract A { function f(uint z) public { require(z > 0, "insufficient " "balance"); '
        'require(z > 1, "0123456789012345" "0123456789012345678"); require(z > 2, "0123456789012345678901234567890123" "x"); } }')
    add('attr-orders', PRELUDE + 'contract A {\n  function a() payable external {}\n  function b() external payable {}\n'
        '  function c() payable public virtual {}\n  function d() virtual external {}\n  function e() view external returns (uint) { return 1; }\n'
        '  receive() payable external {}\n  fallback() external payable {}\n  function g() payable internal {}\n  function h() external pure virtual {}\n}')
    add('var-attr-orders', PRELUDE + 'contract A {\n  uint constant public K1 = 1;\n  uint public constant K2 = 2;\n  uint private constant _K3 = 3;\n'
        '  uint constant private K4 = 4;\n  uint immutable public _i1;\n  uint public immutable i2;\n  uint internal immutable i3;\n  constructor() { _i1 = 1; i2 = 2; i3 = 3; }\n}')
    add('selfdestruct-special-fns', PRELUDE + 'contract A {\n  fallback() external { selfdestruct(payable(address(0))); }\n'
        '  receive() external payable { selfdestruct(payable(msg.sender)); }\n  function k() external { suicide(payable(address(0))); }\n'
        '  constructor() { selfdestruct(payable(address(0))); }\n  modifier only() { selfdestruct(payable(address(0))); _; }\n}')
    add('erc20-callee-forms', PRELUDE + 'contract A { function f(IERC20 token, address to) public {\n  token.transfer{gas: 50000}(to, 1);\n'
        '  (token.approve)(to, 1);\n  bytes4 s = token.transferFrom.selector;\n  abi.encodeWithSelector(token.transfer.selector, to, 1);\n'
        '  token.transfer;\n  token.safeTransfer(to, 1);\n  transfer(to, 1);\n} }')
    add('cross-contract-write', PRELUDE + 'contract Vault {\n  uint vaultRate;\n  uint keptRate;\n  address owner;\n  uint neverSet;\n'
        '  constructor() { vaultRate = 1; keptRate = 2; owner = msg.sender; }\n}\ncontract Boosted is Vault {\n  function boost() public { vaultRate = 3; }\n'
        '  function bump() public { neverSet += 1; }\n}')
    add('cross-contract-ctor-write', PRELUDE + 'contract Base {\n  uint a1;\n  uint b1;\n  constructor() { a1 = 1; }\n}\n'
        'contract Derived is Base {\n  constructor() { b1 = 2; }\n  function w() external { a1++; }\n}')
    add('abstract-vars', PRELUDE + 'abstract contract Abs {\n  uint never;\n  uint setOnce;\n  uint counter;\n  constructor() { setOnce = 1; }\n'
        '  function inc() public { counter = counter + 1; }\n}\ncontract Impl is Abs {\n  uint other;\n  function z() public { counter = 0; other = 1; }\n}')
    add('library-interface-vars', PRELUDE + 'library L { uint constant LK = 1; function f() internal pure returns (uint) { return LK; } }\n'
        'interface I { function g() external; }\ncontract C { uint cv; function h() public { cv = L.f(); } }')
    add('same-member-names', PRELUDE + 'contract G1 { address o1; modifier onlyOwner() { require(msg.sender == o1); _; } '
        'function kill() external onlyOwner { selfdestruct(payable(o1)); } function set(uint[] memory m) public { m[0] = 1; } }\n'
        'contract G2 { function kill() external { selfdestruct(payable(address(0))); } function set(uint[] memory m) public returns (uint) { return m.length; } }\n'
        'contract G3 { address o3; function kill() external { require(msg.sender == o3, "no"); selfdestruct(payable(o3)); } }')
    add('small-then-packable', PRELUDE + 'contract Pausable { bool paused; }\ncontract Pool { uint128 a; uint256 b; uint128 c; }\n'
        'contract Guarded { uint256 g1; bool g2; }\ncontract Registry { uint256 r1; address r2; bool r3; }')
    add('address-payable-sizes', PRELUDE + 'contract A { address payable a; uint256 b; uint96 c; }\nstruct S { address payable a; uint256 b; uint96 c; }\n'
        'contract B { address a; uint256 b; uint96 c; }')
    add('late-pragma', 'contract A { function f(uint z) public { require(z > 0, "msg"); } }\npragma solidity 0.8.13;\n'
        'contract B { function g(uint z) public { require(z > 0, "msg"); } }')
    add('late-pragma-old', 'library A { function f(uint z) internal { require(z > 0, "this message is definitely longer than thirty-two bytes"); } }\n'
        'pragma solidity 0.7.6;\ncontract B { function g(uint z) public { require(z > 0, "short"); } }')
    add('gt-pragma', 'pragma solidity >0.8.3;\ncontract A { using SafeMath for uint; function f(uint z) public { require(z > 0, "x"); z = z.add(2); } }')
    add('gt-pragma-long', 'pragma solidity >0.8.3;\ncontract A { function f(uint z) public { require(z > 0, "this message is definitely longer than thirty-two bytes"); } }')
    add('range-pragma-long', 'pragma solidity >=0.7.0 <0.8.4;\ncontract A { function f(uint z) public { require(z > 0, "this message is definitely longer than thirty-two bytes"); } }')
    add('gt-pragma-space', 'pragma solidity > 0.7.6;\ncontract A { using SafeMath for uint; function f(uint z) public { require(z > 0, "x"); z = z.add(2); } }')
    add('major-1', 'pragma solidity 1.7.3;\ncontract A { using SafeMath for uint; function f(uint z) public { require(z > 0, "x"); z = z.add(2); } }')
    add('multiline-require', PRELUDE + 'contract A { function f(uint a, uint b, uint c) public {\n  require(\n    a == b && b == c,\n    "msg"\n  );\n'
        '  require(a > 0 &&\n    b > 0);\n} }')
    add('nested-arith-lines', PRELUDE + 'contract A { function f(uint a, uint b, uint c) public returns (uint) {\n  return a +\n    b * c;\n}\n'
        'function g(uint a, uint b, uint c) public returns (uint) {\n  return (a - b) /\n    (c +\n     a);\n} }')
    add('unchecked-nested', PRELUDE + 'contract A { function f(uint i, uint j, bool c) public {\n  unchecked { if (c) { ++i; } }\n'
        '  unchecked { for (uint k = 0; k < 3; ++k) { ++j; } }\n  unchecked { uint q = ++i; --j; }\n  ++i; i++;\n} }')
    add('zero-literal-muldiv', PRELUDE + 'contract A { function f(uint amount) public returns (uint) { return amount * 0 + amount / 0 + 0 * amount + 2 * 0; } }')
    add('call-options-args', PRELUDE + 'contract A { function f(address to, bytes32 s) public { (bool ok, ) = to.call{value: msg.value, gas: 5000}(""); '
        'C c = new C{salt: s}(); this.g{value: 1}(2); } function g(uint) public payable {} }')
    add('pragma-two-spaces', 'pragma  solidity 0.8.3;\ncontract A { using SafeMath for uint; function f(uint z) public { require(z > 0, "x"); '
        'require(z > 1, "this message is definitely longer than thirty-two bytes"); z = z.add(2); } }')
    add('pragma-tab', 'pragma\tsolidity ^0.8.10;\ncontract A { using SafeMath for uint; function f(uint z) public { require(z > 0, "x"); z = z.add(2); } }')
    add('pragma-newline', 'pragma\nsolidity\n0.7.6;\ncontract A { using SafeMath for uint; function f(uint z) public { require(z > 0, "x"); '
        'require(z > 1, "this message is definitely longer than thirty-two bytes"); z = z.add(2); } }')
    add('pragma-comment-between', 'pragma /* c */ solidity 0.8.4;\ncontract A { function f(uint z) public { require(z > 0, "x"); } }')
    add('interface-members', PRELUDE + 'interface IVault {\n  function _deposit(uint256 a) external;\n  function withdraw(uint256 a) external payable;\n'
        '  struct S { uint128 a; uint256 b; uint128 c; }\n  event E(uint indexed q);\n  error Er(uint q);\n  type T is uint64;\n}\n'
        'abstract contract AV { function _x() public virtual; uint public _pub; }\nlibrary LV { function _y() public { } struct S2 { uint8 a; uint256 b; uint8 c; } }')
    add('nested-type-definitions', PRELUDE + 'type Price is uint128;\ncontract C { type Wad is uint256; function f() public {} }\nlibrary L { type OrderId is bytes32; }\n'
        'interface I { type Late is uint64; }')
    add('same-struct-names', PRELUDE + 'contract A { struct Order { uint128 a; uint256 b; uint128 c; } }\ncontract B { struct Order { uint128 a; uint128 c; uint256 b; } }\n'
        'contract C2 { struct Order { uint128 a; uint256 b; uint128 c; } }\nstruct Order { uint256 b; uint128 a; uint128 c; }')
    add('same-struct-names-rev', PRELUDE + 'contract B { struct Order { uint128 a; uint128 c; uint256 b; } }\ncontract A { struct Order { uint128 a; uint256 b; uint128 c; } }')
    add('memory-params-multiline', PRELUDE + 'contract A {\n  function f(\n    uint[] memory a,\n    string memory b,\n    bytes\n      memory c\n  ) public returns (uint) { return a.length; }\n'
        '  function g(Lib.VeryLongStructNameForWrapping\n      memory p, uint[] memory q) external { q[0] = 1; }\n}')
    add('modifier-same-names', PRELUDE + 'contract Registry { address owner; modifier auth() { require(msg.sender == owner, "no"); _; } function kill() external auth { selfdestruct(payable(owner)); } }\n'
        'contract Timelock { uint delay; modifier auth() { require(delay > 0, "no"); _; } function kill() external auth { selfdestruct(payable(address(0))); } }')
    add('try-no-returns', PRELUDE + 'contract A { uint x; function f(IERC20 t, address a) public {\n  try t.transfer(a, 1) { x = x + 1; for (uint i; i < 3; ++i) { } unchecked { ++x; } } catch { x = x / 2 * 3; t.approve(a, 1); }\n'
        '  try this.g() { } catch Error(string memory r) { x = x - 1; } catch (bytes memory b) { x /= 2 * 3; selfdestruct(payable(a)); }\n'
        '  try this.g() returns (uint v) { x = v + 2; } catch Panic(uint c) { x = c * 4; }\n} function g() external returns (uint) { return 1; } }')
    add('deep-else-if', PRELUDE + 'contract D { uint last; uint never; function dispatch(uint s) public {\n  ' +
        ' else '.join('if (s == %d) { s = s + %d; }' % (i, i) for i in range(300)) + ' else { last = 1; }\n} }')
    banner = '// ' + '\u2550' * 60 + '\n// \u00a9 d\u00e9p\u00f4t \u4ee3\u5e01 \u2192 \u2211 ' + '\u00e9' * 40 + '\n'
    add('unicode-banner', banner + 'pragma solidity ^0.8.10;\ncontract A {\n  uint x;\n  address o;\n  function f(uint a, uint[] memory m) public returns (uint) {\n'
        '    require(a > 0 && a >= 1, "msg");\n    x = x + 1;\n    x = a / 2 * 3;\n    for (uint i; i < m.length; i++) {\n      ++x;\n    }\n'
        '    if (o == address(0)) {\n      x = a * 4;\n    }\n    IERC20(o).transfer(o, address(this).balance);\n    return x;\n  }\n'
        '  function k() external {\n    selfdestruct(payable(o));\n  }\n  function _p() public {\n  }\n  uint public _q;\n}\n')
    add('file-level-using', 'pragma solidity 0.7.6;\nusing SafeMath for uint256;\nenum FileEnum { A, B }\n'
        'contract A { function f(uint z) public returns (uint) { return z.add(2).sub(1); } }')
    add('file-level-using-new', 'pragma solidity ^0.8.13;\nusing SafeMath for uint256;\nusing {plus} for uint;\nfunction plus(uint a, uint b) pure returns (uint) { return a + b; }\n'
        'enum FileEnum { A, B }\ncontract A { function f(uint z) public returns (uint) { return z.add(2).mul(3); } }')
    add('address-literal', PRELUDE + 'contract A { address o; function f() public returns (bool) { o = address"5GrwvaEF5zXb26Fz9rcQpDWS57CtERHpNehXCPcNoHGKutQY"; '
        'return o == address"5GrwvaEF5zXb26Fz9rcQpDWS57CtERHpNehXCPcNoHGKutQY"; } }')
    add('name-value-attributes', PRELUDE + 'contract A { uint x; function f() public selector=hex"01020304" { x = x + 1; } '
        'function g(uint a) external seed = "abc" bump=1 returns (uint) { return a * 2; } function h() public flag=true {} }\n'
        'function fr(uint a) pure space=0x10 returns (uint) { return a / 4; }')
    add('free-function-modifier-args', PRELUDE + 'function fr(uint a) mm(a + 1, a * 2) lib.md(a >= 3) returns (uint) { return a; }\n'
        'contract A { uint x; modifier mm(uint p, uint q) { _; } function f(uint a) public mm(x = 1, a / 2 * 3) returns (uint) { return a; } }')
    add('tuple-gaps', PRELUDE + 'contract A { uint p; uint r; uint[] arr; function g() public returns (uint, uint, uint) { return (1, 2, 3); }\n'
        '  function f(uint i) public { (p, , r) = g(); (, uint b, uint c) = g(); (uint a, , ) = g(); (p, , arr[i++]) = g(); (, , r) = g(); ((p), , (r + 0, i--)); b = c + a; } }')
    add('for-update-and-body', PRELUDE + 'contract A { uint total; function f(uint n) public { for (uint i = 0; i < n; i++) { total++; } '
        'for (uint j; j < n; j += 1) total += 2; for (uint k; k < n; k++) { for (uint l; l < k; l++) { total = total + 1; } } } }')
    add('conversion-noargs', PRELUDE + 'contract A { function f(uint c) public returns (uint x) { x = uint256() * c; x = (address() * c) * 3; x /= bytes32() * 2; '
        'x = uint8(c / 2) * 3; x = payable() + c; } }')
    add('empty-declarations', PRELUDE + 'struct Empty {}\ncontract A { struct Inner {} }\ncontract B {}\ninterface I {}\nlibrary L {}\nabstract contract C {}')
    add('nested-parentheses', PRELUDE + 'contract A { function f(uint a, uint b, uint c, uint x) public returns (uint) { x = ((a / b)) * c; x /= ((a * b)); x = (((a / b))) * c; '
        'x /= (((a * b)) + 1); x = ((a)) * ((2)); x = ((a / b) * c) * x; require(((a > 0 && b > 0))); if (((a)) == ((true ? 1 : 0))) { } return x; } }')
    add('sender-conversions', PRELUDE + 'contract A { address owner; event Killed(uint256 who);\n'
        '  function k1() external { selfdestruct(payable(address(uint160(msg.sender)))); }\n'
        '  function k2() external { emit Killed(uint256(uint160(msg.sender))); selfdestruct(payable(owner)); }\n'
        '  function k3() external { bytes20 b = bytes20(msg.sender); selfdestruct(payable(owner)); }\n'
        '  function k4() external { require(msg.sender == owner); selfdestruct(payable(owner)); }\n'
        '  function k5() external { check(msg.sender); selfdestruct(payable(owner)); }\n  function check(address a) internal { }\n}')
    add('version-like-other-pragma', 'pragma experimental "v0.5.0";\npragma solidity 0.8.4;\ncontract A { using SafeMath for uint; function f(uint z) public { '
        'require(z > 0, "x"); require(z > 1, "this message is definitely longer than thirty-two bytes"); z = z.add(2); } }')
    add('version-like-other-pragma-after', 'pragma solidity 0.7.6;\npragma experimental "v0.9.1";\npragma abicoder v2;\ncontract A { using SafeMath for uint; function f(uint z) public { '
        'require(z > 0, "x"); require(z > 1, "this message is definitely longer than thirty-two bytes"); z = z.add(2); } }')
    add('unicode-revert-strings', 'pragma solidity 0.8.3;\ncontract A { function f(uint a) public { require(a != 0, unicode"\u00e9\u00e9\u00e9\u00e9\u00e9\u00e9\u00e9\u00e9\u00e9\u00e9\u00e9\u00e9\u00e9\u00e9\u00e9\u00e9"); '
        'require(a != 1, unicode"\u4ee3\u5e01\u4ee3\u5e01\u4ee3\u5e01\u4ee3\u5e01\u4ee3\u5e01\u4e00"); require(a != 2, unicode"\u00e9\u00e9\u00e9\u00e9\u00e9\u00e9\u00e9\u00e9\u00e9\u00e9\u00e9\u00e9\u00e9\u00e9\u00e9x"); '
        'require(a != 3, "0123456789012345678901234567890"); require(a != 4, "01234567890123456789012345678901"); } }')
    add('unicode-revert-strings-new', 'pragma solidity 0.8.4;\ncontract A { function f(uint a) public { require(a != 0, unicode"\u00e9\u00e9\u00e9\u00e9\u00e9\u00e9\u00e9\u00e9\u00e9\u00e9\u00e9\u00e9\u00e9\u00e9\u00e9\u00e9"); } }')
    add('same-line-findings', PRELUDE + 'contract A { uint256 private x; uint256 private y; address t; function f(uint a, uint b) public { a++; b--; '
        'require(a != 0 && t != address(0)); IERC20(t).transfer(t, 1); IERC20(t).approve(t, 2); x = a + b; y = a * 2 + b / 4; } }')
    add('mixed-line-ends', '// SPDX-License-Identifier: MIT\r\n// header written on another system\r\npragma solidity ^0.8.10;\ncontract A {\n  uint n;\r\n  function f() public {\n'
        'n++;\n  n = n + 1;\r\nn--;\n  }\n}\n')
    add('column-zero-tokens', PRELUDE + 'contract A {\nuint\npublic\n_v;\nfunction\n_f\n(\n)\npublic\n{\n}\nfunction g() public {}\nconstructor\n(\n)\n{\n}\nuint constant\nK = 1;\n}')
    add('multi-line-findings', PRELUDE + 'struct S1 {\n  uint128 a;\n  uint256 b;\n  uint128 c;\n}\ncontract P1 {\n  uint128 a;\n  uint256 b;\n  uint128 c;\n  struct S2 {\n    uint8 x;\n    uint256 y;\n    uint8 z;\n  }\n}\n'
        'contract P2 {\n  bool a;\n  uint256 b;\n  bool c;\n  function f(uint q) public returns (uint) {\n    return q +\n      1;\n  }\n}')
    add('interleaved-sizes', PRELUDE + 'contract A { uint8 a; uint248 b; uint16 c; uint240 d; }\nstruct S { uint8 a; uint248 b; uint16 c; uint240 d; }\n'
        'struct T3 { uint128 a; uint64[] xs; uint128 b; }\nstruct T4 { uint128 a; mapping(uint => uint) m; uint128 b; }\nstruct T5 { uint128 a; S s; uint128 b; }\ncontract B { uint128 a; uint64[] xs; uint128 b; }')
    add('fallback-before-constructor', PRELUDE + 'contract A { fallback() external { } constructor() { } }\ncontract B { receive() external payable { } constructor() { } }\n'
        'contract C { modifier m() { _; } constructor() { } }\ncontract D { event E(); error R(); struct S { uint a; } uint v; constructor() { } }\ncontract E2 { function f() external; constructor() { } }')
    add('attr-order-mutability-first', PRELUDE + 'contract A { uint256 immutable public b; uint256 constant public K2 = 2; uint256 public immutable c; uint256 public constant K3 = 3; '
        'bytes32 salt; bytes4 sel; uint plain; constructor(uint x, string memory s) { b = x; c = x; salt = bytes32(x); sel = bytes4(keccak256("f()")); plain = uint256(x); } }')
    add('address-zero-multiline', PRELUDE + 'contract A { mapping(address => mapping(uint => address)) reg; function f(address a, uint id) public {\n  if (reg[a][id] ==\n      address(0)) { }\n'
        '  require(\n    a\n    !=\n    address(0), "zero");\n  bool z = address(0)\n    == a;\n} }')
    add('legacy-unnamed-fallback', 'pragma solidity ^0.5.0;\ncontract A { uint x; function() external payable { x = x + 1; } }\ncontract B { function() external; }\ncontract C { function () { } }')
    add('legacy-unnamed-fallback-among-findings', 'pragma solidity ^0.5.0;\ncontract A {\n  uint private plain;\n  uint public _pub;\n  function _open() public { }\n  function hidden() internal { }\n  function() external payable { plain = plain + 1; }\n'
        '  function _ok() private { }\n  constructor() public { }\n}\ncontract B {\n  function() external { }\n  function helper() private { }\n}')
    add('cyclic-type-definitions', PRELUDE + 'type Price is Price;\ntype Shares is Assets;\ntype Assets is Shares;\ncontract A { Price p; Shares s; uint128 a; uint256 b; uint128 c; }\n'
        'contract B { type Inner is Inner; Inner i; uint8 x; uint256 y; uint8 z; struct S { Price p; uint8 q; Assets r; } }')
    add('long-operator-chain', PRELUDE + 'contract A { uint counter; function f(uint a) public returns (uint) { return counter++ ' + '+ 1 ' * 1300 + '; } }')
    add('deep-parentheses', PRELUDE + 'contract A { function f(uint a) public returns (uint) { return ' + '(' * 1250 + 'a++ * 2' + ')' * 1250 + '; } }')
    add('memory-param-as-index', PRELUDE + 'contract A { mapping(address => uint) credit; function f(uint[] memory order, uint[] memory values, uint[] memory out, address[] memory payees, uint[] memory amounts) public {\n'
        '  for (uint i; i < 3; ++i) { out[order[i]] = values[i]; credit[payees[i]] = amounts[i]; }\n} function g(uint[] memory w, uint[] memory r) public returns (uint) { w[r[0]] = 1; return r.length; } }')
    add('cjk-comments-in-library', 'pragma solidity ^0.8.10;\nlibrary Doc {\n  // ' + '\u4ee3\u5e01\u5408\u7ea6' * 30 + '\n  // ' + '\u00e4\u00f6\u00fc\u00df' * 40 + '\n  function id(uint a) internal pure returns (uint) { return a; }\n}\n'
        'contract After {\n  uint x;\n  address o;\n  function f(uint a) public {\n    x = a + 1;\n    if (a >= 2) {\n      x = a * 4;\n    }\n    ++x;\n  }\n  function k() external {\n    selfdestruct(payable(o));\n  }\n}\n')
    add('vertical-tab-indent', 'pragma solidity ^0.8.10;\n\x0bcontract A {\n\x0b\x0buint x;\n\x0c\n\x0b  function f(uint a) public {\n\x0bx = a + 1;\n\x0b\x0b++x;\n  }\n}\n')
    add('enum-typed-fields', PRELUDE + 'enum Side { Buy, Sell }\nstruct Order { Side side; uint256 price; Side closing; }\ncontract Book { enum Kind { A, B } struct Slot { Kind k; uint256 v; Kind j; } Side s; uint256 t; Side u; }')
    add('caret-after-comparator', 'pragma solidity >=0.8.4 ^0.8.0;\ncontract A { }')
    add('caret-second-alternative', 'pragma solidity 0.7.6 || >=0.8.4 ^0.8.0;\ncontract A { }')
    add('safemath-in-base-only', 'pragma solidity 0.7.6;\ncontract Base { using SafeMath for uint256; }\ncontract Derived is Base { function f(uint z) public returns (uint) { return z.add(2); } }\n'
        'function freeCalc(uint z) pure returns (uint) { return z.mul(3); }\ncontract Sibling { function g(uint z) public returns (uint) { return z.sub(1); } }')
    add('version-zero', 'pragma solidity 0.0.0;\ncontract A { using SafeMath for uint; function f(uint z) public { require(z > 0, "this message is definitely longer than thirty-two bytes"); z = z.add(2); } }')
    add('ctor-after-writer', PRELUDE + 'contract A { uint limit; uint fee; uint kept; function setLimit(uint l) public { limit = l; fee += 1; } constructor(uint l, uint f) { limit = l; fee = f; kept = l; } }')
    add('abstract-ctor-order', PRELUDE + 'abstract contract Ownable { address _o; function owner() public view returns (address) { return _o; } constructor() { _o = msg.sender; } }\n'
        'contract C is Ownable { constructor() { } function f() public { } }')
    add('multiline-declarations', PRELUDE + 'contract A {\n  mapping(address => mapping(address => uint256))\n    private allowances;\n  uint256\n    public\n    _checkpoint = 7;\n  uint256\n    public constant\n    LIMIT = 3;\n'
        '  function\n    _named\n    ()\n    public\n  {\n  }\n  function plain()\n    external   \n  {\n  }\n  function spaced() public /* c */ \n\n  {\n  }\n}')
    add('if-else-if-kinds', PRELUDE + 'contract A { uint x; function f(uint a) public { if (a == 1) { x = 1; } else if (a == 2) { x = 2; } else if (a == 3) { if (x > 0) { x = 3; } } else { x = 4; } if (a > 5) x = 5; else if (a > 6) x = 6; } }')
    add('many-lines', 'pragma solidity ^0.8.10;\n' + '\n' * 66000 + 'contract A { uint x; function f(uint a) public { x = a + 1; ++x; } }\n')
    add('long-line', 'pragma solidity ^0.8.10;' + ' ' * 70000 + 'contract A { uint x; function f(uint a) public { x = a + 1; ++x; } }\n\ncontract B { function g(uint a) public returns (uint) { return a * 2; } }\n')
    add('free-functions', PRELUDE + 'function min(uint a, uint b) pure returns (uint) { return a < b ? a : b; }\n'
        'function twice(uint a) pure returns (uint) { return min(a, a) * 2; }\ncontract C { function f() public {} }\nfunction max(uint a, uint b) pure returns (uint) { return a >= b ? a : b; }')
    # --- wave 5
    add('contractless-findings', PRELUDE + 'struct Pk { uint128 a; uint256 b; uint128 c; }\nuint256 constant MAX_SUPPLY = 10000;\n'
        'function freeSum(uint[] memory xs, uint k) pure returns (uint s) {\n  for (uint i = 0; i < xs.length; i++) {\n    s = s + xs[i] * 2;\n  }\n'
        '  require(k >= 1 && k <= 5, "k");\n  if (k == 3) { s = s / 2 * k; }\n}\nenum Kind { A, B }\n')
    add('contractless-findings-nopragma', 'struct Pk { uint128 a; uint256 b; uint128 c; }\nfunction bump(uint i) pure returns (uint) { i++; return i * 4; }\n')
    for n in (32, 33, 34, 35, 37, 38, 66, 131):
        items = []
        for k in range(n - 1):
            kind = k % 4
            if kind == 0:
                items.append('contract K%d { uint v; function f%d(uint a) public { v = a + %d; v++; } }' % (k, k, k))
            elif kind == 1:
                items.append('function free%d(uint a) pure returns (uint) { return a * %d + (a >= 2 ? 1 : 0); }' % (k, 2 ** (k % 5 + 1)))
            elif kind == 2:
                items.append('struct S%d { uint128 a; uint256 b; uint128 c; }' % k)
            else:
                items.append('library L%d { function g(address t) internal { require(t != address(0), "z"); t.balance; } }' % k)
        add('many-items-%d' % n, PRELUDE + '\n'.join(items) + '\n')
    add('several-modifiers', PRELUDE + 'contract A {\n  modifier onlyOwner() { _; }\n  modifier nonReentrant() { _; }\n  modifier lock() { _; }\n  modifier whenOnlyActive(uint q) { _; }\n'
        '  function k1() public nonReentrant onlyOwner { selfdestruct(payable(msg.sender)); }\n'
        '  function k2() external lock nonReentrant onlyOwner { selfdestruct(payable(msg.sender)); }\n'
        '  function k3() public onlyOwner nonReentrant { selfdestruct(payable(msg.sender)); }\n'
        '  function k4() public nonReentrant lock { selfdestruct(payable(msg.sender)); }\n'
        '  function k5() external lock whenOnlyActive(1) nonReentrant { suicide(payable(msg.sender)); }\n'
        '  function k6() public virtual nonReentrant override onlyOwner { selfdestruct(payable(msg.sender)); }\n'
        '  function k7() nonReentrant public { selfdestruct(payable(msg.sender)); }\n}')
    add('spaced-members', PRELUDE + 'contract A {\n  function f(address to, uint amount) public {\n    token.\n      transfer(to, amount);\n    token . approve(to, amount);\n'
        '    token./* erc20 */transferFrom(to, to, amount);\n    require( to != address( 0 ) );\n    require(to != address(\n      0\n    ));\n    uint b = address( this ) . balance;\n'
        '    bytes32 h = keccak256 (abi.encode(amount));\n    amount ++ ;\n    selfdestruct (payable(to));\n  }\n}')
    add('spaced-only', 'pragma solidity ^ 0.8.10 ;\ncontract A {\n  function f(address to, uint amount) public {\n    token\n      .\n      transfer\n      (to, amount);\n'
        '    if (to == address\n(\n0\n)) { amount = amount / 2\n * 3; }\n  }\n}')
    add('write-in-header', 'pragma solidity 0.8.10;\ncontract A {\n  uint cap; uint floorPrice; uint rate; uint body;\n  modifier record(uint q) { _; }\n'
        '  constructor(uint c) { cap = c; floorPrice = c; rate = c; body = c; }\n  function raise(uint n) external record(cap = n) { }\n'
        '  function lower(uint step) external record(floorPrice -= step) { }\n  function inBody(uint n) external { body = n; }\n}')
    for v in ('0.8.4', '0.8.3', '^0.8.10', '0.7.6'):
        add('require-arity-' + v, 'pragma solidity %s;\ncontract A {\n  function f(bool c, uint x) public {\n    require("message only");\n    require(c, x, "third is the message");\n'
            '    require(c, "ok");\n    require("first is a string but not last", c);\n    require(c, x, "a message of more than thirty-two bytes in third place");\n    require();\n    revert("plain");\n    revert(c, "two");\n  }\n}' % v)
    add('file-level-safemath', 'pragma solidity 0.8.10;\nusing SafeMath for uint256;\ncontract A { function f(uint a) public returns (uint) { return a.add(1).mul(2); } }\n')
    add('file-level-safemath-old', 'pragma solidity 0.7.6;\ncontract A { function f(uint a) public returns (uint) { return a.sub(1).div(2); } }\nusing SafeMath for uint256 global;\n')
    add('address-payable-state', PRELUDE + 'contract A {\n  address payable treasury;\n  address payable never = payable(address(0));\n  address payable beneficiary;\n  address plain;\n'
        '  constructor(address payable t) { treasury = t; plain = t; }\n  function set(address payable b) public { beneficiary = b; }\n}')
    add('function-typed-state', PRELUDE + 'contract A {\n  function(uint) external returns (uint) cb;\n  function() internal hook;\n  uint after_;\n  constructor() { after_ = 1; }\n  function set() public { hook = set; }\n}')
    add('members-between-vars', PRELUDE + 'contract A {\n  event E();\n  uint128 a;\n  uint256 b;\n  uint128 c;\n}\ncontract B {\n  uint128 a;\n  uint256 b;\n  bool c;\n  function f() public {}\n  uint128 d;\n}\n'
        'contract D {\n  uint128 a;\n  struct In { uint8 x; }\n  error Er();\n  uint256 b;\n  modifier m() { _; }\n  uint128 c;\n}')
    add('struct-sub-word-separators', PRELUDE + 'struct T1 { uint128 a; address b; uint128 c; }\ncontract A { struct T2 { uint128 a; uint200 b; uint128 c; } struct T3 { uint8 a; bytes31 b; uint8 c; int248 d; } '
        'struct T4 { uint8 a; uint248 b; uint128 c; uint128 d; } }\ncontract B { uint8 a; uint248 b; uint128 c; uint128 d; }')
    add('no-visibility-underscore', PRELUDE + 'contract A {\n  uint256 _pending;\n  mapping(address => uint) _balances;\n  address immutable _deployer;\n  uint plain;\n  uint constant _K = 1;\n  uint public _pub;\n  uint private priv;\n  constructor() { _deployer = msg.sender; }\n}')
    add('column-zero-members', 'pragma solidity ^0.8.10;\ncontract A {\nuint256 public constant CAP = 1000;\nfunction mint() external {\ntotal++;\n}\nuint total;\n}\n')
    add('lone-cr', 'pragma solidity ^0.8.10;\n// a comment ended by a bare carriage return\rcontract A {\n  uint x;\r  function f(uint a) public {\n    x = a + 1;\r    ++x;\n  }\n}\n')
    add('last-line-unterminated', 'pragma solidity ^0.8.10;\ncontract A { uint x; function f(uint a) public { x = a + 1; } }\ncontract B { function g(uint a) external returns (uint) { return a * 2; } }')
    add('single-line', 'pragma solidity ^0.8.10; contract A { uint x; function f(uint a) public { x = a + 1; ++x; } }')
    add('shift-assign-operands', PRELUDE + 'contract A { uint[] arr; function f(uint i, uint j) public { arr[i++] >>= g(j--); arr[--i] <<= g(++j); arr[i++] %= g(j--); arr[i++] |= g(j--); arr[i++] ^= g(j--); arr[i++] &= g(j--); } function g(uint a) internal returns (uint) { return a; } }')
    add('free-fn-between-contracts', PRELUDE + 'contract Vault {\n  function helper() internal { }\n  function _pub() public { }\n}\nfunction clamp(uint a) pure returns (uint) { return a; }\n'
        'contract Registry {\n  function lookup() private { }\n  function _open() external { }\n}\n')
    add('no-pragma-custom-error', 'pragma abicoder v2;\nerror Unauthorized();\nlibrary Lb { function f(bool c) internal { require(c, "a message longer than thirty-two bytes for sure"); } }\n'
        'contract A { function g(bool c) public { require(c, "msg"); } }\ninterface I { error Bad(); }\n')
    add('wrapped-findings', PRELUDE + 'contract A {\n  function f(uint a, uint b, uint c, uint d) public returns (uint) {\n    uint r = (a *\n      b) + (c * d);\n    require(a >=\n      b && c <= d, "x");\n'
        '    r = a /\n 2 * b + c / 4 * d;\n    return r;\n  }\n}')
    # --- wave 6
    add('literal-products', PRELUDE + 'contract A { uint x; function f(uint a) public {\n  x = ' + ' * '.join(['1'] * 48) + ';\n  x = ' + ' * '.join(['0'] + [str(3 + k % 7) for k in range(47)]) +
        ';\n  x = a * (' + ' * '.join(['2'] * 40) + ');\n  x = ' + ' + '.join(['1'] * 48) + ';\n  x = a / (' + ' * '.join(['(1 * 1)'] * 24) + ');\n} }')
    add('literal-tree', PRELUDE + 'contract A { uint x; function f(uint a) public { x = a * ' + '(' * 0 + ' * '.join(['(' + ' * '.join(['(1 * 2)'] * 4) + ')'] * 8) + '; } }')
    for v in ('0.8.3', '0.8.10', '0.7.6'):
        add('string-escapes-' + v, 'pragma solidity %s;\ncontract A {\n  function f(bool c) public {\n    require(c, "\\ud83d\\ude80 surrogate pair");\n    require(c, "e-acute \\u00e9 and more text to be long enough here");\n'
            '    require(c, "\\x41\\x42 hex escapes");\n    require(c, "tab\\there and a quote \\" inside the message text");\n    require(c, "back\\\\slash");\n    require(c, unicode"caf\u00e9 \u2713");\n'
            '    require(c, "\\udfff lone low surrogate");\n    require(c, "\\uZZZZ not hex");\n    require(c, "ends with backslash-u \\u12");\n    require(c, hex"4142");\n  }\n}' % v)
    for v in ('0.7.6', '0.8.10'):
        add('safemath-near-names-' + v, 'pragma solidity %s;\nlibrary SafeMath { }\ncontract A {\n  using SafeMath for uint256;\n  function f(uint256 x, uint256 y) public {\n    x.d(y);\n    x.a(y);\n    x.mu(y);\n    x.iv(y);\n'
            '    x.ub(y);\n    pool.s();\n    x.adds(y);\n    x.Add(y);\n    x.div_(y);\n    x.add(y);\n    x.sub(y);\n    x.mul(y);\n    x.div(y);\n    x.mod(y);\n    x.b(y);\n    x.dd(y);\n    x.u(y);\n  }\n}' % v)
    add('no-function-word', PRELUDE + 'contract Proxy {\n  fallback() external { }\n  receive() external payable { }\n  constructor() public { }\n}\ncontract P2 {\n  constructor() { }\n  fallback() external payable { }\n}')
    add('modifier-between-fn-and-ctor', PRELUDE + 'contract A {\n  function f() public {}\n  modifier m() { _; }\n  constructor() {}\n}\ncontract B {\n  receive() external payable {}\n  modifier m1() { _; }\n  modifier m2() { _; }\n  constructor() {}\n}\n'
        'contract C {\n  modifier m() { _; }\n  constructor() {}\n  function f() public {}\n}\ncontract D {\n  function f() public {}\n  uint x;\n  event E();\n  constructor() {}\n}')
    add('abstract-and-library-selfdestruct', PRELUDE + 'abstract contract Killable {\n  address owner;\n  function kill() public {\n    selfdestruct(payable(owner));\n  }\n}\nlibrary Lk {\n  function k() public {\n    selfdestruct(payable(address(0)));\n  }\n}\n'
        'interface Ik { function kill() external; }\ncontract Plain {\n  function kill() external {\n    suicide(payable(msg.sender));\n  }\n}')
    add('abstract-ctor-after-contract', PRELUDE + 'contract A {\n  function f() public {}\n}\nabstract contract B {\n  constructor() {}\n  function g() public {}\n}\nlibrary L {\n  function h() internal {}\n}\n'
        'abstract contract C2 {\n  constructor() {}\n}\ninterface I { function q() external; }\ncontract D {\n  constructor() {}\n  function r() public {}\n}')
    add('near-power-of-two-literals', PRELUDE + 'contract A { function f(uint a) public returns (uint) { a = a * 9007199254740993; a = a / 18446744073709551615; a = a * 18446744073709551617; '
        'a = a * 340282366920938463463374607431768211455; a = a * 115792089237316195423570985008687907853269984665640564039457584007913129639935; a = a * 4294967297; a = a / 9007199254740992; return a * 4503599627370497; } }')
    add('nested-assignments', PRELUDE + 'contract A {\n  uint last; uint total; address owner; bool flag;\n  event Ev(uint v);\n  function f(uint amount, address who) public returns (address) {\n    uint local = last = amount;\n    total = last = amount + 1;\n'
        '    if ((flag = amount > 1)) { emit Ev(total = amount); }\n    g(last = 3);\n    return owner = who;\n  }\n  function g(uint v) internal { }\n}')
    # --- wave 7
    add('recursive-helper-before-selfdestruct', PRELUDE + 'contract A {\n  address owner;\n  function _drain(uint n) internal { if (n > 0) { _drain(n - 1); } }\n  function _ping() internal { _pong(); }\n  function _pong() internal { _ping(); }\n'
        '  function close() public {\n    _drain(3);\n    selfdestruct(payable(owner));\n  }\n  function close2() external {\n    _ping();\n    suicide(payable(owner));\n  }\n  function _checkOwner() internal view { require(msg.sender == owner); }\n'
        '  function close3() external {\n    _checkOwner();\n    selfdestruct(payable(owner));\n  }\n}')
    add('member-array-assignments', PRELUDE + 'contract A {\n  function f(uint id, uint i) public {\n    orders[id].fills[0] = orders[id].fills[0] + 1;\n    current().fills[i] = current().fills[i] + 2;\n    this.counts[1] = 2;\n'
        '    position.amounts[0] = position.amounts[0] + 1;\n    (a)[0] = (a)[0] + 1;\n    m[1][2] = m[1][2] + 3;\n    f(1)[0] = f(1)[0] * 2;\n    new uint[](3)[0] = 1;\n    arr[0] = arr[0] - 1;\n  }\n}')
    add('array-name-index-collisions', PRELUDE + 'contract A { uint[] totals; uint[] totals1; uint[] fees; uint[] fees2; function f(uint fee) public {\n  totals1[2] = totals[12] + fee;\n  fees2[5] = fees[25] * 2;\n  totals[12] = totals1[2] + fee;\n'
        '  totals[1] = totals[1] + fee;\n  fees[25] = fees[25] * 2;\n  a1[11] = a11[1] + 1;\n  a[0x10] = a[16] + 1;\n  a[1_0] = a[10] + 1;\n} }')
    for k, pr in enumerate(['>=0.7.0', '>=0.5.0', '>0.7.6', '<0.9.0 >=0.7.6', '^0.8.0 || ^0.7.6', '>=0.7.0 <0.9.0', '^0.8.0', '>=0.8.0 <0.9.0', '0.7.6']):
        add('unchecked-under-pragma-%d' % k, 'pragma solidity %s;\ncontract A { function f(uint n) public { for (uint i = 0; i < n; ) {\n    unchecked {\n      ++i;\n    }\n  }\n  uint from = n;\n  unchecked { --from; from++; }\n  ++n;\n  n--;\n} }' % pr)
    add('same-name-functions', PRELUDE + 'contract A {\n  function mint(address to, uint256 v) internal { }\n  function mint(address to) external { }\n  function _burn(uint v) public { }\n  function _burn(address a, uint v) internal { }\n  function _x() external { }\n  function _x(uint q) public { }\n}\n'
        'interface I { function mint(address to) external; }\nlibrary L { function mint(address to) internal { } function _burn(uint v) public { } }')
    ladder = 'if (s == 0) { last = 0; }' + ''.join(' else if (s == %d) { last = %d; }' % (k, k) for k in range(1, 300)) + ' else { tok.transfer(to, s / 3 * 2); selfdestruct(payable(to)); }'
    add('deep-vulnerabilities', PRELUDE + 'contract D { uint last; function dispatch(uint s, address to) public {\n  ' + ladder + '\n}\n  function sum(uint a, uint b) public returns (uint) {\n    return a / b * 7' + ' + 1' * 300 + ';\n  }\n}')
    add('sender-check-after-selfdestruct', PRELUDE + 'contract A {\n  address owner;\n  function s1() public {\n    selfdestruct(payable(owner));\n    require(msg.sender == owner);\n  }\n  function s2(bool c) external {\n    if (c) {\n      selfdestruct(payable(owner));\n    }\n'
        '    _checkOwner(msg.sender);\n    if (!c) {\n      suicide(payable(owner));\n    }\n  }\n  function s3() public {\n    authorize(owner != msg.sender);\n    selfdestruct(payable(owner));\n  }\n  function s4() public {\n    selfdestruct(payable(owner));\n  }\n}')
    for v in ('0.7.6', '0.8.10'):
        add('safemath-uncalled-members-' + v, 'pragma solidity %s;\ncontract A {\n  using SafeMath for uint256;\n  struct Fees { uint div; uint mul; }\n  Fees fees;\n  function f(uint256 x) public returns (uint256) {\n    uint d = fees.div;\n    bytes4 sel = this.add.selector;\n'
            '    fees.mul = 3;\n    function (uint256) external returns (uint256) g = this.sub;\n    return x.add(d);\n  }\n  function add(uint256 q) external returns (uint256) { return q; }\n  function sub(uint256 q) external returns (uint256) { return q; }\n}' % v)
        add('safemath-second-using-' + v, 'pragma solidity %s;\ncontract A {\n  using SafeERC20 for IERC20;\n  using SafeMath for uint256;\n  function f(uint256 x) public returns (uint256) {\n    return x.mul(2).div(3);\n  }\n}\n' % v)
        add('safemath-using-in-later-contract-' + v, 'pragma solidity %s;\nusing Address for address;\ncontract First { using Strings for uint256; }\ncontract A {\n  using SafeMath for uint256;\n  function f(uint256 x) public returns (uint256) {\n    return x.sub(1);\n  }\n}\n' % v)
    add('struct-keyword-separators', PRELUDE + 'struct\nT1 { uint128 a; uint256 b; uint128 c; }\nstruct\tT2{ uint128 a; uint256 b; uint128 c; }\nstruct/* c */T3 { uint128 a; uint256 b; uint128 c; }\ncontract A { struct\r\nT4 { uint128 a; uint256 b; uint128 c; } }\n'
        'contract\nB { uint128 a; uint256 b; uint128 c; }\n')
    add('struct-keyword-newline-only', 'pragma solidity ^0.8.10;\ncontract A {\n  struct\n  Thing {\n    uint128 a;\n    uint256 b;\n    uint128 c;\n  }\n}\n')
    add('many-findings-150', PRELUDE + 'contract A { uint total; function f(uint x) public {\n' + ''.join('  total = x + %d; total = x + %d; total = x + %d;\n' % (3 * k, 3 * k + 1, 3 * k + 2) for k in range(50)) + '} }\n')
    add('one-line-items', 'pragma solidity ^0.8.10;\nstruct S1 { uint128 a; uint256 b; uint128 c; }\nstruct S2 { uint128 a; uint256 b; uint128 c; }\nfunction f1(uint a) pure returns (uint) { return a + 1; }\nfunction f2(uint a) pure returns (uint) { return a * 4; }\n'
        'contract C1 { function b(address t) public returns (uint) { return address(t).balance; } }\ncontract C2 { function b(address t) public returns (uint) { return address(t).balance + 1; } }\nlibrary L1 { function k(uint i) internal { i++; } }\nlibrary L2 { function k(uint i) internal { i--; } }\n')
    add('library-then-contract-with-ctor', PRELUDE + 'library Lb { function id(uint a) internal pure returns (uint) { return a; } }\ninterface It { function q() external; }\ncontract NoCtor { uint plain; }\n'
        'contract WithCtor {\n  uint fee;\n  uint cap;\n  constructor(uint f) { fee = f; cap = f; }\n  function setFee(uint f) public { fee = f; }\n}\ncontract Last {\n  uint z;\n  constructor() { z = 1; }\n}')
    return P


WRITE_FORMS = ['@ = 1', '@ += 1', '@ -= 1', '@ *= 2', '@ /= 2', '@ %= 2', '@ |= 1', '@ &= 1', '@ ^= 1', '@ <<= 1', '@ >>= 1',
               '@++', '@--', '++@', '--@']


def c08_scenarios(rng, n):
    """files with 2-3 contracts in which state variables of several types are (or are not) assigned in a constructor and
    written, by one of the 15 write forms, from a chosen place: same contract / derived contract / other contract;
    function / constructor / modifier / fallback / free function; directly or nested in a larger expression"""
    out = []
    types = ['uint', 'uint256', 'uint8', 'address', 'bool', 'bytes32', 'int', 'string', 'bytes', 'uint[]', 'mapping(uint => uint)', 'IERC20']
    # systematic part: every write form x every place of the write, on a variable that the constructor assigns and on one it does not
    place_tpl = {
        'same_fn': ('contract Decl { uint y; uint cand = 0; uint plain; constructor(uint q) { cand = q; } function w() public { %s } }', ''),
        'same_ctor': ('contract Decl { uint y; uint cand; uint plain; constructor(uint q) { cand = q; %s } }', ''),
        'modifier': ('contract Decl { uint y; uint cand; uint plain; constructor(uint q) { cand = q; } modifier mm() { %s _; } function w() public mm { } }', ''),
        'fallback': ('contract Decl { uint y; uint cand; uint plain; constructor(uint q) { cand = q; } fallback() external { %s } }', ''),
        'receive': ('contract Decl { uint y; uint cand; uint plain; constructor(uint q) { cand = q; } receive() external payable { %s } }', ''),
        'other_fn': ('contract Decl { uint y; uint cand; uint plain; constructor(uint q) { cand = q; } }', 'contract Other is Decl { function w() public { %s } }'),
        'other_ctor': ('contract Decl { uint y; uint cand; uint plain; constructor(uint q) { cand = q; } }', 'contract Other is Decl { constructor() Decl(1) { %s } }'),
        'library': ('contract Decl { uint y; uint cand; uint plain; constructor(uint q) { cand = q; } }', 'library Third { function w() internal { %s } }'),
        'free': ('contract Decl { uint y; uint cand; uint plain; constructor(uint q) { cand = q; } }', 'function freeWriter() { %s }'),
    }
    # places that hold an EXPRESSION outside any function body (the form is inserted without `;`)
    D0 = 'contract Decl { uint y; uint cand; uint plain; constructor(uint q) { cand = q; } modifier mq(uint q) { _; } '
    expr_tpl = {
        'x_fn_modifier_arg': (D0 + 'function w(uint n) external mq(%s) { y = n; } }', ''),
        'x_fn_modifier_arg_nobody': (D0 + 'function w(uint n) external virtual mq(%s); }', ''),
        'x_other_fn_modifier_arg': (D0 + '}', 'contract Other is Decl(1) { function w() public mq(%s) { } }'),
        'x_ctor_base_arg': (D0 + '}', 'contract Other is Decl { constructor() Decl(%s) { } }'),
        'x_inherit_arg': (D0 + '}', 'contract Other is Decl(%s) { }'),
        'x_state_initializer': (D0 + 'uint z = (%s); }', ''),
        'x_other_state_initializer': (D0 + '}', 'contract Other is Decl(1) { uint z = (%s); }'),
        'x_for_header': (D0 + 'function w() public { for (uint i = 0; i < (%s); i++) { } } }', ''),
        'x_return': (D0 + 'function w() public returns (uint) { return (%s); } }', ''),
        'x_emit_arg': (D0 + 'event Ev(uint p); function w() public { emit Ev(%s); } }', ''),
        'x_index': (D0 + 'uint[] arr; function w() public returns (uint) { return arr[%s]; } }', ''),
        'x_ternary': (D0 + 'function w(bool c) public returns (uint) { return c ? (%s) : 0; } }', ''),
        'x_call_value': (D0 + 'function w(address payable to) public { to.call{value: (%s)}(""); } }', ''),
        'x_array_size': (D0 + 'function w() public { uint[] memory m = new uint[](%s); } }', ''),
    }
    for place in sorted(expr_tpl):
        for form in WRITE_FORMS:
            for var in ('cand', 'plain'):
                a, b = expr_tpl[place]
                e = form.replace('@', var)
                src = PRELUDE + (a % e if '%s' in a else a) + '\n' + (b % e if '%s' in b else b) + '\n'
                out.append({'gen': 'c08sys:%s:%s:%s' % (place, form, var), 'src': src})
    k0 = 0
    for place in sorted(place_tpl):
        for form in WRITE_FORMS:
            for var in ('cand', 'plain'):
                a, b = place_tpl[place]
                stmt = form.replace('@', var) + ';'
                src = PRELUDE + (a % stmt if '%s' in a else a) + '\n' + (b % stmt if '%s' in b else b) + '\n'
                out.append({'gen': 'c08sys:%s:%s:%s' % (place, form, var), 'src': src})
                k0 += 1
    for k in range(n):
        nv = rng.randint(1, 4)
        decls = []
        ctor = []
        places = {'same_fn': [], 'same_ctor': [], 'other_fn': [], 'other_ctor': [], 'modifier': [], 'fallback': [], 'free': [], 'third_fn': []}
        for i in range(nv):
            name = '%s%d' % (rng.choice(['v', 'rate', '_p', 'own', 'tot']), i)
            ty = rng.choice(types)
            attrs = rng.choice(['', '', 'public', 'private', 'internal', 'immutable', 'constant'])
            simple = ty in ('uint', 'uint256', 'uint8', 'int')
            if attrs == 'constant':
                if not simple:
                    attrs = ''
                else:
                    decls.append('%s constant %s = 1;' % (ty, name))
                    continue
            if attrs == 'immutable' and ty in ('string', 'bytes', 'uint[]', 'mapping(uint => uint)'):
                attrs = ''
            init = ' = 5' if simple and rng.random() < 0.15 else ''
            decls.append('%s %s %s%s;' % (ty, attrs, name, init))
            rhs = {'uint': '1', 'uint256': 'q', 'uint8': '2', 'int': '3', 'address': rng.choice(['msg.sender', 'address(0)']), 'bool': 'true',
                   'bytes32': 'bytes32(0)', 'string': rng.choice(['"s"', 'nm']), 'bytes': rng.choice(['bytes("x")', 'abi.encode(q)']),
                   'uint[]': 'new uint[](1)', 'IERC20': 'IERC20(address(0))'}.get(ty)
            if rhs and rng.random() < 0.6:
                ctor.append('%s = %s;' % (name, rhs))
            if simple and rng.random() < 0.7:
                form = rng.choice(WRITE_FORMS).replace('@', name)
                wrap = rng.choice(['%s;', '%s;', 'g(%s);', 'uint t%d = (%%s);' % i, 'if ((%s) > 0) { }', 'try this.ext() { } catch { %s; }', 'y = 2 ** (%s);'])
                places[rng.choice(sorted(places))].append(wrap % form)
            elif ty in ('address', 'bool', 'bytes32', 'string', 'bytes') and rng.random() < 0.5:
                places[rng.choice(sorted(places))].append('%s = %s;' % (name, rhs or name))
            elif ty in ('uint[]', 'mapping(uint => uint)') and rng.random() < 0.5:
                places[rng.choice(sorted(places))].append('%s[0] = 1;' % name)
        kind1 = rng.choice(['contract', 'contract', 'abstract contract'])
        c1 = ['%s Decl {' % kind1, '  uint y;'] + ['  ' + d for d in decls]
        if ctor or places['same_ctor'] or rng.random() < 0.5:
            c1.append('  constructor(uint q, string memory nm) { %s }' % ' '.join(ctor + places['same_ctor']))
        if places['modifier']:
            c1.append('  modifier mm() { %s _; }' % ' '.join(places['modifier']))
        c1.append('  function g(uint a) internal returns (uint) { return a; }')
        c1.append('  function ext() external { }')
        if places['same_fn']:
            c1.append('  function same() public { %s }' % ' '.join(places['same_fn']))
        if places['fallback']:
            c1.append('  fallback() external { %s }' % ' '.join(places['fallback']))
        c1.append('}')
        rel = rng.choice([' is Decl', ' is Decl', ''])
        c2 = ['contract Other%s {' % rel]
        if places['other_ctor']:
            c2.append('  constructor() %s{ %s }' % ('Decl(1, "n") ' if rel and rng.random() < 0.5 else '', ' '.join(places['other_ctor'])))
        if places['other_fn']:
            c2.append('  function other() public { %s }' % ' '.join(places['other_fn']))
        c2.append('  function g2(uint a) internal returns (uint) { return a; }')
        c2.append('}')
        items = ['\n'.join(c1), '\n'.join(c2)]
        if places['third_fn']:
            items.append('library Third { function third() internal { %s } }' % ' '.join(places['third_fn']))
        if places['free']:
            items.append('function freeWriter() { %s }' % ' '.join(places['free']))
        if rng.random() < 0.4:
            rng.shuffle(items)
        out.append({'gen': 'c08scen:%d' % k, 'src': PRELUDE + '\n'.join(items) + '\n'})
    return out
