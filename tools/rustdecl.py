#!/usr/bin/env python3
"""Reader for the enum/struct/type-alias *declarations* of a Rust source file.

Only declarations are read (no function bodies, no impl blocks).  The result is
a table  name -> ('enum', [(variant, [(field_name|None, ty)])])
               | ('struct', [(field_name|None, ty)])
               | ('alias', ty)
with ty one of ('name', N) | ('box', t) | ('vec', t) | ('opt', t) | ('tuple', [t..]).
Used by pt2coq.py (types of solang_parser::pt), dbg2coq.py (type-directed
reading of Debug text) and tables2coq.py (enum variant lists).
"""
import re, sys, os, glob


def strip_comments(src):
    out = []
    i = 0
    n = len(src)
    while i < n:
        if src.startswith('//', i):
            j = src.find('\n', i)
            i = n if j < 0 else j
        elif src.startswith('/*', i):
            j = src.find('*/', i + 2)
            i = n if j < 0 else j + 2
        elif src[i] == '"':
            j = i + 1
            while j < n and src[j] != '"':
                j += 2 if src[j] == '\\' else 1
            out.append('""')
            i = j + 1
        else:
            out.append(src[i])
            i += 1
    return ''.join(out)


TOK = re.compile(r"""\s*(#!?\[[^\]]*\]|[A-Za-z_][A-Za-z0-9_]*|::|->|=>|[{}()\[\]<>,;:=&'*+\-!|.?/"@#$%^~\\]|\d+)""")


def tokenize(src):
    src = strip_comments(src)
    pos = 0
    toks = []
    while True:
        m = TOK.match(src, pos)
        if not m:
            if src[pos:].strip() == '':
                break
            raise SyntaxError('cannot tokenize at %r' % src[pos:pos + 40])
        t = m.group(1)
        if not t.startswith('#'):
            toks.append(t)
        pos = m.end()
    return toks


class P:
    def __init__(self, toks):
        self.t = toks
        self.i = 0

    def peek(self, k=0):
        return self.t[self.i + k] if self.i + k < len(self.t) else None

    def next(self):
        x = self.t[self.i]
        self.i += 1
        return x

    def expect(self, x):
        y = self.next()
        if y != x:
            raise SyntaxError('expected %r got %r at %d: %r' % (x, y, self.i, self.t[self.i - 5:self.i + 5]))

    def skip_balanced(self, open_, close):
        depth = 0
        while True:
            x = self.next()
            if x == open_:
                depth += 1
            elif x == close:
                depth -= 1
                if depth == 0:
                    return

    def ty(self):
        x = self.next()
        if x == '(':
            items = []
            while self.peek() != ')':
                items.append(self.ty())
                if self.peek() == ',':
                    self.next()
            self.expect(')')
            return ('tuple', items)
        name = x
        while self.peek() == '::':
            self.next()
            name = self.next()
        if self.peek() == '<':
            self.next()
            args = []
            while self.peek() != '>':
                args.append(self.ty())
                if self.peek() == ',':
                    self.next()
            self.expect('>')
            if name == 'Box':
                return ('box', args[0])
            if name == 'Vec':
                return ('vec', args[0])
            if name == 'Option':
                return ('opt', args[0])
            raise SyntaxError('generic ' + name)
        return ('name', name)

    def fields_named(self):
        # after '{'
        fs = []
        while self.peek() != '}':
            if self.peek() == 'pub':
                self.next()
                if self.peek() == '(':
                    self.skip_balanced('(', ')')
            fname = self.next()
            self.expect(':')
            fs.append((fname, self.ty()))
            if self.peek() == ',':
                self.next()
        self.expect('}')
        return fs

    def fields_tuple(self):
        # after '('
        fs = []
        while self.peek() != ')':
            if self.peek() == 'pub':
                self.next()
                if self.peek() == '(':
                    self.skip_balanced('(', ')')
            fs.append((None, self.ty()))
            if self.peek() == ',':
                self.next()
        self.expect(')')
        return fs


def parse_decls(src):
    p = P(tokenize(src))
    table = {}
    order = []
    while p.peek() is not None:
        x = p.next()
        if x == 'pub' and p.peek() == '(':
            p.skip_balanced('(', ')')
            continue
        if x == 'enum':
            name = p.next()
            p.expect('{')
            variants = []
            while p.peek() != '}':
                v = p.next()
                if p.peek() == '(':
                    p.next()
                    fs = p.fields_tuple()
                elif p.peek() == '{':
                    p.next()
                    fs = p.fields_named()
                else:
                    fs = []
                if p.peek() == '=':  # discriminant
                    p.next()
                    p.next()
                variants.append((v, fs))
                if p.peek() == ',':
                    p.next()
            p.expect('}')
            table[name] = ('enum', variants)
            order.append(name)
        elif x == 'struct':
            name = p.next()
            if p.peek() == '{':
                p.next()
                table[name] = ('struct', p.fields_named())
            elif p.peek() == '(':
                p.next()
                table[name] = ('struct', p.fields_tuple())
                if p.peek() == ';':
                    p.next()
            else:
                table[name] = ('struct', [])
            order.append(name)
        elif x == 'type':
            name = p.next()
            p.expect('=')
            table[name] = ('alias', p.ty())
            order.append(name)
            p.expect(';')
        elif x in ('impl', 'trait', 'fn', 'mod'):
            # skip to the matching close brace of the first '{' (or to ';')
            while p.peek() not in ('{', ';'):
                p.next()
            if p.peek() == ';':
                p.next()
            else:
                p.skip_balanced('{', '}')
        else:
            pass
    return table, order


def find_pt_rs(repo='/repo'):
    """Locate pt.rs of the solang-parser version pinned in /repo/Cargo.lock."""
    lock = open(os.path.join(repo, 'Cargo.lock')).read()
    m = re.search(r'name = "solang-parser"\nversion = "([^"]+)"', lock)
    ver = m.group(1)
    home = os.environ.get('CARGO_HOME', os.path.expanduser('~/.cargo'))
    cands = glob.glob(os.path.join(home, 'registry/src/*/solang-parser-%s/src/pt.rs' % ver))
    if not cands:
        raise FileNotFoundError('pt.rs of solang-parser ' + ver)
    return cands[0], ver


if __name__ == '__main__':
    path = sys.argv[1] if len(sys.argv) > 1 else find_pt_rs()[0]
    t, o = parse_decls(open(path).read())
    for n in o:
        print(n, t[n])
