#!/usr/bin/env python3
"""Writes /verif/MANIFEST.json from the table below (kept valid at all times)."""
import json, os
VERIF = os.path.dirname(os.path.dirname(os.path.abspath(__file__)))

NOTE = ('Coq 8.16.1 kernel + vm_compute; no axioms (Print Assumptions checked per run); model hand-written, tied to /repo by '
        'regenerated gen/*.v and by the correspondence check (harness linked against the working tree vs model evaluated in Coq); '
        'solang-parser, regex, toml, clap, HashMap order, the OS are modelled/oracles, see DESIGN.md section 10')

CLAIMED = {
    'C01': ('walk_exact: model of walk_node_for_targets = filter-by-kind of the type-derived complete pre-order, for every root '
            'and target set (induction over the generated mutual tree type); tie: regenerated gen/Pt.v + walk correspondence on '
            'slot catalogue / carriers / random programs', '7 C01',
            'Coq proof by mutual structural induction + differential correspondence model vs implementation'),
}
NOT_YET = {}


def main():
    props = [json.loads(l) for l in open(os.path.join(VERIF, 'properties.jsonl'))]
    checks = []
    na = []
    for p in props:
        pid = p['id']
        if pid in CLAIMED:
            text, ref, tech = CLAIMED[pid]
            checks.append({
                'property_id': pid,
                'quick_cmd': './check %s --tier quick' % pid,
                'thorough_cmd': './check %s --tier thorough' % pid,
                'evidence_file': 'evidence/%s.json' % pid,
                'replay_cmd_template': './check %s --replay {path}' % pid,
                'engine': 'coq-model',
                'level_claimed': {'category': 'proof', 'text': text, 'design_ref': 'DESIGN.md section ' + ref},
                'level_note': NOTE,
                'technique': tech,
            })
        else:
            na.append({'property_id': pid, 'reason': NOT_YET.get(pid, 'check not built yet in this round (work in progress; '
                                                                    'the technique applies, see DESIGN.md section 7)')})
    m = {
        'version': 1,
        'setup_cmd': './check --setup',
        'hooks': {'guard': 'solstat_verif', 'enable': 'RUSTFLAGS="--cfg solstat_verif" (set by tools/vlib.py for every harness build; '
                  'no hook code exists in /repo: every function the harness calls is already pub)',
                  'baseline_off_cmd': 'cd /repo && cargo test --workspace --no-fail-fast --offline',
                  'source_commits': [], 'add_only': True},
        'engines': [{'name': 'coq-model', 'path': 'coq/', 'serves_properties': sorted(CLAIMED),
                     'kind_free_text': 'Coq 8.16 development: generated parse-tree types + hand-written model of solstat + '
                                       'specifications + theorems; correspondence harness in harness/ and tools/'}],
        'checks': checks,
        'not_applicable': na,
        'notes': 'See DESIGN.md. known_findings.txt lists repaired (fixed:) and recorded (known:) defects.',
    }
    json.dump(m, open(os.path.join(VERIF, 'MANIFEST.json'), 'w'), indent=1)


if __name__ == '__main__':
    main()
