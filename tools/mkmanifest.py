#!/usr/bin/env python3
"""Writes /verif/MANIFEST.json from the table below (kept valid at all times)."""
import json, os
VERIF = os.path.dirname(os.path.dirname(os.path.abspath(__file__)))

NOTE = ('Coq 8.16.1 kernel + vm_compute; no axioms (Print Assumptions checked per run); model hand-written, tied to /repo by '
        'regenerated gen/*.v and by the correspondence check (harness linked against the working tree vs model evaluated in Coq); '
        'solang-parser, regex, toml, clap, HashMap order, the OS are modelled/oracles, see DESIGN.md section 10')

T_CORR = 'Coq proof (induction / closed forms over the complete pre-order) + differential correspondence model vs implementation + specification evaluated on implementation output'
CLAIMED = {
    'C01': ('walk_exact: model of walk_node_for_targets = filter-by-kind of the type-derived complete pre-order, for every root '
            'and target set (induction over the generated mutual tree type); tie: regenerated gen/Pt.v + walk correspondence on '
            'slot catalogue / carriers / random programs', '7 C01',
            'Coq proof by mutual structural induction + differential correspondence model vs implementation'),
    'C02': ('line_of_spec and corollaries: model of get_line_number = 1 + number of LF before the offset for every text and token-start '
            'offset (< 2^31 lines); tie: exhaustive small-string digests + random texts, implementation vs model vs spec', '7 C02',
            'Coq proof by induction over the text + exhaustive/random correspondence'),
    'C05': ('closed forms of the 11 expression-level detectors over the complete pre-order: exact equality with the specification for 8, '
            'canonical-subset-reported-subset-matching for address_zero, assign_update_array_value, shift_math; tie: location sets of '
            'implementation = model on carriers x contexts + spec evaluated on implementation output', '7 C05, 8', T_CORR),
    'C06': ('exact characterisation of payable_function, private_constant, private_vars/func_leading_underscore, constructor_order over '
            'the declared structure (contracts, members) + locality theorems; tie as C05', '7 C06, 8', T_CORR),
    'C07': ('exact characterisation of unsafe_erc20_operation, divide_before_multiply (inductive chain predicates), floating_pragma '
            '(caret / pinned corollaries), unprotected_selfdestruct (reported-iff theorem); tie as C05', '7 C07, 8', T_CORR),
    'C09': ('version scanner + i32 parsing extract the version a pragma names (all i32 triples, six operator spellings), first '
            'pragma solidity wherever other pragmas stand, lexicographic gates for the four version-gated detectors, monotonicity; '
            'tie: detector correspondence + version-string correspondence', '7 C09', T_CORR),
    'C10': ('slots_greedy_partition (layout rule, any length), pack_only_if / pack_not_if_optimal / pack_if_both_sorts, '
            'pack_storage_exact / pack_struct_exact; tie: exhaustive enumeration of size sequences by digest (length <= 4 quick, 5 thorough) '
            '+ random sequences + programs', '7 C10',
            'Coq proof (induction over sequences, permutation/sorting) + exhaustive digest correspondence'),
    'C14': ('finite theorems over regenerated name tables (doc names accepted, case-insensitive, injective, defaults selectable, dispatch '
            'total), option-resolution model (selection_exact, path precedence, unknown name fails early); tie: regenerated gen/Names.v + '
            'str_to_* and real-binary runs', '7 C14',
            'Coq proof by computation over regenerated tables (forallb lifted) + structural lemmas + binary correspondence'),
    'C03': ('analyze_dir_union: for every tree, listing order and duplicate-free pattern list the result is a permutation of the '
            'per-file findings, keys duplicate-free, discovery order per pattern, no empty vectors; panic iff an eligible file is '
            'unreadable/unparsable; tie: real directory trees (all interleavings of 4-entry directories) vs model fed the observed '
            'read_dir order + real binary runs', '7 C03',
            'Coq proof by induction over the nested directory tree + permutation arguments + correspondence on real directories'),
    'C04': ('no_panic: all 30 detector models return Ok on every tree satisfying wf_parser (every unwrap/expect/index/overflow of the '
            'Rust code is an explicit Panic in the model); no_panic_lines for texts with < 2^31 lines; tie: catch_unwind runs of debug and '
            'release builds incl. out-of-domain stream, depth 64, 1000 definitions; stack depth of the real binary sampled (partial)', '7 C04',
            'Coq proof via closed forms of all detector models + panic-agreement correspondence (debug and release builds)'),
    'C08': ('canonical-subset-reported-subset-matching theorems for constant_variables, immutable_variables, memory_to_calldata, sstore '
            'over the HashMap model (association list, insert replaces) under unique state-variable names; tie as C05', '7 C08', T_CORR),
    'C11': ('report reader round trip, entries = findings (Permutation), section iff findings, over regenerated section texts with '
            'finite side conditions re-established by computation; tie: byte-exact report correspondence + spec on implementation bytes', '7 C11',
            'Coq proof (line-oriented reader, induction over findings) + finite side conditions by vm_compute over regenerated texts + byte-exact correspondence'),
    'C12': ('printed totals = number of entries = number of findings; category and severity headings present iff findings exist; '
            'severity table regenerated', '7 C12',
            'Coq proof over the report model + regenerated severity table + correspondence on all 16 vulnerability subsets'),
    'C13': ('render_order_independent / render_set_function: the report bytes depend only on the set of findings, for every map '
            'iteration order and insertion order; tie: same set rendered in fresh processes and insertion orders, real binary on '
            're-created trees', '7 C13',
            'Coq proof (sorted-permutation uniqueness) + correspondence across processes / insertion orders'),
    'C15': ('verdict_independent: in any run over any tree with any co-selected pattern list the lines recorded for (file, pattern) '
            'equal the per-file analysis; no_shared_state over the regenerated inventory; thread interleavings sampled by a 16-thread '
            'harness run (partial for the runtime part)', '7 C15',
            'Coq proof on the directory model + regenerated shared-state inventory + multi-threaded correspondence runs'),
    'C16': ('eligible_iff_sol_source + inert_files: non-eligible files at any depth/position with any content never change the result; '
            'tie: name-filter enumeration over fragment concatenations + tree pairs with/without inert files', '7 C16',
            'Coq proof (name-filter characterisation, induction over trees) + exhaustive name enumeration correspondence'),
    'C18': ('run_frame / run_overwrites / failed_run_writes_nothing / old_report_inert on an abstract file system + regenerated effect '
            'inventory (exactly one write call site, no shared state); OS-level effects sampled by snapshot runs of the real binary '
            '(partial for the runtime part)', '7 C18',
            'Coq proof on an abstract file-system model + regenerated effect inventory + snapshot runs of the binary'),
    'C19': ('compose_all / compose_lines: for all 28 detectors of the property and every file whose items do not mention each '
            'other\'s state-variable names (plus the parser fact that constructs of different items have different locations), the '
            'findings of the file are exactly the union of the findings of the files reduced to the pragmas and one item, for location '
            'sets and line sets; tie: multi-item files assembled from independent programs, whole file vs every other item blanked out '
            '(implementation), model on isolate(tree, k) = implementation on the k-th blanked file, reordering of items', '7 C19',
            'Coq proof (per-detector composition over the list of top-level parts, name-table locality under no_cross_mentions) + '
            'blank-out / reorder correspondence on assembled multi-item files'),
    'C17': ('detectors_equivariant / relayout_lines: all 30 detector models flag, in the tree with locations renamed by any injective '
            'map, exactly the renamed constructs, and the reported lines are the lines of those constructs in the new text; '
            'string_contents_irrelevant: same-length rewriting of string-literal contents changes no result; comments are not part of '
            'the tree; the parser relation parse(s2) = rename(parse(s1)) for token-preserving re-layouts is sampled on every generated '
            'pair (partial), the known finding D14 (comment inside a pragma) excluded; tie: re-layout pairs through the implementation', '7 C17',
            'Coq proof (equivariance of every detector under location renaming by induction over the tree type, string-literal blindness, '
            'line lemma) + re-layout / re-commenting correspondence on the implementation; parser part sampled'),
}
NOT_YET = {
}


def main():
    props = [json.loads(l) for l in open(os.path.join(VERIF, 'properties.jsonl'))]
    checks = []
    na = []
    for p in props:
        pid = p['id']
        if pid in CLAIMED:
            text, ref, tech = CLAIMED[pid]
            checks.append({
                'property_id': pid,
                'quick_cmd': './check %s --tier quick' % pid,
                'thorough_cmd': './check %s --tier thorough' % pid,
                'evidence_file': 'evidence/%s.json' % pid,
                'replay_cmd_template': './check %s --replay {path}' % pid,
                'engine': 'coq-model',
                'level_claimed': {'category': 'proof', 'text': text, 'design_ref': 'DESIGN.md section ' + ref},
                'level_note': NOTE,
                'technique': tech,
            })
        else:
            na.append({'property_id': pid, 'reason': NOT_YET.get(pid, 'check not built yet in this round (work in progress; '
                                                                    'the technique applies, see DESIGN.md section 7)')})
    m = {
        'version': 1,
        'setup_cmd': './check --setup',
        'hooks': {'guard': 'solstat_verif', 'enable': 'RUSTFLAGS="--cfg solstat_verif" (set by tools/vlib.py for every harness build; '
                  'no hook code exists in /repo: every function the harness calls is already pub)',
                  'baseline_off_cmd': 'cd /repo && cargo test --workspace --no-fail-fast --offline',
                  'source_commits': [], 'add_only': True},
        'engines': [{'name': 'coq-model', 'path': 'coq/', 'serves_properties': sorted(CLAIMED),
                     'kind_free_text': 'Coq 8.16 development: generated parse-tree types + hand-written model of solstat + '
                                       'specifications + theorems; correspondence harness in harness/ and tools/'}],
        'checks': checks,
        'not_applicable': na,
        'notes': 'See DESIGN.md. known_findings.txt lists repaired (fixed:) and recorded (known:) defects.',
    }
    json.dump(m, open(os.path.join(VERIF, 'MANIFEST.json'), 'w'), indent=1)


if __name__ == '__main__':
    main()
