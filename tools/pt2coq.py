#!/usr/bin/env python3
"""pt.rs -> coq/gen/Pt.v

Reads ONLY the enum/struct/alias declarations of solang_parser::pt (the version
pinned in /repo/Cargo.lock) and the `Target` enum of /repo/src/analyzer/ast.rs,
and writes:

  * the inductive types (one-constructor inductives for structs);
  * `node` (the five node classes solstat searches) and `Target`;
  * `kind_of : node -> Target`   -- constructor name -> Target of the same name
                                    (Target_None when there is none);
  * `pre_<T>`  -- the COMPLETE pre-order of nodes below a value of type T,
                  derived purely from the types: every field from whose type a
                  node class is reachable is a child, in declaration order;
  * `Pt_mutind` -- mutual induction principle for the recursive block with
                  Forall/OptP/PairP-lifted hypotheses;
  * `mapl_<T>`  -- location renaming (C17), `maps_<T>` string-literal rewriting.

Nothing here looks at walk_node_for_targets: the spec side of C01 is independent
of the implementation it is compared with.
"""
import sys, os, re
sys.path.insert(0, os.path.dirname(os.path.abspath(__file__)))
from rustdecl import parse_decls, find_pt_rs

RENAME = {'Type': 'Ty', 'Import': 'ImportD', 'Parameter': 'Param', 'String': 'string',
          'usize': 'N', 'u8': 'N', 'u16': 'N', 'bool': 'bool'}
NODE_TYPES = ['Statement', 'Expression', 'SourceUnit', 'SourceUnitPart', 'ContractPart']
OPAQUE = {'YulBlock'}           # no Expression/Statement reachable from it
PRIMS = {'usize', 'u8', 'u16', 'bool', 'String'}
ROOT = 'SourceUnit'


def cn(name):
    return RENAME.get(name, name)


def resolve(table, t):
    """expand aliases, drop Box"""
    k = t[0]
    if k == 'name':
        d = table.get(t[1])
        if d and d[0] == 'alias':
            return resolve(table, d[1])
        return t
    if k == 'box':
        return resolve(table, t[1])
    if k in ('vec', 'opt'):
        return (k, resolve(table, t[1]))
    if k == 'tuple':
        return ('tuple', [resolve(table, x) for x in t[1]])
    raise ValueError(t)


def names_in(t):
    if t[0] == 'name':
        return [t[1]]
    if t[0] in ('vec', 'opt'):
        return names_in(t[1])
    return [n for x in t[1] for n in names_in(x)]


def coq_ty(t):
    k = t[0]
    if k == 'name':
        return cn(t[1])
    if k == 'vec':
        return '(list %s)' % coq_ty(t[1])
    if k == 'opt':
        return '(option %s)' % coq_ty(t[1])
    if k == 'tuple':
        return '(' + ' * '.join(coq_ty(x) for x in t[1]) + ')'


def load(repo='/repo'):
    path, ver = find_pt_rs(repo)
    table, order = parse_decls(open(path).read())
    # normalise field types
    T = {}
    for n in order:
        kind, body = table[n][0], table[n][1]
        if kind == 'alias':
            continue
        if n == 'Loc':
            # only the File form is ever produced by the parser; Loc::start() on the
            # others is unreachable!() (asserted on every parsed tree by the harness)
            T[n] = ('enum', [('File', [(None, ('name', 'usize'))] * 3)])
            continue
        if n in OPAQUE:
            T[n] = ('enum', [('opaque', [])])
            continue
        if kind == 'struct':
            T[n] = ('struct', [(f, resolve(table, t)) for f, t in body])
        else:
            T[n] = ('enum', [(v, [(f, resolve(table, t)) for f, t in fs]) for v, fs in body])
    # reachable from ROOT
    deps = {}
    for n, (kind, body) in T.items():
        fs = body if kind == 'struct' else [f for _, vf in body for f in vf]
        deps[n] = []
        for _, t in fs:
            for m in names_in(t):
                if m not in PRIMS and m not in deps[n]:
                    deps[n].append(m)
    seen = []

    def dfs(n):
        if n in seen:
            return
        seen.append(n)
        for m in deps[n]:
            dfs(m)
    dfs(ROOT)
    T = {n: T[n] for n in order if n in seen}
    deps = {n: deps[n] for n in T}
    return T, deps, ver, path


def sccs(T, deps):
    index = {}
    low = {}
    stack = []
    on = set()
    out = []
    c = [0]

    def strong(v):
        index[v] = low[v] = c[0]
        c[0] += 1
        stack.append(v)
        on.add(v)
        for w in deps[v]:
            if w not in index:
                strong(w)
                low[v] = min(low[v], low[w])
            elif w in on:
                low[v] = min(low[v], index[w])
        if low[v] == index[v]:
            comp = []
            while True:
                w = stack.pop()
                on.discard(w)
                comp.append(w)
                if w == v:
                    break
            out.append(comp)
    sys.setrecursionlimit(10000)
    for v in T:
        if v not in index:
            strong(v)
    return out  # reverse topological: dependencies first


def ctor(n, v):
    return '%s_%s' % (cn(n), v)


def mk(n):
    return 'Mk_%s' % cn(n)


def variants(T, n):
    kind, body = T[n]
    if kind == 'struct':
        return [(mk(n), body)]
    return [(ctor(n, v), fs) for v, fs in body]


def binder_names(fs):
    out = []
    for i, (f, _) in enumerate(fs):
        out.append('%s_' % f if f else 'a%d' % i)
    return out


def main(out_path, repo='/repo'):
    T, deps, ver, path = load(repo)
    comps = sccs(T, deps)
    order_in_file = list(T.keys())
    comps = [sorted(c, key=order_in_file.index) for c in comps]
    o = []
    w = o.append
    w('(* GENERATED by tools/pt2coq.py from solang-parser %s src/pt.rs and /repo/src/analyzer/ast.rs' % ver)
    w('   (declarations only).  Do not edit. *)')
    w('From Coq Require Import List String NArith Bool.')
    w('Import ListNotations.')
    w('From Solstat Require Import Lift.')
    w('')
    # ---------------- types
    for comp in comps:
        first = True
        for n in comp:
            kw = 'Inductive' if first else 'with'
            first = False
            w('%s %s : Type :=' % (kw, cn(n)))
            for c, fs in variants(T, n):
                bs = ' '.join('(%s : %s)' % (b, coq_ty(t)) for b, (_, t) in zip(binder_names(fs), fs))
                w('  | %s %s' % (c, bs))
        w('.')
        w('')
    # projections for structs
    for n, (kind, body) in T.items():
        if kind != 'struct':
            continue
        bn = binder_names(body)
        for i, (f, t) in enumerate(body):
            fname = f if f else 'f%d' % i
            pat = ' '.join(b if j == i else '_' for j, b in enumerate(bn))
            w('Definition %s_%s (x : %s) : %s := match x with %s %s => %s end.' % (cn(n), fname, cn(n), coq_ty(t), mk(n), pat, bn[i]))
    w('')
    # ---------------- node
    w('Inductive node : Type :=')
    for n in NODE_TYPES:
        w('  | N_%s (x : %s)' % (n, cn(n)))
    w('.')
    w('')
    # ---------------- Target (from ast.rs)
    ast_table, _ = parse_decls(open(os.path.join(repo, 'src/analyzer/ast.rs')).read())
    targets = [v for v, _ in ast_table['Target'][1]]
    w('Inductive Target : Type :=')
    for v in targets:
        w('  | Target_%s' % v)
    w('.')
    w('Definition all_targets : list Target := [%s].' % '; '.join('Target_' + v for v in targets))
    w('Definition Target_idx (t : Target) : N := match t with')
    for i, v in enumerate(targets):
        w('  | Target_%s => %d' % (v, i))
    w('  end%N.')
    w('Scheme Equality for Target.')
    w('Definition Target_eqb (a b : Target) : bool := Target_beq a b.')
    w('')
    # kind_of: constructor name -> Target of same name
    w('Definition kind_of (n : node) : Target := match n with')
    for n in NODE_TYPES:
        if n == 'SourceUnit':
            w('  | N_SourceUnit _ => Target_SourceUnit')
            continue
        w('  | N_%s x => match x with' % n)
        for v, fs in T[n][1]:
            tgt = 'Target_' + v if v in targets else 'Target_None'
            w('      | %s %s => %s' % (ctor(n, v), ' '.join('_' for _ in fs), tgt))
        w('      end')
    w('  end.')
    w('')
    # ---------------- reachability of node types
    reach = {n: (n in NODE_TYPES) for n in T}
    changed = True
    while changed:
        changed = False
        for n in T:
            if not reach[n] and any(reach[m] for m in deps[n]):
                reach[n] = True
                changed = True

    def t_reach(t):
        return any(reach.get(m, False) for m in names_in(t))

    cnt = [0]

    def fresh():
        cnt[0] += 1
        return 'y%d' % cnt[0]

    def pre_of(t, v):
        k = t[0]
        if k == 'name':
            return 'pre_%s %s' % (cn(t[1]), v)
        if k == 'vec':
            y = fresh()
            return 'flat_map (fun %s => %s) %s' % (y, pre_of(t[1], y), v)
        if k == 'opt':
            y = fresh()
            return 'match %s with Some %s => %s | None => [] end' % (v, y, pre_of(t[1], y))
        if k == 'tuple':
            ys = [fresh() for _ in t[1]]
            parts = [pre_of(x, y) for x, y in zip(t[1], ys) if t_reach(x)]
            pat = ', '.join(y if t_reach(x) else '_' for x, y in zip(t[1], ys))
            return 'match %s with (%s) => %s end' % (v, pat, ' ++ '.join('(%s)' % p for p in parts))

    def pre_body(n):
        lines = ['match x with']
        for c, fs in variants(T, n):
            bn = binder_names(fs)
            pat = ' '.join(b if t_reach(t) else '_' for b, (_, t) in zip(bn, fs))
            parts = ['(%s)' % pre_of(t, b) for b, (_, t) in zip(bn, fs) if t_reach(t)]
            body = ' ++ '.join(parts) if parts else '[]'
            lines.append('  | %s %s => %s' % (c, pat, body))
        lines.append('  end')
        body = '\n'.join(lines)
        if n in NODE_TYPES:
            return 'N_%s x :: (%s)' % (n, body)
        return body

    w('(* complete pre-order, derived from the types *)')
    for comp in comps:
        rc = [n for n in comp if reach[n]]
        if not rc:
            continue
        recursive = len(comp) > 1 or comp[0] in deps[comp[0]]
        first = True
        for n in rc:
            if recursive:
                kw = 'Fixpoint' if first else 'with'
                w('%s pre_%s (x : %s) {struct x} : list node :=' % (kw, cn(n), cn(n)))
            else:
                w('Definition pre_%s (x : %s) : list node :=' % (cn(n), cn(n)))
            first = False
            w(pre_body(n))
            if not recursive:
                w('.')
        if recursive:
            w('.')
        w('')
    w('Definition pre (n : node) : list node := match n with')
    for n in NODE_TYPES:
        w('  | N_%s x => pre_%s x' % (n, cn(n)))
    w('  end.')
    w('')
    # ---------------- mutual induction principle for the big SCC
    big = max(comps, key=len)
    inbig = set(big)

    def t_big(t):
        return any(m in inbig for m in names_in(t))

    def lift(t):
        k = t[0]
        if k == 'name':
            return 'P_%s' % cn(t[1]) if t[1] in inbig else '(@TrueP %s)' % coq_ty(t)
        if k == 'vec':
            return '(Forall %s)' % lift(t[1])
        if k == 'opt':
            return '(OptP %s)' % lift(t[1])
        if k == 'tuple':
            assert len(t[1]) == 2
            a, b = t[1]
            la = lift(a) if t_big(a) else '(@TrueP %s)' % coq_ty(a)
            lb = lift(b) if t_big(b) else '(@TrueP %s)' % coq_ty(b)
            return '(PairP %s %s)' % (la, lb)

    def proof(t, v):
        k = t[0]
        if not t_big(t):
            return 'I'
        if k == 'name':
            return 'ind_%s %s' % (cn(t[1]), v)
        if k == 'vec':
            y = fresh()
            r = fresh()
            l = fresh()
            return ('((fix go (%s : %s) : Forall %s %s := match %s with nil => Forall_nil _ '
                    '| cons %s %s => @Forall_cons _ %s %s %s (%s) (go %s) end) %s)'
                    % (l, coq_ty(t), lift(t[1]), l, l, y, r, lift(t[1]), y, r, proof(t[1], y), r, v))
        if k == 'opt':
            y = fresh()
            o_ = fresh()
            return ('(match %s as %s return OptP %s %s with Some %s => %s | None => I end)'
                    % (v, o_, lift(t[1]), o_, y, proof(t[1], y)))
        if k == 'tuple':
            a, b = t[1]
            ya, yb = fresh(), fresh()
            p_ = fresh()
            return ('(match %s as %s return %s %s with (%s, %s) => conj (%s) (%s) end)'
                    % (v, p_, lift(t), p_, ya, yb, proof(a, ya), proof(b, yb)))

    w('Section Pt_mutind.')
    for n in big:
        w('  Variable P_%s : %s -> Prop.' % (cn(n), cn(n)))
    for n in big:
        for c, fs in variants(T, n):
            bn = binder_names(fs)
            binders = ' '.join('(%s : %s)' % (b, coq_ty(t)) for b, (_, t) in zip(bn, fs))
            hyps = ''.join('%s %s -> ' % (lift(t), b) for b, (_, t) in zip(bn, fs) if t_big(t))
            fa = 'forall %s, ' % binders if binders else ''
            w('  Hypothesis H_%s : %s%sP_%s (%s %s).' % (c, fa, hyps, cn(n), c, ' '.join(bn)))
    first = True
    for n in big:
        kw = '  Fixpoint' if first else '  with'
        first = False
        w('%s ind_%s (x : %s) {struct x} : P_%s x := match x as x0 return P_%s x0 with' % (kw, cn(n), cn(n), cn(n), cn(n)))
        for c, fs in variants(T, n):
            bn = binder_names(fs)
            args = ' '.join(bn)
            prfs = ' '.join('(%s)' % proof(t, b) for b, (_, t) in zip(bn, fs) if t_big(t))
            w('    | %s %s => H_%s %s %s' % (c, args, c, args, prfs))
        w('    end')
    w('  .')
    w('  Definition Pt_mutind := %s%s.' % (' '.join(
        ('(conj ind_%s' % cn(n)) if i < len(big) - 1 else 'ind_%s' % cn(n) for i, n in enumerate(big)), ')' * (len(big) - 1)))
    w('End Pt_mutind.')
    w('')
    # ---------------- map over locations / string literal contents
    def gen_map(prefix, leaf_types, extra_args, leaf_fn):
        """generic structural map; leaf_types: dict typename -> expression builder"""
        touched = {n: (n in leaf_types) for n in T}
        ch = True
        while ch:
            ch = False
            for n in T:
                if not touched[n] and any(touched.get(m, False) for m in deps[n]):
                    touched[n] = True
                    ch = True

        def t_t(t):
            return any(touched.get(m, False) for m in names_in(t))

        def m_of(t, v):
            k = t[0]
            if not t_t(t):
                return v
            if k == 'name':
                return '(%s_%s %s)' % (prefix, cn(t[1]), v)
            if k == 'vec':
                y = fresh()
                return '(map (fun %s => %s) %s)' % (y, m_of(t[1], y), v)
            if k == 'opt':
                y = fresh()
                return '(match %s with Some %s => Some %s | None => None end)' % (v, y, m_of(t[1], y))
            if k == 'tuple':
                ys = [fresh() for _ in t[1]]
                return '(match %s with (%s) => (%s) end)' % (v, ', '.join(ys), ', '.join(m_of(x, y) for x, y in zip(t[1], ys)))

        for comp in comps:
            rc = [n for n in comp if touched[n]]
            if not rc:
                continue
            recursive = len(comp) > 1 or comp[0] in deps[comp[0]]
            first = True
            for n in rc:
                if recursive:
                    kw = 'Fixpoint' if first else 'with'
                    w('%s %s_%s (x : %s) {struct x} : %s :=' % (kw, prefix, cn(n), cn(n), cn(n)))
                else:
                    w('Definition %s_%s (x : %s) : %s :=' % (prefix, cn(n), cn(n), cn(n)))
                first = False
                if n in leaf_types:
                    w('  ' + leaf_types[n])
                else:
                    w('  match x with')
                    for c, fs in variants(T, n):
                        bn = binder_names(fs)
                        w('  | %s %s => %s %s' % (c, ' '.join(bn), c, ' '.join(m_of(t, b) for b, (_, t) in zip(bn, fs))))
                    w('  end')
                if not recursive:
                    w('.')
            if recursive:
                w('.')
        w('')

    w('Section MapLoc.')
    w('  Variable r : Loc -> Loc.')
    gen_map('mapl', {'Loc': 'r x'}, '', None)
    w('End MapLoc.')
    w('')
    # per-constructor unfolding equations of mapl_* for the recursive block: `cbn` exposes the raw
    # mutual fix on stuck arguments, so proofs rewrite with these (hint db mapl_eqs) instead.
    # The right-hand side is the constructor applied to the mapped fields, written with the global names.
    big2 = max(comps, key=len)
    touched2 = {n: (n == 'Loc') for n in T}
    ch2 = True
    while ch2:
        ch2 = False
        for n in T:
            if not touched2[n] and any(touched2.get(m, False) for m in deps[n]):
                touched2[n] = True
                ch2 = True

    def m_of2(t, v):
        k = t[0]
        if not any(touched2.get(m, False) for m in names_in(t)):
            return v
        if k == 'name':
            return '(mapl_%s r %s)' % (cn(t[1]), v)
        if k == 'vec':
            y = fresh()
            return '(map (fun %s => %s) %s)' % (y, m_of2(t[1], y), v)
        if k == 'opt':
            y = fresh()
            return '(match %s with Some %s => Some %s | None => None end)' % (v, y, m_of2(t[1], y))
        if k == 'tuple':
            ys = [fresh() for _ in t[1]]
            return '(match %s with (%s) => (%s) end)' % (v, ', '.join(ys), ', '.join(m_of2(x, y) for x, y in zip(t[1], ys)))
    w('Section MaplEqs.')
    w('  Variable r : Loc -> Loc.')
    eqnames = []
    for n in big2:
        for c, fs in variants(T, n):
            bn = binder_names(fs)
            binders = ' '.join('(%s : %s)' % (b, coq_ty(t)) for b, (_, t) in zip(bn, fs))
            fa = 'forall %s, ' % binders if binders else ''
            rhs = '%s %s' % (c, ' '.join(m_of2(t, b) for b, (_, t) in zip(bn, fs)))
            w('  Lemma mapl_eq_%s : %smapl_%s r (%s %s) = %s.' % (c, fa, cn(n), c, ' '.join(bn), rhs))
            w('  Proof. reflexivity. Qed.')
            eqnames.append('mapl_eq_' + c)
    w('End MaplEqs.')
    for i in range(0, len(eqnames), 20):
        w('#[export] Hint Rewrite %s : mapl_eqs.' % ' '.join(eqnames[i:i + 20]))
    w('')
    w('Section MapStr.')
    w('  (* rewrites the text of the parts of Expression::StringLiteral only *)')
    w('  Variable g : string -> string.')
    w('  Definition maps_StringLiteral (x : StringLiteral) : StringLiteral :=')
    w('    match x with Mk_StringLiteral l u s => Mk_StringLiteral l u (g s) end.')
    # custom: only the Expression::StringLiteral field, not pragma/import string literals
    touched = {n: False for n in T}
    touched['Expression'] = True
    ch = True
    while ch:
        ch = False
        for n in T:
            if not touched[n] and any(touched.get(m, False) for m in deps[n]):
                touched[n] = True
                ch = True

    def t_t(t):
        return any(touched.get(m, False) for m in names_in(t))

    def m_of(t, v):
        k = t[0]
        if not t_t(t):
            return v
        if k == 'name':
            return '(maps_%s %s)' % (cn(t[1]), v)
        if k == 'vec':
            y = fresh()
            return '(map (fun %s => %s) %s)' % (y, m_of(t[1], y), v)
        if k == 'opt':
            y = fresh()
            return '(match %s with Some %s => Some %s | None => None end)' % (v, y, m_of(t[1], y))
        if k == 'tuple':
            ys = [fresh() for _ in t[1]]
            return '(match %s with (%s) => (%s) end)' % (v, ', '.join(ys), ', '.join(m_of(x, y) for x, y in zip(t[1], ys)))
    for comp in comps:
        rc = [n for n in comp if touched[n]]
        if not rc:
            continue
        recursive = len(comp) > 1 or comp[0] in deps[comp[0]]
        first = True
        for n in rc:
            if recursive:
                kw = '  Fixpoint' if first else '  with'
                w('%s maps_%s (x : %s) {struct x} : %s :=' % (kw, cn(n), cn(n), cn(n)))
            else:
                w('  Definition maps_%s (x : %s) : %s :=' % (cn(n), cn(n), cn(n)))
            first = False
            w('    match x with')
            for c, fs in variants(T, n):
                bn = binder_names(fs)
                if c == 'Expression_StringLiteral':
                    w('    | %s a0 => %s (map maps_StringLiteral a0)' % (c, c))
                else:
                    w('    | %s %s => %s %s' % (c, ' '.join(bn), c, ' '.join(m_of(t, b) for b, (_, t) in zip(bn, fs))))
            w('    end')
            if not recursive:
                w('  .')
        if recursive:
            w('  .')
    w('End MapStr.')
    w('')
    # ---------------- loc_<T>: the location the parser attaches to a value
    # rule (mirrors `impl CodeLocation`/`fn loc` in pt.rs): the first direct Loc field
    # of the constructor; otherwise the loc of the first field that has one
    # (Vec -> its head, default File 0 0 0 when empty).
    w('Definition loc_default : Loc := Loc_File 0%N 0%N 0%N.')
    has_loc = {}

    def ty_has_loc(t):
        k = t[0]
        if k == 'name':
            return t[1] == 'Loc' or has_loc.get(t[1], False)
        if k == 'vec':
            return ty_has_loc(t[1])
        return False

    def variant_has_loc(fs):
        return any(ty_has_loc(t) for _, t in fs)

    ch = True
    while ch:
        ch = False
        for n in T:
            if n == 'Loc' or has_loc.get(n):
                continue
            if all(variant_has_loc(fs) for _, fs in variants(T, n)) and variants(T, n):
                has_loc[n] = True
                ch = True

    def loc_expr(t, v):
        k = t[0]
        if k == 'name':
            return v if t[1] == 'Loc' else 'loc_%s %s' % (cn(t[1]), v)
        if k == 'vec':
            y = fresh()
            return 'match %s with %s :: _ => %s | nil => loc_default end' % (v, y, loc_expr(t[1], y))

    for comp in comps:
        rc = [n for n in comp if has_loc.get(n)]
        if not rc:
            continue
        recursive = len(comp) > 1 or comp[0] in deps[comp[0]]
        # loc_ functions are never truly recursive through node types (first-field chains
        # are finite), but inside the SCC they must be declared together
        first = True
        for n in rc:
            if recursive:
                kw = 'Fixpoint' if first else 'with'
                w('%s loc_%s (x : %s) {struct x} : Loc :=' % (kw, cn(n), cn(n)))
            else:
                w('Definition loc_%s (x : %s) : Loc :=' % (cn(n), cn(n)))
            first = False
            w('  match x with')
            for c, fs in variants(T, n):
                bn = binder_names(fs)
                pick = None
                for j, (_, t) in enumerate(fs):
                    if t == ('name', 'Loc'):
                        pick = j
                        break
                if pick is None:
                    for j, (_, t) in enumerate(fs):
                        if ty_has_loc(t):
                            pick = j
                            break
                pat = ' '.join(b if j == pick else '_' for j, b in enumerate(bn))
                w('  | %s %s => %s' % (c, pat, loc_expr(fs[pick][1], bn[pick])))
            w('  end')
            if not recursive:
                w('.')
        if recursive:
            w('.')
    w('Definition loc_of (n : node) : Loc := match n with')
    for n in NODE_TYPES:
        if n == 'SourceUnit':
            w('  | N_SourceUnit _ => loc_default')
        else:
            w('  | N_%s x => loc_%s x' % (n, cn(n)))
    w('  end.')
    w('')
    # bookkeeping for other tools
    w('Definition pt_version : string := "%s"%%string.' % ver)
    open(out_path, 'w').write('\n'.join(o) + '\n')


if __name__ == '__main__':
    main(sys.argv[1] if len(sys.argv) > 1 else '/verif/coq/gen/Pt.v', sys.argv[2] if len(sys.argv) > 2 else '/repo')
