#!/usr/bin/env python3
"""Write seeded/<id>/meta.json for every seeded change from the sub-agent's meta, the confirmation run
(tools/seedcheck.sh) and the check runs (tools/mutrun.sh), and print the table used in DESIGN.md."""
import json, os, glob, re, sys
VERIF = os.path.dirname(os.path.dirname(os.path.abspath(__file__)))


def main():
    rows = []
    for d in sorted(glob.glob(os.path.join(VERIF, 'seeded', 'C*-m*'))):
        sid = os.path.basename(d)
        agent = {}
        if os.path.exists(os.path.join(d, 'meta.agent.json')):
            try:
                agent = json.load(open(os.path.join(d, 'meta.agent.json')))
            except Exception:
                agent = {}
        conf = json.load(open(os.path.join(d, 'confirm.json'))) if os.path.exists(os.path.join(d, 'confirm.json')) else {}
        checks = {}
        for rcf in sorted(glob.glob(os.path.join(d, 'checks', '*.rc'))):
            c = os.path.basename(rcf)[:-3]
            rc = int(open(rcf).read().strip() or -1)
            log = open(os.path.join(d, 'checks', c + '.log'), errors='replace').read() if os.path.exists(os.path.join(d, 'checks', c + '.log')) else ''
            viol = [l for l in log.split('\n') if l.startswith('VIOLATION')]
            whats = []
            for l in viol:
                m = re.search(r'replay=(\S+)', l)
                if m:
                    rp = os.path.join(d, 'checks', 'replays', os.path.basename(m.group(1)))
                    if os.path.exists(rp):
                        try:
                            j = json.load(open(rp))
                            whats.append({'what': j.get('what', '')[:300], 'kind': j.get('kind'),
                                          'no_failing_input': l.rstrip().endswith('no-failing-input-found')})
                        except Exception:
                            pass
            checks[c] = {'exit': rc, 'violation_lines': len(viol), 'with_failing_input': sum(1 for w in whats if not w['no_failing_input']),
                         'reports': whats[:3]}
        prop = sid.split('-')[0]
        own = checks.get(prop, {})
        meta = {
            'id': sid,
            'property': prop,
            'summary': agent.get('summary'),
            'needs_to_manifest': agent.get('needs'),
            'demonstration': [os.path.basename(f) for f in glob.glob(os.path.join(d, 'demo.*'))],
            'demonstration_cmd': agent.get('demo'),
            'source': 'fresh sub-agent given only the property text and a scratch worktree of /repo',
            'confirmed_by_lead': {
                'how': 'tools/seedcheck.sh in the scratch worktree: demonstration on the unchanged tree, the 70 existing tests with the patch, '
                       'demonstration with the patch',
                'demo_exit_without_patch': conf.get('demo_without_patch_rc'),
                'existing_tests_exit_with_patch': conf.get('tests_with_patch_rc'),
                'existing_tests_passed_with_patch': conf.get('tests_passed_with_patch'),
                'demo_exit_with_patch': conf.get('demo_with_patch_rc'),
            },
            'checks_run_against_it': checks,
            'how_checks_were_run': 'tools/mutrun.sh: scratch worktree of /repo with the patch applied and a scratch copy of /verif bind-mounted over '
                                   '/repo and /verif in a private mount namespace; ./check <id> --tier quick',
            'detected_by_own_property_check': bool(own.get('violation_lines')),
            'detected_with_failing_input': bool(own.get('with_failing_input')),
        }
        notes = os.path.join(d, 'NOTES.txt')
        if os.path.exists(notes):
            meta['notes'] = open(notes).read().strip()
        json.dump(meta, open(os.path.join(d, 'meta.json'), 'w'), indent=1, ensure_ascii=False)
        others = [c for c in checks if c != prop and checks[c]['violation_lines']]
        rows.append((sid, (agent.get('summary') or '')[:110], 'yes' if own.get('violation_lines') else 'NO',
                     'input' if own.get('with_failing_input') else ('no-failing-input-found' if own.get('violation_lines') else '-'),
                     ','.join(others)))
    for r in rows:
        print('| %s | %s | %s | %s | %s |' % r)


if __name__ == '__main__':
    main()
