#!/usr/bin/env python3
"""tables2coq: the finite tables of solstat -> coq/gen/Tables.v

Reads (declarations and tables only, never control flow):
  /repo/src/analyzer/{optimizations,vulnerabilities,qa}/mod.rs
      - the enum declaration (variants in declaration order = discriminant order)
      - the arms `"name" => Enum::Variant` of str_to_*
      - the `vec![ Enum::Variant, ... ]` of get_all_*
      - the arms `Enum::Variant =>` of the `match` in analyze_for_* (and whether a `_ =>` arm exists)
  /repo/src/report/{optimization,vulnerability,qa}_report.rs
      - the arms `Enum::Variant => module::report_section_content()` of get_*_report_section
      - the severity of each vulnerability, the VulnerabilitySeverity enum
  /repo/docs/identified-{optimizations,vulnerabilities,quality-assurance}.md  (first column of the table)
  /repo/Solstat.toml (the three name lists and `path`)
generate() raises if a shape it expects is missing."""
import os, re, sys

sys.path.insert(0, os.path.dirname(os.path.abspath(__file__)))
import rustdecl

REPO = '/repo'

CATS = [
    # key, enum, prefix, analyzer dir, str_to fn, get_all fn, analyze fn, report file, section fn, doc file, toml key
    dict(key='opt', enum='Optimization', pre='Opt', dir='optimizations', str_to='str_to_optimization',
         get_all='get_all_optimizations', analyze='analyze_for_optimization', report='optimization_report.rs',
         section='get_optimization_report_section', doc='identified-optimizations.md', toml='optimizations'),
    dict(key='vul', enum='Vulnerability', pre='Vul', dir='vulnerabilities', str_to='str_to_vulnerability',
         get_all='get_all_vulnerabilities', analyze='analyze_for_vulnerability', report='vulnerability_report.rs',
         section='get_vulnerability_report_section', doc='identified-vulnerabilities.md', toml='vulnerabilities'),
    dict(key='qa', enum='QualityAssurance', pre='Qa', dir='qa', str_to='str_to_qa',
         get_all='get_all_qa', analyze='analyze_for_qa', report='qa_report.rs',
         section='get_qa_report_section', doc='identified-quality-assurance.md', toml='qa'),
]


class ShapeError(Exception):
    pass


def read(path):
    with open(path, encoding='utf-8') as f:
        return f.read()


def strip_line_comments(src):
    return re.sub(r'//[^\n]*', '', src)


def fn_body(src, name):
    """text between the braces of `fn name(...) ... { ... }` (brace matching; string literals skipped)"""
    m = re.search(r'\bfn\s+%s\s*\(' % re.escape(name), src)
    if not m:
        raise ShapeError('function %s not found' % name)
    i = src.index('{', m.end())
    depth = 0
    j = i
    n = len(src)
    while j < n:
        c = src[j]
        if c == '"':
            j += 1
            while j < n and src[j] != '"':
                j += 2 if src[j] == '\\' else 1
        elif c == '{':
            depth += 1
        elif c == '}':
            depth -= 1
            if depth == 0:
                return src[i + 1:j]
        j += 1
    raise ShapeError('unbalanced braces in %s' % name)


def enum_variants(src, enum):
    decls, _ = rustdecl.parse_decls(src)
    if enum not in decls or decls[enum][0] != 'enum':
        raise ShapeError('enum %s not found' % enum)
    vs = []
    for v, fields in decls[enum][1]:
        if fields:
            raise ShapeError('enum %s: variant %s carries data' % (enum, v))
        vs.append(v)
    if not vs:
        raise ShapeError('enum %s has no variants' % enum)
    if re.search(r'enum\s+%s\s*\{[^}]*=' % enum, strip_line_comments(src)):
        raise ShapeError('enum %s has explicit discriminants' % enum)
    return vs


def str_to_arms_table_form(src, body, c):
    """name table written as a constant array of ("name", Enum::Variant) pairs, looked up by equality on the lower-cased
    argument (see names2coq.str_to_table_form)"""
    if len(re.findall(r'\.\s*to_lowercase\s*\(', body)) != 1 or not re.search(r'\.\s*iter\s*\(\s*\)\s*\.\s*find\s*\(', body) \
            or '==' not in body or 'panic!' not in body:
        raise ShapeError('%s: expected `match <arg>.to_lowercase().as_str() {` or a table looked up with .iter().find(.. == ..)' % c['str_to'])
    names = list(dict.fromkeys(re.findall(r'\b([A-Z][A-Z0-9_]{2,})\b', body)))
    if len(names) != 1:
        raise ShapeError('%s: expected exactly one constant table in the body, found %r' % (c['str_to'], names))
    m = re.search(r'\bconst\s+%s\s*:[^=]*=\s*&?\s*\[(.*?)\]\s*;' % names[0], strip_line_comments(src), flags=re.S)
    if not m:
        raise ShapeError('%s: declaration of the constant %s not found' % (c['str_to'], names[0]))
    tb = m.group(1)
    arms = re.findall(r'\(\s*"([^"\\]*)"\s*,\s*%s\s*::\s*(\w+)\s*\)' % c['enum'], tb)
    n_lit = len(re.findall(r'"[^"\\]*"', tb))
    if not arms or n_lit != len(arms):
        raise ShapeError('%s: %s holds %d string literals but %d pairs of the shape ("name", %s::V)' % (c['str_to'], names[0], n_lit, len(arms), c['enum']))
    return arms


def str_to_arms(src, c):
    body = fn_body(strip_line_comments(src), c['str_to'])
    if not re.search(r'\bmatch\b', body):
        return str_to_arms_table_form(src, body, c)
    if not re.search(r'match\s+\w+\s*\.\s*to_lowercase\s*\(\s*\)\s*\.\s*as_str\s*\(\s*\)\s*\{', body):
        raise ShapeError('%s: expected `match <arg>.to_lowercase().as_str() {`' % c['str_to'])
    arms = re.findall(r'"([^"\\]*)"\s*=>\s*%s\s*::\s*(\w+)\s*,' % c['enum'], body)
    n_lit = len(re.findall(r'"[^"\\]*"\s*=>', body))
    if not arms or n_lit != len(arms):
        raise ShapeError('%s: %d string arms but %d of the shape "name" => %s::V,' % (c['str_to'], n_lit, len(arms), c['enum']))
    if not re.search(r'\b\w+\s*=>\s*\{\s*panic!', body):
        raise ShapeError('%s: the fall-through arm `other => { panic!(..) }` was not found' % c['str_to'])
    return arms


def get_all_list(src, c):
    body = fn_body(strip_line_comments(src), c['get_all'])
    m = re.search(r'vec!\s*\[(.*?)\]', body, flags=re.S)
    if not m:
        raise ShapeError('%s: vec![..] not found' % c['get_all'])
    items = [x.strip() for x in m.group(1).split(',') if x.strip()]
    out = []
    for it in items:
        mm = re.fullmatch(r'%s\s*::\s*(\w+)' % c['enum'], it)
        if not mm:
            raise ShapeError('%s: unexpected element %r' % (c['get_all'], it))
        out.append(mm.group(1))
    return out


def match_arms(body, scrutinee_re, enum, what):
    """variants with an arm `Enum::V =>` inside `match <scrutinee> { ... }`; wildcard arm present?"""
    m = re.search(r'match\s+%s\s*\{' % scrutinee_re, body)
    if not m:
        raise ShapeError('%s: `match` over the pattern not found' % what)
    # balanced block
    i = m.end() - 1
    depth = 0
    j = i
    while j < len(body):
        if body[j] == '{':
            depth += 1
        elif body[j] == '}':
            depth -= 1
            if depth == 0:
                break
        j += 1
    block = body[i + 1:j]
    arms = re.findall(r'\b%s\s*::\s*(\w+)\s*=>' % enum, block)
    wildcard = bool(re.search(r'(?<![\w:])_\s*=>', block))
    if not arms:
        raise ShapeError('%s: no arms found' % what)
    return arms, wildcard, block


def section_arms(src, c):
    body = fn_body(strip_line_comments(src), c['section'])
    arms, wildcard, block = match_arms(body, r'\w+', c['enum'], c['section'])
    out = []
    sev = {}
    for v in arms:
        m = re.search(r'\b%s\s*::\s*%s\s*=>\s*(\{|\()?\s*(\w+)\s*::\s*report_section_content\s*\(\s*\)\s*(?:,\s*VulnerabilitySeverity\s*::\s*(\w+))?'
                      % (c['enum'], v), block)
        if not m:
            raise ShapeError('%s: arm of %s has an unexpected shape' % (c['section'], v))
        out.append((v, m.group(2)))
        if c['key'] == 'vul':
            if not m.group(3):
                raise ShapeError('%s: no severity in the arm of %s' % (c['section'], v))
            sev[v] = m.group(3)
    return out, wildcard, sev


def doc_names(path):
    names = []
    in_table = False
    for line in read(path).split('\n'):
        if line.startswith('|'):
            cells = [x.strip() for x in line.strip().strip('|').split('|')]
            if not in_table:
                in_table = True      # header row
                continue
            if re.fullmatch(r'-+', cells[0]):
                continue
            names.append(cells[0])
    if not names:
        raise ShapeError('%s: no table rows found' % path)
    for n in names:
        if not re.fullmatch(r'[A-Za-z0-9_]+', n):
            raise ShapeError('%s: unexpected pattern name %r in first column' % (path, n))
    return names


def toml_lists(path):
    txt = read(path)
    txt = re.sub(r'#[^\n]*', '', txt)
    out = {}
    for key in ['optimizations', 'vulnerabilities', 'qa']:
        m = re.search(r'^\s*%s\s*=\s*\[(.*?)\]' % key, txt, flags=re.S | re.M)
        if not m:
            raise ShapeError('Solstat.toml: list %s not found' % key)
        inner = m.group(1).strip()
        items = re.findall(r'"([^"\\]*)"|\'([^\']*)\'', inner)
        names = [a or b for a, b in items]
        rest = re.sub(r'"[^"\\]*"|\'[^\']*\'', '', inner)
        if rest.replace(',', '').strip():
            raise ShapeError('Solstat.toml: unexpected content in %s: %r' % (key, rest))
        out[key] = names
    m = re.search(r'^\s*path\s*=\s*(?:"([^"\\]*)"|\'([^\']*)\')', txt, flags=re.M)
    out['path'] = (m.group(1) or m.group(2)) if m else None
    return out


def collect():
    """-> dict with everything read from /repo (also used by the checks)"""
    T = {'cats': {}}
    toml = toml_lists(os.path.join(REPO, 'Solstat.toml'))
    T['toml_path'] = toml['path']
    for c in CATS:
        src = read(os.path.join(REPO, 'src', 'analyzer', c['dir'], 'mod.rs'))
        rsrc = read(os.path.join(REPO, 'src', 'report', c['report']))
        variants = enum_variants(src, c['enum'])
        arms = str_to_arms(src, c)
        allv = get_all_list(src, c)
        abody = fn_body(strip_line_comments(src), c['analyze'])
        a_arms, a_wild, _ = match_arms(abody, r'\w+', c['enum'], c['analyze'])
        s_arms, s_wild, sev = section_arms(rsrc, c)
        for v in [x[1] for x in arms] + allv + a_arms + [x[0] for x in s_arms]:
            if v not in variants:
                raise ShapeError('%s::%s is used but not declared' % (c['enum'], v))
        d = dict(c)
        d.update(variants=variants, str_to_arms=arms, get_all_list=allv, analyze_arms=a_arms, analyze_wildcard=a_wild,
                 section_arms=s_arms, section_wildcard=s_wild, severity=sev,
                 doc_names=doc_names(os.path.join(REPO, 'docs', c['doc'])), toml_names=toml[c['toml']])
        T['cats'][c['key']] = d
    rsrc = read(os.path.join(REPO, 'src', 'report', 'vulnerability_report.rs'))
    T['severities'] = enum_variants(rsrc, 'VulnerabilitySeverity')
    for v, s in T['cats']['vul']['severity'].items():
        if s not in T['severities']:
            raise ShapeError('severity %s of %s is not declared' % (s, v))
    return T


def qs(s):
    if '"' in s or any(ord(ch) < 32 or ord(ch) > 126 for ch in s):
        raise ShapeError('unexpected character in table string %r' % s)
    return '"%s"' % s


def coq_list(items, indent='  '):
    if not items:
        return '[]'
    return '[\n' + ';\n'.join(indent + '  ' + it for it in items) + '\n' + indent + ']'


HEADER = '''(* GENERATED by tools/tables2coq.py from /repo -- do not edit.
   Sources: src/analyzer/{optimizations,vulnerabilities,qa}/mod.rs, src/report/*_report.rs,
            docs/identified-*.md, Solstat.toml

   For each category X in {Optimization (prefix Opt / opt), Vulnerability (Vul / vul),
   QualityAssurance (Qa / qa)} this file provides:

     Inductive X                         the Rust enum; constructors <Pre>_<Variant> in declaration order
     X_idx       : X -> N                discriminant (`as usize`): position in the declaration
     X_eqb       : X -> X -> bool        boolean equality (Lemma X_eqb_eq : X_eqb a b = true <-> a = b)
     X_all       : list X                all variants in declaration order (Lemma X_all_complete : forall x, In x X_all)
     X_name      : X -> string           the Rust variant name, e.g. "AddressBalance"
     <x>_str_to_table   : list (string * X)    arms `"name" => X::V` of str_to_<x>, in source order
     <x>_get_all        : list X               the vec![..] of get_all_<x>, in source order
     <x>_analyze_arms   : list X               variants with an explicit arm in the `match` of analyze_for_<x>
     <x>_analyze_has_wildcard : bool           is there a `_ =>` arm in that match
     <x>_section_table  : list (X * string)    arms of get_<x>_report_section: variant -> report_sections module name
     <x>_section_has_wildcard : bool
     <x>_doc_names      : list string          first column of docs/identified-*.md, in table order
     <x>_toml_names     : list string          the list in /repo/Solstat.toml (sample configuration), in order
   and
     Inductive VulnerabilitySeverity     Sev_High | Sev_Medium | Sev_Low   (declaration order)
     VulnerabilitySeverity_idx / _eqb / _all / _name    as above
     vul_severity_table : list (Vulnerability * VulnerabilitySeverity)     second component of each arm of get_vulnerability_report_section
     vul_severity       : Vulnerability -> VulnerabilitySeverity           the same as a function (total: checked by the generator)
     toml_path          : option string        `path = ...` of /repo/Solstat.toml
     assoc_str          : string -> list (string * A) -> option A          first match (the order of match arms)
*)
From Coq Require Import List String NArith Bool.
Import ListNotations.
Local Open Scope string_scope.
Local Open Scope N_scope.
Local Open Scope list_scope.

Fixpoint assoc_str {A : Type} (k : string) (l : list (string * A)) : option A :=
  match l with
  | [] => None
  | (k', v) :: r => if String.eqb k k' then Some v else assoc_str k r
  end.
'''


def emit_enum(name, pre, variants):
    L = []
    L.append('Inductive %s : Type :=' % name)
    for v in variants:
        L.append('  | %s_%s' % (pre, v))
    L[-1] += '.'
    L.append('')
    L.append('Definition %s_idx (x : %s) : N :=' % (name, name))
    L.append('  match x with')
    for i, v in enumerate(variants):
        L.append('  | %s_%s => %d' % (pre, v, i))
    L.append('  end.')
    L.append('')
    L.append('Definition %s_eqb (a b : %s) : bool := N.eqb (%s_idx a) (%s_idx b).' % (name, name, name, name))
    L.append('')
    L.append('Definition %s_all : list %s := %s.' % (name, name, coq_list(['%s_%s' % (pre, v) for v in variants])))
    L.append('')
    L.append('Definition %s_name (x : %s) : string :=' % (name, name))
    L.append('  match x with')
    for v in variants:
        L.append('  | %s_%s => %s' % (pre, v, qs(v)))
    L.append('  end.')
    L.append('')
    L.append('Lemma %s_idx_inj : forall a b, %s_idx a = %s_idx b -> a = b.' % (name, name, name))
    L.append('Proof. intros a b; destruct a; destruct b; intro H; try reflexivity; discriminate H. Qed.')
    L.append('')
    L.append('Lemma %s_eqb_eq : forall a b, %s_eqb a b = true <-> a = b.' % (name, name))
    L.append('Proof.')
    L.append('  intros a b; unfold %s_eqb; rewrite N.eqb_eq; split.' % name)
    L.append('  - apply %s_idx_inj.' % name)
    L.append('  - intro H; rewrite H; reflexivity.')
    L.append('Qed.')
    L.append('')
    L.append('Lemma %s_all_complete : forall x, In x %s_all.' % (name, name))
    L.append('Proof. intro x; destruct x; vm_compute; tauto. Qed.')
    L.append('')
    L.append('Lemma %s_all_idx : map %s_idx %s_all = map N.of_nat (seq 0 %d).' % (name, name, name, len(variants)))
    L.append('Proof. vm_compute; reflexivity. Qed.')
    L.append('')
    return L


def generate():
    T = collect()
    L = [HEADER]
    for key in ['opt', 'vul', 'qa']:
        c = T['cats'][key]
        en, pre = c['enum'], c['pre']
        L.append('(* ------------------------------------------------------------ %s *)' % en)
        L += emit_enum(en, pre, c['variants'])
        L.append('Definition %s_str_to_table : list (string * %s) := %s.' % (
            key, en, coq_list(['(%s, %s_%s)' % (qs(n), pre, v) for n, v in c['str_to_arms']])))
        L.append('')
        L.append('Definition %s_get_all : list %s := %s.' % (key, en, coq_list(['%s_%s' % (pre, v) for v in c['get_all_list']])))
        L.append('')
        L.append('Definition %s_analyze_arms : list %s := %s.' % (key, en, coq_list(['%s_%s' % (pre, v) for v in c['analyze_arms']])))
        L.append('Definition %s_analyze_has_wildcard : bool := %s.' % (key, 'true' if c['analyze_wildcard'] else 'false'))
        L.append('')
        L.append('Definition %s_section_table : list (%s * string) := %s.' % (
            key, en, coq_list(['(%s_%s, %s)' % (pre, v, qs(m)) for v, m in c['section_arms']])))
        L.append('Definition %s_section_has_wildcard : bool := %s.' % (key, 'true' if c['section_wildcard'] else 'false'))
        L.append('')
        L.append('Definition %s_doc_names : list string := %s.' % (key, coq_list([qs(n) for n in c['doc_names']])))
        L.append('')
        L.append('Definition %s_toml_names : list string := %s.' % (key, coq_list([qs(n) for n in c['toml_names']])))
        L.append('')
    L.append('(* ------------------------------------------------------------ severities *)')
    L += emit_enum('VulnerabilitySeverity', 'Sev', T['severities'])
    v = T['cats']['vul']
    L.append('Definition vul_severity_table : list (Vulnerability * VulnerabilitySeverity) := %s.' % coq_list(
        ['(Vul_%s, Sev_%s)' % (x, v['severity'][x]) for x, _ in v['section_arms']]))
    L.append('')
    missing = [x for x in v['variants'] if x not in v['severity']]
    if missing:
        raise ShapeError('no severity for %s' % missing)
    L.append('Definition vul_severity (x : Vulnerability) : VulnerabilitySeverity :=')
    L.append('  match x with')
    for x in v['variants']:
        L.append('  | Vul_%s => Sev_%s' % (x, v['severity'][x]))
    L.append('  end.')
    L.append('')
    L.append('Definition toml_path : option string := %s.' % ('Some %s' % qs(T['toml_path']) if T['toml_path'] is not None else 'None'))
    return '\n'.join(L) + '\n'


if __name__ == '__main__':
    out = generate()
    if len(sys.argv) > 1:
        open(sys.argv[1], 'w').write(out)
    else:
        sys.stdout.write(out)
