#!/bin/bash
# The procedure of the brief, literally: apply a seeded change in /repo itself, run the check of its property, undo it
# straight afterwards.  (tools/mutrun.sh does the same inside a private mount namespace without touching /repo; this script
# exists to show that both give the same verdict.)  Only to be run when nothing else is using /repo.
#   tools/inrepo_confirm.sh <seeded id> ...
cd /verif
undo() { git -C /repo checkout -- . ; git -C /repo clean -fdq; }
trap undo EXIT
for sid in "$@"; do
  P=${sid%%-*}
  [ -z "$(git -C /repo status --porcelain)" ] || { echo "/repo is not clean"; exit 2; }
  git -C /repo apply /verif/seeded/$sid/patch.diff || { echo "$sid: patch does not apply"; continue; }
  ./check $P --tier quick > /tmp/inrepo-$sid.log 2>&1; rc=$?
  undo
  nv=$(grep -c '^VIOLATION' /tmp/inrepo-$sid.log); ni=$(grep '^VIOLATION' /tmp/inrepo-$sid.log | grep -vc 'no-failing-input-found')
  echo "{\"id\": \"$sid\", \"how\": \"git -C /repo apply; ./check $P --tier quick; git -C /repo checkout -- .\", \"exit\": $rc, \"violation_lines\": $nv, \"with_failing_input\": $ni, \"repo_clean_afterwards\": $([ -z "$(git -C /repo status --porcelain)" ] && echo true || echo false)}" > /verif/seeded/$sid/inrepo.json
  cat /verif/seeded/$sid/inrepo.json
done
git -C /verif checkout -- evidence
