#!/usr/bin/env python3
"""Shared machinery of the /verif checks: builds, translators, program sets,
Coq evaluation of cases, evidence, violation reporting."""
import os, sys, re, json, time, hashlib, subprocess, shutil, fcntl, ast, glob
from concurrent.futures import ThreadPoolExecutor

TOOLS = os.path.dirname(os.path.abspath(__file__))
VERIF = os.path.dirname(TOOLS)
REPO = '/repo'
CACHE = os.path.join(VERIF, '.cache')
COQ = os.path.join(VERIF, 'coq')
TARGET = os.path.join(CACHE, 'target')
GUARD = 'solstat_verif'
NPROC = 16
sys.path.insert(0, TOOLS)

ENV = dict(os.environ)
ENV.update({'CARGO_NET_OFFLINE': 'true', 'CARGO_TARGET_DIR': TARGET,
            'RUSTFLAGS': '--cfg %s' % GUARD, 'CARGO_TERM_COLOR': 'never'})

# Coverage measurement of the implementation by the correspondence inputs (tools/coverage.py): with VERIF_COVERAGE=1 the
# harness and the solstat binary are built with -C instrument-coverage into separate target directories and every run
# of them leaves a raw profile under .cache/cov/.  Never set by a registered check.
COVERAGE = os.environ.get('VERIF_COVERAGE') == '1'
COVDIR = os.path.join(CACHE, 'cov')
if COVERAGE:
    TARGET = os.path.join(CACHE, 'target-cov')
    ENV['CARGO_TARGET_DIR'] = TARGET
    ENV['RUSTFLAGS'] += ' -C instrument-coverage'
    os.makedirs(COVDIR, exist_ok=True)
    os.environ['LLVM_PROFILE_FILE'] = ENV['LLVM_PROFILE_FILE'] = os.path.join(COVDIR, '%p-%m.profraw')

T0 = time.time()


def log(*a):
    print('[%6.1fs]' % (time.time() - T0), *a, file=sys.stderr, flush=True)


class Lock:
    def __init__(self, name):
        os.makedirs(CACHE, exist_ok=True)
        self.path = os.path.join(CACHE, name + '.lock')

    def __enter__(self):
        self.f = open(self.path, 'w')
        fcntl.flock(self.f, fcntl.LOCK_EX)
        return self

    def __exit__(self, *a):
        fcntl.flock(self.f, fcntl.LOCK_UN)
        self.f.close()


def sh(cmd, cwd=None, env=None, timeout=None, inp=None):
    if 'coqc' in cmd or 'make' in cmd:
        # deep parse trees / long definition lists need more than the default 8 MiB stack in coqc
        cmd = ['bash', '-c', 'ulimit -s unlimited 2>/dev/null || ulimit -s 4000000 2>/dev/null; exec "$@"', 'bash'] + list(cmd)
    p = subprocess.run(cmd, cwd=cwd, env=env or ENV, timeout=timeout, input=inp,
                       stdout=subprocess.PIPE, stderr=subprocess.STDOUT, text=True)
    return p.returncode, p.stdout


def write_if_changed(path, content):
    if os.path.exists(path) and open(path).read() == content:
        return False
    os.makedirs(os.path.dirname(path), exist_ok=True)
    open(path, 'w').write(content)
    return True


def repo_hash():
    h = hashlib.sha256()
    files = []
    for root in ['src', 'docs']:
        for dp, dn, fn in os.walk(os.path.join(REPO, root)):
            for f in fn:
                files.append(os.path.join(dp, f))
    for f in ['Cargo.toml', 'Cargo.lock', 'Solstat.toml', 'README.md']:
        files.append(os.path.join(REPO, f))
    for f in sorted(files):
        if os.path.exists(f):
            h.update(f.encode())
            h.update(open(f, 'rb').read())
    return h.hexdigest()[:16]


# ----------------------------------------------------------------------------- builds
class BuildError(Exception):
    pass


GEN_ERRORS = {}


HARNESS_BINS = ['vharness', 'vh_dir', 'vh_report', 'vh_digest', 'vnames']
HARNESS_FAILED = {}


def build_harness(release=False):
    """cargo build of the harness crate against /repo's current working tree.  If the crate as a whole does not
    build (a public signature changed), the binaries are built one by one: a check then fails only if a binary
    IT needs cannot be built (need_bin), not because an unrelated binary broke."""
    with Lock('cargo'):
        hdir = os.path.join(VERIF, 'harness')
        shutil.copyfile(os.path.join(REPO, 'Cargo.lock'), os.path.join(hdir, 'Cargo.lock'))
        prof = 'release' if release else 'debug'
        cmd = ['cargo', 'build', '--offline'] + (['--release'] if release else [])
        rc, out = sh(cmd, cwd=hdir, timeout=1800)
        if rc != 0:
            for b in HARNESS_BINS:
                rc1, out1 = sh(cmd + ['--bin', b], cwd=hdir, timeout=1800)
                if rc1 != 0:
                    HARNESS_FAILED[(b, prof)] = out1[-3000:]
                    try:
                        os.remove(os.path.join(TARGET, prof, b))      # no stale binary of an earlier build
                    except OSError:
                        pass
            if ('vharness', prof) in HARNESS_FAILED:
                raise BuildError('harness build failed:\n' + HARNESS_FAILED[('vharness', prof)])
        return os.path.join(TARGET, prof, 'vharness')


def need_bin(name, release=False):
    """path of a harness binary, or BuildError with the compiler output when it could not be built"""
    prof = 'release' if release else 'debug'
    if (name, prof) in HARNESS_FAILED:
        raise BuildError('harness binary %s does not build against the current tree:\n%s' % (name, HARNESS_FAILED[(name, prof)]))
    p = os.path.join(TARGET, prof, name)
    if not os.path.exists(p):
        raise BuildError('harness binary %s is missing' % name)
    return p


def build_solstat_bin():
    """the real solstat binary, built from /repo's working tree into our target dir"""
    with Lock('cargo'):
        env = dict(ENV)
        tdir = os.path.join(CACHE, 'target-bin-cov' if COVERAGE else 'target-bin')
        env['CARGO_TARGET_DIR'] = tdir
        rc, out = sh(['cargo', 'build', '--offline', '--bin', 'solstat', '--manifest-path',
                      os.path.join(REPO, 'Cargo.toml')], env=env, timeout=1800)
        if rc != 0:
            raise BuildError('solstat build failed:\n' + out[-4000:])
        return os.path.join(tdir, 'debug', 'solstat')


def regen():
    """run the translators; gen files are rewritten only when their content changes"""
    import pt2coq
    changed = []
    tmp = os.path.join(CACHE, 'gen_tmp')
    os.makedirs(tmp, exist_ok=True)
    pt2coq.main(os.path.join(tmp, 'Pt.v'))
    if write_if_changed(os.path.join(COQ, 'gen', 'Pt.v'), open(os.path.join(tmp, 'Pt.v')).read()):
        changed.append('Pt.v')
    global GEN_ERRORS
    GEN_ERRORS = {}
    for path in sorted(glob.glob(os.path.join(TOOLS, '*2coq.py'))):
        mod = os.path.basename(path)[:-3]
        if mod in ('pt2coq', 'dbg2coq'):
            continue
        fname = mod[:-4].capitalize() + '.v'
        try:
            m = __import__(mod)
            txt = m.generate()
        except Exception as e:
            # a translator that cannot read the source any more: the obligations over this table are NOT re-established
            # (every check whose theorems depend on it reports that, see checks/common.prepare).  The file of the last
            # readable tree (in a fresh sandbox: the committed one) is kept, so that the correspondence can still search
            # for a concrete input on which the property now fails.
            GEN_ERRORS[fname] = '%s: %r' % (mod, e)
            log('translator %s failed: %r' % (mod, e))
            continue
        if write_if_changed(os.path.join(COQ, 'gen', fname), txt):
            changed.append(fname)
    return changed


SNAPSHOT_USED = {}


def with_snapshot(name, live_fn):
    """tables read from /repo by a translator for the Python side of the checks; when the translator cannot read the
    current source, the tables of the last readable tree (coq/gen/<name>.snapshot, committed) are used instead - only
    to search for a failing input; the broken tie is reported by the check (SNAPSHOT_USED / GEN_ERRORS)"""
    import pickle
    path = os.path.join(COQ, 'gen', name + '.snapshot')
    try:
        val = live_fn()
    except Exception as e:
        SNAPSHOT_USED[name] = repr(e)
        log('translator tables %s unavailable (%r): using the snapshot of the last readable tree' % (name, e))
        if os.path.exists(path):
            return pickle.load(open(path, 'rb'))
        raise
    data = pickle.dumps(val, protocol=4)
    if not os.path.exists(path) or open(path, 'rb').read() != data:
        open(path, 'wb').write(data)
    return val


def module_deps(mod, seen=None):
    """transitive `From Solstat Require Import` closure of a Coq module of the development"""
    seen = set() if seen is None else seen
    f = coq_file_of(mod)
    if f is None or mod in seen:
        return seen
    seen.add(mod)
    src = re.sub(r'\(\*.*?\*\)', '', open(f).read(), flags=re.S)
    for m in re.finditer(r'From\s+Solstat\s+Require\s+(?:Import|Export)\s+([^.]*)\.', src):
        for d in m.group(1).split():
            module_deps(d, seen)
    return seen


def write_coqproject():
    """_CoqProject lists every .v under gen/ model/ spec/ proofs/ (props/ are compiled per check)"""
    lines = ['-Q model Solstat', '-Q gen Solstat', '-Q spec Solstat', '-Q proofs Solstat', '-Q props Solstat']
    for d in ['model', 'gen', 'spec', 'proofs']:
        for f in sorted(glob.glob(os.path.join(COQ, d, '*.v'))):
            lines.append(os.path.relpath(f, COQ))
    return write_if_changed(os.path.join(COQ, '_CoqProject'), '\n'.join(lines) + '\n')


def build_coq(timeout=2400):
    """full .vo build of the theory (incremental through make; -k: a file that does not
    compile only breaks the properties whose props/<id>.v depends on it)"""
    with Lock('coq'):
        changed = write_coqproject()
        if changed or not os.path.exists(os.path.join(COQ, 'Makefile')):
            rc, out = sh(['coq_makefile', '-f', '_CoqProject', '-o', 'Makefile'], cwd=COQ)
            if rc != 0:
                raise BuildError('coq_makefile failed: ' + out)
        rc, out = sh(['timeout', str(timeout), 'make', '-k', '-j%d' % NPROC], cwd=COQ, timeout=timeout + 60)
        return rc == 0, out


COQ_INCLUDES = ['-Q', os.path.join(COQ, 'model'), 'Solstat', '-Q', os.path.join(COQ, 'gen'), 'Solstat',
                '-Q', os.path.join(COQ, 'spec'), 'Solstat', '-Q', os.path.join(COQ, 'proofs'), 'Solstat',
                '-Q', os.path.join(COQ, 'props'), 'Solstat']

FORBIDDEN = re.compile(r'\b(Admitted|admit|Axiom|Axioms|Parameter|Parameters|Conjecture|Conjectures|Unset Guard|bypass_check|Admit Obligations|type-in-type|impredicative-set)\b')


def coq_file_of(mod):
    for d in ['model', 'gen', 'spec', 'proofs', 'props']:
        f = os.path.join(COQ, d, mod + '.v')
        if os.path.exists(f):
            return f
    return None


def deps_of(path, seen=None):
    """transitive closure of `From Solstat Require Import ...` starting at a .v file"""
    seen = seen if seen is not None else {}
    if path in seen:
        return seen
    txt = re.sub(r'\(\*.*?\*\)', '', open(path).read(), flags=re.S)
    seen[path] = txt
    for m in re.finditer(r'From\s+Solstat\s+Require\s+(?:Import|Export)\s+([^.]+)\.', txt):
        for mod in m.group(1).split():
            f = coq_file_of(mod)
            if f:
                deps_of(f, seen)
    return seen


def audit_sources(prop=None):
    """no Admitted/Axiom/... in the files the property's theorems depend on
    (all files when prop is None); no Variable/Hypothesis outside a section"""
    bad = []
    if prop and os.path.exists(os.path.join(COQ, 'props', prop + '.v')):
        files = deps_of(os.path.join(COQ, 'props', prop + '.v'))
    else:
        files = {}
        for path in glob.glob(os.path.join(COQ, '**', '*.v'), recursive=True):
            if '/cases/' not in path:
                files[path] = re.sub(r'\(\*.*?\*\)', '', open(path).read(), flags=re.S)
    for path, txt in files.items():
        for m in FORBIDDEN.finditer(txt):
            bad.append('%s: %s' % (os.path.relpath(path, COQ), m.group(0)))
        depth = 0
        for line in txt.split('\n'):
            s_ = line.strip()
            if re.match(r'^Section\s', s_):
                depth += 1
            elif re.match(r'^End\s', s_) and depth > 0:
                depth -= 1
            elif re.match(r'^(Variable|Variables|Hypothesis|Hypotheses|Context)\b', s_) and depth == 0:
                bad.append('%s: %s outside a section' % (os.path.relpath(path, COQ), s_.split()[0]))
    return bad


ALLOWED_AXIOMS = set()   # none: every property theorem must be closed under the global context


def check_props(prop):
    """compile coq/props/<prop>*.v each on its own, capturing Print Assumptions output.
    -> dict(ok, obligations, discharged, axioms, theorems, log)"""
    paths = sorted(glob.glob(os.path.join(COQ, 'props', prop + '.v')) + glob.glob(os.path.join(COQ, 'props', prop + '_*.v')))
    if not paths:
        return {'ok': False, 'obligations': 0, 'discharged': 0, 'axioms': [], 'theorems': [], 'closed': 0,
                'log': 'missing coq/props/%s.v' % prop, 'rc': 1, 'unprinted': []}
    tot = {'ok': True, 'obligations': 0, 'discharged': 0, 'axioms': [], 'theorems': [], 'closed': 0, 'log': '', 'rc': 0,
           'unprinted': [], 'files': [os.path.relpath(p, COQ) for p in paths]}
    for path in paths:
        with Lock('coq'):
            rc, out = sh(['timeout', '900', 'coqc', '-noglob'] + COQ_INCLUDES + [path], cwd=COQ, timeout=960)
        src = re.sub(r'\(\*.*?\*\)', '', open(path).read(), flags=re.S)
        thms = re.findall(r'^\s*(?:Theorem|Example|Corollary|Lemma)\s+([A-Za-z0-9_\']+)', src, flags=re.M)
        printed = re.findall(r'^\s*Print Assumptions\s+([A-Za-z0-9_\']+)', src, flags=re.M)
        closed = out.count('Closed under the global context')
        axioms = []
        for m in re.finditer(r'Axioms:\n((?:.+\n?)+?)(?=\n\S|\Z)', out):
            for line in m.group(1).split('\n'):
                mm = re.match(r'^([A-Za-z0-9_.\']+)\s*:', line)
                if mm:
                    axioms.append(mm.group(1))
        bad_ax = [a for a in axioms if a not in ALLOWED_AXIOMS]
        unprinted = sorted(set(thms) - set(printed))
        ok = (rc == 0) and not bad_ax and not unprinted and closed >= len(set(printed)) - (1 if axioms else 0) and len(thms) > 0
        tot['ok'] = tot['ok'] and ok
        tot['obligations'] += len(thms)
        tot['discharged'] += len(thms) if ok else 0
        tot['axioms'] += axioms
        tot['theorems'] += thms
        tot['closed'] += closed
        tot['unprinted'] += unprinted
        tot['rc'] = tot['rc'] or rc
        if not ok:
            tot['log'] += out[-2500:]
    return tot


def run_coqchk(prop):
    """coqchk -o -silent on every props/<prop>*.vo -> dict(ok, summary, axioms)"""
    res = {'ok': True, 'summary': '', 'axioms': [], 'files': []}
    for path in sorted(glob.glob(os.path.join(COQ, 'props', prop + '.v')) + glob.glob(os.path.join(COQ, 'props', prop + '_*.v'))):
        mod = os.path.basename(path)[:-2]
        rc, out = sh(['timeout', '1800', 'coqchk', '-o', '-silent'] + COQ_INCLUDES + ['Solstat.' + mod], cwd=COQ, timeout=1900)
        res['files'].append(mod)
        ax = re.search(r'\* Axioms:(.*?)\n\s*\n', out, flags=re.S)
        axt = ' '.join(ax.group(1).split()) if ax else '?'
        tit = re.search(r'type-in-type:(.*?)\n\s*\n', out, flags=re.S)
        unsafe = re.search(r'unsafe \(co\)fixpoints:(.*?)\n\s*\n', out, flags=re.S)
        pos = re.search(r'positivity is assumed:(.*?)\n\s*\n', out, flags=re.S)
        fine = rc == 0 and axt == '<none>' and all(m and ' '.join(m.group(1).split()) == '<none>' for m in (tit, unsafe, pos))
        res['ok'] = res['ok'] and fine
        res['axioms'].append(axt)
        res['summary'] += '%s: rc=%d axioms=%s; ' % (mod, rc, axt)
        if not fine:
            res['summary'] += out[-400:]
    return res


# ----------------------------------------------------------------------------- coq values
def coqval(s):
    """parse a printed Coq value made of N numerals, bools, lists, tuples, strings"""
    s = s.strip()
    s = re.sub(r'%[A-Za-z_]+', '', s)
    s = s.replace(';', ',').replace('true', 'True').replace('false', 'False')
    s = re.sub(r'\bNone\b', 'None', s)
    s = re.sub(r'\bSome\s+', '', s)
    return ast.literal_eval(s)


def parse_coq_output(out):
    """values of successive `Eval ... in` commands"""
    vals = []
    cur = None
    for line in out.split('\n'):
        if line.startswith('     = '):
            cur = [line[7:]]
        elif line.startswith('     : ') and cur is not None:
            vals.append(' '.join(cur))
            cur = None
        elif cur is not None:
            cur.append(line.strip())
    return vals


def coq_list(items):
    return '[' + '; '.join(items) + ']'


def coq_pairs(pairs):
    return coq_list('(%d, %d)' % (a, b) for a, b in pairs)


def coq_triples(tr):
    return coq_list('(%d, %d, %d)' % t for t in tr)


def coq_nums(ns):
    return coq_list(str(n) for n in ns)


def coq_str(b):
    import dbg2coq
    if isinstance(b, str):
        b = b.encode('utf-8')
    return dbg2coq.coq_string(b)


# ----------------------------------------------------------------------------- program sets
SHARD = 60

CASE_HEADER = '''From Coq Require Import List String NArith ZArith Bool.
Import ListNotations.
From Solstat Require Import %s.
Local Open Scope string_scope.
Local Open Scope N_scope.
Local Open Scope list_scope.
Set Printing Width 10000000.
Set Printing Depth 10000000.
'''


def run_prog(harness, wd, flags=(), timeout=3600):
    """vharness prog on every *.sol of wd.  If the harness process dies (stack overflow, abort - it cannot be caught
    inside the process) the file it was working on gets a result `parse ok / hang process-died` (an abort like a panic for
    the checks) and the harness is started again on the files that have no result yet, so that one aborting input costs
    one restart instead of the whole run.  -> (0, log) or (rc, log) when the harness cannot be run at all"""
    log_all = ''
    for _ in range(50):
        rc, out = sh([harness, 'prog', wd] + list(flags), timeout=timeout)
        log_all += out[-2000:]
        if rc == 0:
            return 0, log_all
        sols = sorted(f for f in os.listdir(wd) if f.endswith('.sol'))
        missing = [f for f in sols if not os.path.exists(os.path.join(wd, f[:-4] + '.res'))]
        if not missing:
            return rc, log_all
        culprit = missing[0]
        head = 'parse ok\n'
        if 'nodump' not in flags:
            # the tree of the culprit, obtained without running any analysis on it
            one = os.path.join(wd, '.one')
            shutil.rmtree(one, ignore_errors=True)
            os.makedirs(one)
            shutil.copyfile(os.path.join(wd, culprit), os.path.join(one, '00000.sol'))
            rc1, _ = sh([harness, 'prog', one, 'dumponly'], timeout=600)
            rp = os.path.join(one, '00000.res')
            if rc1 == 0 and os.path.exists(rp):
                head = open(rp, encoding='utf-8').read()
            shutil.rmtree(one, ignore_errors=True)
        open(os.path.join(wd, culprit[:-4] + '.res'), 'w', encoding='utf-8').write(head + 'hang process-died(rc=%d)\n' % rc)
        # results exist for everything before the culprit; hide the finished files from the next round
        done_dir = os.path.join(wd, '.done')
        os.makedirs(done_dir, exist_ok=True)
        for f in sols:
            if os.path.exists(os.path.join(wd, f[:-4] + '.res')):
                os.rename(os.path.join(wd, f), os.path.join(done_dir, f))
        if len(missing) == 1:
            break
    # put the sources back next to their results
    done_dir = os.path.join(wd, '.done')
    if os.path.isdir(done_dir):
        for f in os.listdir(done_dir):
            os.rename(os.path.join(done_dir, f), os.path.join(wd, f))
        os.rmdir(done_dir)
    return 0, log_all


def parse_res(txt):
    r = {'det': {}, 'lines': {}, 'walk': {}, 'parse': None, 'dump': None, 'version': None}
    for line in txt.split('\n'):
        if not line:
            continue
        key, _, rest = line.partition(' ')
        if key == 'hang':
            # the analysis did not terminate on this file within the harness' time limit: for the checks this is an
            # abort like a panic (every result that is missing is PANIC); the detector that was running is recorded
            r['hang'] = rest.strip()
        elif key == 'parse':
            r['parse'] = rest
        elif key == 'dump':
            r['dump'] = rest
        elif key == 'det' or key == 'lines':
            name, _, rest2 = rest.partition(' ')
            status, _, vals = rest2.partition(' ')
            if status == 'PANIC':
                r[key][name] = 'PANIC'
            elif key == 'det':
                r[key][name] = [tuple(int(x) for x in v.split(':')) for v in vals.split()]
            else:
                r[key][name] = [int(v) for v in vals.split()]
        elif key == 'version':
            r['version'] = rest
        elif key == 'walk':
            name, _, vals = rest.partition(' ')
            if name == 'PANIC':
                r['walk'] = 'PANIC'
            elif name == 'subskipped':
                r['walk']['sub'] = None
            elif name == 'subx':
                r['walk']['subx'] = int(vals.strip() or 0)
            elif name in ('sub', 'single'):
                r['walk'][name] = [int(v) for v in vals.split()]
            else:
                r['walk'][name] = [tuple(int(x) for x in v.split(':')) for v in vals.split()]
    if r.get('hang') is not None:
        import checks.det_common as _dc
        for n in _dc.DETS:
            r['det'].setdefault(n, 'PANIC')
            r['lines'].setdefault(n, 'PANIC')
        r['walk'] = 'PANIC'
    return r


class ProgSet:
    """A list of Solidity programs; their parse trees as compiled Coq definitions
    (cached by content); implementation results from the harness."""

    def __init__(self, progs, name):
        self.all = progs
        self.name = name
        h = hashlib.sha256()
        import pt2coq
        h.update(b'v2')
        h.update(open(os.path.join(TOOLS, 'pt2coq.py'), 'rb').read())
        h.update(open(os.path.join(TOOLS, 'dbg2coq.py'), 'rb').read())
        h.update(open(os.path.join(COQ, 'gen', 'Pt.v'), 'rb').read())
        for dep in ('Lift.v', 'Walk.v', 'Cases.v', 'Bytes.v'):       # the compiled program shards import these
            f = os.path.join(COQ, 'model', dep)
            if os.path.exists(f):
                h.update(open(f, 'rb').read())
        for p in progs:
            h.update(p['src'].encode('utf-8'))
            h.update(b'\0')
        self.key = h.hexdigest()[:20]
        self.dir = os.path.join(CACHE, 'progs', name + '-' + self.key)
        self.progs = None     # parseable programs
        self.rejected = 0

    def module(self, k):
        return 'progs_%s_%d' % (re.sub(r'\W', '_', self.name), k)

    def ensure(self, harness):
        """dump + Coq terms + compiled shards (cached)"""
        import dbg2coq
        done = os.path.join(self.dir, 'DONE')
        with Lock('progs-' + self.name):
            if not os.path.exists(done):
                shutil.rmtree(self.dir, ignore_errors=True)
                os.makedirs(os.path.join(self.dir, 'src'))
                for i, p in enumerate(self.all):
                    open(os.path.join(self.dir, 'src', '%05d.sol' % i), 'w', encoding='utf-8', newline='').write(p['src'])
                rc, out = run_prog(harness, os.path.join(self.dir, 'src'))
                if rc != 0:
                    raise BuildError('harness prog failed: ' + out[-2000:])
                meta = []
                terms = []
                srcs = []
                for i, p in enumerate(self.all):
                    res = parse_res(open(os.path.join(self.dir, 'src', '%05d.res' % i), encoding='utf-8').read())
                    if res['parse'] != 'ok':
                        meta.append({'i': i, 'ok': False})
                        continue
                    term, nodes, depth = dbg2coq.convert(res['dump'])
                    meta.append({'i': i, 'ok': True, 'nodes': nodes, 'depth': depth, 'j': len(terms)})
                    terms.append(term)
                    srcs.append(p['src'])
                nsh = (len(terms) + SHARD - 1) // SHARD
                for k in range(nsh):
                    lines = [CASE_HEADER % 'Lift Pt Cases']
                    for j in range(k * SHARD, min(len(terms), (k + 1) * SHARD)):
                        lines.append('Definition p%d : SourceUnit := %s.' % (j, terms[j]))
                        lines.append('Definition s%d : string := %s.' % (j, coq_str(srcs[j])))
                    open(os.path.join(self.dir, self.module(k) + '.v'), 'w', encoding='utf-8').write('\n'.join(lines) + '\n')

                def comp(k):
                    return sh(['timeout', '1200', 'coqc', '-noglob'] + COQ_INCLUDES + ['-Q', self.dir, 'Progs',
                                                                                     os.path.join(self.dir, self.module(k) + '.v')],
                              timeout=1300)
                with ThreadPoolExecutor(NPROC) as ex:
                    for k, (rc, out) in enumerate(ex.map(comp, range(nsh))):
                        if rc != 0:
                            raise BuildError('coqc of program shard %d failed: %s' % (k, out[-3000:]))
                json.dump(meta, open(os.path.join(self.dir, 'meta.json'), 'w'))
                open(done, 'w').write('ok')
                # sources of .res are implementation-dependent: remove
                for f in glob.glob(os.path.join(self.dir, 'src', '*.res')):
                    os.remove(f)
        meta = json.load(open(os.path.join(self.dir, 'meta.json')))
        self.progs = []
        for m in meta:
            if m['ok']:
                p = dict(self.all[m['i']])
                p.update({'idx': m['i'], 'j': m['j'], 'nodes': m['nodes'], 'depth': m['depth']})
                self.progs.append(p)
        self.rejected = len(meta) - len(self.progs)
        return self

    def run_impl(self, harness, walk=False, tag='impl'):
        """run the implementation on every parseable program -> list of parsed results"""
        wd = os.path.join(CACHE, 'run', '%s-%s-%d' % (self.name, tag, os.getpid()))
        shutil.rmtree(wd, ignore_errors=True)
        os.makedirs(wd)
        for p in self.progs:
            open(os.path.join(wd, '%05d.sol' % p['j']), 'w', encoding='utf-8', newline='').write(p['src'])
        rc, out = run_prog(harness, wd, ['nodump'] + (['walk'] if walk else []))
        if rc != 0:
            raise BuildError('harness prog failed: ' + out[-2000:])
        res = []
        for p in self.progs:
            res.append(parse_res(open(os.path.join(wd, '%05d.res' % p['j']), encoding='utf-8').read()))
        shutil.rmtree(wd, ignore_errors=True)
        return res

    def coq_eval(self, exprs, imports, tag):
        """exprs[j] = list of Coq expressions (strings) about program p<j>;
        returns list (per program) of lists of parsed values"""
        nsh = (len(self.progs) + SHARD - 1) // SHARD
        wd = os.path.join(CACHE, 'cases', '%s-%s-%d' % (self.name, tag, os.getpid()))
        shutil.rmtree(wd, ignore_errors=True)
        os.makedirs(wd)
        counts = []
        for k in range(nsh):
            lines = [CASE_HEADER % imports, 'From Progs Require Import %s.' % self.module(k)]
            for j in range(k * SHARD, min(len(self.progs), (k + 1) * SHARD)):
                for e in exprs[j]:
                    lines.append('Eval vm_compute in (%s).' % e)
            open(os.path.join(wd, 'cases_%d.v' % k), 'w', encoding='utf-8').write('\n'.join(lines) + '\n')

        def run(k):
            return sh(['timeout', '1200', 'coqc', '-noglob'] + COQ_INCLUDES + ['-Q', self.dir, 'Progs',
                                                                             os.path.join(wd, 'cases_%d.v' % k)], timeout=1300)
        results = []
        with ThreadPoolExecutor(NPROC) as ex:
            outs = list(ex.map(run, range(nsh)))
        for k, (rc, out) in enumerate(outs):
            if rc != 0:
                raise BuildError('coqc of cases shard %d failed: %s' % (k, out[-3000:]))
            vals = parse_coq_output(out)
            pos = 0
            for j in range(k * SHARD, min(len(self.progs), (k + 1) * SHARD)):
                n = len(exprs[j])
                results.append([coqval(v) for v in vals[pos:pos + n]])
                pos += n
            if pos != len(vals):
                raise BuildError('unexpected number of values from shard %d' % k)
        shutil.rmtree(wd, ignore_errors=True)
        return results


def coq_eval_plain(defs_and_exprs, imports, tag, extra_q=None):
    """evaluate expressions that need no program set: list of shards, each a list of
    lines (Definitions) / ('eval', expr).  Returns list of lists of values."""
    wd = os.path.join(CACHE, 'cases', '%s-%d' % (tag, os.getpid()))
    shutil.rmtree(wd, ignore_errors=True)
    os.makedirs(wd)
    for k, shard in enumerate(defs_and_exprs):
        lines = [CASE_HEADER % imports]
        for it in shard:
            if isinstance(it, tuple):
                lines.append('Eval vm_compute in (%s).' % it[1])
            else:
                lines.append(it)
        open(os.path.join(wd, 'plain_%d.v' % k), 'w', encoding='utf-8').write('\n'.join(lines) + '\n')

    def run(k):
        return sh(['timeout', '1800', 'coqc', '-noglob'] + COQ_INCLUDES + (extra_q or []) +
                  [os.path.join(wd, 'plain_%d.v' % k)], timeout=1900)
    with ThreadPoolExecutor(NPROC) as ex:
        outs = list(ex.map(run, range(len(defs_and_exprs))))
    res = []
    for k, (rc, out) in enumerate(outs):
        if rc != 0:
            raise BuildError('coqc of plain shard %d failed: %s' % (k, out[-3000:]))
        res.append([coqval(v) for v in parse_coq_output(out)])
    shutil.rmtree(wd, ignore_errors=True)
    return res


# ----------------------------------------------------------------------------- known findings
def known_findings():
    """lines of /verif/known_findings.txt -> list of dicts"""
    out = []
    path = os.path.join(VERIF, 'known_findings.txt')
    if not os.path.exists(path):
        return out
    for line in open(path):
        line = line.strip()
        if not line or line.startswith('#'):
            continue
        kind, _, rest = line.partition(':')
        d = {'kind': kind.strip(), 'text': rest.strip()}
        for m in re.finditer(r'(\w+)=(\S+)', rest):
            d.setdefault(m.group(1), m.group(2))
        out.append(d)
    return out


# ----------------------------------------------------------------------------- reporting
class Report:
    def __init__(self, prop, tier, seed):
        self.prop = prop
        self.tier = tier
        self.seed = seed
        self.violations = []
        self.known = []
        self.coverage = {'evaluations': 0, 'distinct_nontrivial': 0, 'rule': '', 'samples': [],
                         'obligations': 0, 'discharged': 0, 'checker_cmd': '', 'trusted_base': []}
        self.assumptions = []
        self.t0 = time.time()

    def violation(self, what, replay_obj, no_input=False):
        os.makedirs(os.path.join(VERIF, 'replays'), exist_ok=True)
        n = len(self.violations)
        path = os.path.join(VERIF, 'replays', '%s-%d.json' % (self.prop, n))
        replay_obj = dict(replay_obj)
        replay_obj.update({'property': self.prop, 'what': what, 'seed': self.seed, 'tier': self.tier,
                           'replay_cmd': './check %s --replay %s' % (self.prop, path)})
        json.dump(replay_obj, open(path, 'w'), indent=1, ensure_ascii=False)
        self.violations.append((what, path, no_input))
        print('VIOLATION property=%s replay=%s%s' % (self.prop, path, ' no-failing-input-found' if no_input else ''), flush=True)

    def known_finding(self, what):
        self.known.append(what)
        print('KNOWN-FINDING: property=%s %s' % (self.prop, what), flush=True)

    def finish(self):
        ev = {'property_id': self.prop, 'tier': self.tier, 'seed': self.seed, 'level': 'proof',
              'coverage': self.coverage, 'assumptions': self.assumptions,
              'wall_s': round(time.time() - self.t0, 2), 'violations': len(self.violations)}
        if self.known:
            ev['coverage']['known_findings_reported'] = self.known
        # keys typed by EVIDENCE.schema.json must keep their type; anything else is kept under <key>_detail
        types = {'evaluations': int, 'distinct_nontrivial': int, 'rule': str, 'samples': list, 'states': int,
                 'transitions': int, 'traces_validated_against_impl': int, 'obligations': int, 'discharged': int,
                 'checker_cmd': str, 'trusted_base': list, 'programs': int, 'disagreements_checked': int,
                 'explanation': str, 'exhaustive': bool}
        for k, t in types.items():
            if k in ev['coverage']:
                v = ev['coverage'][k]
                if not isinstance(v, t) or (t is int and isinstance(v, bool)):
                    ev['coverage'][k + '_detail'] = ev['coverage'].pop(k)
        if 'samples' not in ev['coverage'] or not ev['coverage']['samples']:
            ev['coverage']['samples'] = [ev['coverage'].get('samples_detail', 'none recorded')]
        os.makedirs(os.path.join(VERIF, 'evidence'), exist_ok=True)
        json.dump(ev, open(os.path.join(VERIF, 'evidence', self.prop + '.json'), 'w'), indent=1, ensure_ascii=False)
        return 1 if self.violations else 0


TRUSTED_BASE = [
    'Coq 8.16.1 kernel and its vm_compute reduction machine (no native_compute); standard library only',
    'no axioms: every property theorem prints "Closed under the global context" (checked on every run)',
    'translators tools/pt2coq.py, tables2coq.py, sections2coq.py, effects2coq.py (declarations/tables only)',
    'correspondence check: harness/src/main.rs, tools/dbg2coq.py (derive(Debug) text -> Coq term), tools/gen_programs.py, tools/vlib.py',
    'modelled, not verified: solang-parser (oracle), regex/toml/clap semantics, HashMap/HashSet/BTreeSet/Vec::sort semantics, the OS file system, Rust integer semantics as written in the model',
    'extraction is not used',
]
