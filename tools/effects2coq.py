#!/usr/bin/env python3
"""effects2coq.py -> coq/gen/Effects.v : inventory of the places where solstat can touch the file
system, the process, the environment or shared mutable state (properties C18, C15).

Token scan of every *.rs under /repo/src (tools/rustlex.py: comments and string literals are not
tokens, so text inside them is never counted).  Reported, in file order then source order:

  fs::<f>  File::<f>  OpenOptions  process::<f>  Command  env::<f>  thread::<f>  .spawn( / ::spawn(
  path methods that ask the file system:  .is_dir() .is_file() .exists() .metadata() .read_dir()
                                          .canonicalize() .read_link() .symlink_metadata() .try_exists() .file_type()
  the words remove_file remove_dir remove_dir_all create_dir create_dir_all rename set_permissions
            hard_link soft_link symlink copy  when used as a path segment or method (after `::` or `.`)
  SystemTime Instant UNIX_EPOCH RandomState thread_rng getrandom chrono rand::  (clock and randomness; class process)
  static <NAME>   unsafe   thread_local   lazy_static   OnceCell OnceLock Lazy LazyLock
  Mutex RwLock RefCell Cell UnsafeCell Condvar Atomic*    static mut

`use` declarations are skipped (an import alone has no effect; every use site is still seen because
the imported last segment is what the scan looks for: File::, OpenOptions, Command, remove_file ...).
A name imported under an alias (`use std::fs as f`, `use std::fs::write as w`) would escape the scan:
aliases of the watched names are therefore reported as `alias <name>` in shared_state so that the
theorem `no_shared_state` stops checking.

Not seen by a token scan: effects inside dependencies and inside macros defined elsewhere.  The
snapshot runs of tools/checks/c18.py are the backstop for those."""
import os, sys, glob
sys.path.insert(0, os.path.dirname(os.path.abspath(__file__)))
import rustlex as rl

REPO = '/repo'

READ_FNS = {'read_dir', 'read_to_string', 'read', 'metadata', 'symlink_metadata', 'canonicalize', 'read_link',
            'try_exists', 'open'}
PATH_METHODS = {'is_dir', 'is_file', 'exists', 'metadata', 'read_dir', 'canonicalize', 'read_link',
                'symlink_metadata', 'try_exists', 'is_symlink', 'file_type'}
# sources of values that differ from process to process or from moment to moment
NONDET_WORDS = {'SystemTime', 'Instant', 'UNIX_EPOCH', 'RandomState', 'thread_rng', 'getrandom', 'chrono', 'OsRng', 'StdRng'}
WRITE_WORDS = {'remove_file', 'remove_dir', 'remove_dir_all', 'create_dir', 'create_dir_all', 'rename',
               'set_permissions', 'hard_link', 'soft_link', 'symlink', 'copy', 'set_len', 'create', 'create_new',
               'set_current_dir'}
SHARED_WORDS = {'thread_local', 'lazy_static', 'OnceCell', 'OnceLock', 'Lazy', 'LazyLock', 'Mutex', 'RwLock',
                'RefCell', 'Cell', 'UnsafeCell', 'Condvar', 'unsafe'}
WATCHED_MODULES = {'fs', 'File', 'process', 'env', 'OpenOptions', 'Command'}


def scan_file(path):
    toks = rl.lex(open(path, encoding='utf-8').read())
    out = []     # (class, api)
    i = 0
    n = len(toks)

    def tk(j):
        return toks[j][:2] if 0 <= j < n else (None, None)
    while i < n:
        k, t = tk(i)
        if (k, t) == ('id', 'use') and tk(i - 1) != ('p', '.'):
            # skip the declaration, but report aliases of watched names
            j = i
            while tk(j) != ('p', ';') and j < n:
                if tk(j) == ('id', 'as') and tk(j - 1)[0] == 'id':
                    prev = tk(j - 1)[1]
                    if prev in WATCHED_MODULES or prev in READ_FNS or prev in WRITE_WORDS or prev == 'write':
                        out.append(('shared', 'alias ' + prev))
                j += 1
            i = j + 1
            continue
        if k == 'id':
            nxt = tk(i + 1)
            nn = tk(i + 2)
            prev = tk(i - 1)
            if t in ('fs', 'File') and nxt == ('p', '::') and nn[0] == 'id':
                api = '%s::%s' % (t, nn[1])
                cls = 'read' if nn[1] in READ_FNS else 'write'
                out.append((cls, api))
                i += 3
                continue
            if t == 'OpenOptions':
                out.append(('write', 'OpenOptions'))
            elif t == 'process' and nxt == ('p', '::') and nn[0] == 'id':
                out.append(('process', 'process::' + nn[1]))
                i += 3
                continue
            elif t == 'Command':
                out.append(('process', 'Command'))
            elif t == 'thread' and nxt == ('p', '::') and nn[0] == 'id':
                out.append(('process', 'thread::' + nn[1]))
                i += 3
                continue
            elif t in ('spawn', 'scope') and prev in (('p', '::'), ('p', '.')) and nxt == ('p', '('):
                out.append(('process', 'thread ' + t))
            elif t == 'env' and nxt == ('p', '::') and nn[0] == 'id':
                out.append(('process', 'env::' + nn[1]))
                i += 3
                continue
            elif t in WRITE_WORDS and prev in (('p', '::'), ('p', '.')) and nxt == ('p', '('):
                out.append(('write', t))
            elif t in PATH_METHODS and prev == ('p', '.') and nxt == ('p', '('):
                out.append(('read', '.%s()' % t))
            elif t == 'static' and nxt[0] == 'id':
                name = nn[1] if nxt[1] == 'mut' and nn[0] == 'id' else nxt[1]
                out.append(('shared', 'static ' + ('mut ' if nxt[1] == 'mut' else '') + name))
            elif t in NONDET_WORDS or (t == 'rand' and nxt == ('p', '::')):
                out.append(('process', 'nondeterministic ' + t))
            elif t in SHARED_WORDS or t.startswith('Atomic'):
                out.append(('shared', t))
        i += 1
    return out


def inventory():
    files = sorted(glob.glob(os.path.join(REPO, 'src', '**', '*.rs'), recursive=True))
    if len(files) < 10 or not os.path.exists(os.path.join(REPO, 'src', 'main.rs')):
        raise ValueError('unexpected source layout under %s/src' % REPO)
    inv = []
    for f in files:
        rel = os.path.relpath(f, REPO)
        for cls, api in scan_file(f):
            inv.append((rel, cls, api))
    return inv, [os.path.relpath(f, REPO) for f in files]


def coq_pairs(items):
    if not items:
        return '[]'
    return '[\n' + ';\n'.join('    ("%s", "%s")' % (f, a) for f, a in items) + ' ]'


def generate():
    inv, files = inventory()
    for f, c, a in inv:
        if '"' in f or '"' in a or any(ord(ch) > 126 or ord(ch) < 32 for ch in f + a):
            raise ValueError('unexpected character in %r %r' % (f, a))
    L = ['(* GENERATED by tools/effects2coq.py: token scan of every *.rs under /repo/src.',
         '   Do not edit: rewritten on every check run. *)',
         'From Coq Require Import List String NArith.',
         'Import ListNotations.',
         'Local Open Scope string_scope.',
         '',
         '(* (file, API) in file order, then source order *)',
         'Definition effects_write : list (string * string) := %s.' % coq_pairs([(f, a) for f, c, a in inv if c == 'write']),
         '',
         'Definition effects_read : list (string * string) := %s.' % coq_pairs([(f, a) for f, c, a in inv if c == 'read']),
         '',
         'Definition effects_process : list (string * string) := %s.' % coq_pairs([(f, a) for f, c, a in inv if c == 'process']),
         '',
         'Definition shared_state : list (string * string) := %s.' % coq_pairs([(f, a) for f, c, a in inv if c == 'shared']),
         '',
         'Definition effects : list (string * string) := effects_write ++ effects_read ++ effects_process.',
         '',
         'Definition scanned_files : N := %d.' % len(files),
         '']
    return '\n'.join(L)


if __name__ == '__main__':
    sys.stdout.write(generate())
