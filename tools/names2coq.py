#!/usr/bin/env python3
"""names2coq.py -> coq/gen/Names.v : the name tables that property C14 is about.

Read from /repo (declarations and tables only, never control flow):
  src/analyzer/{optimizations,vulnerabilities,qa}/mod.rs
      enum <E> { V, ... }                       -> variant names, declaration order
      fn get_all_*  { vec![E::V, ...] }         -> default list (variant indices)
      fn str_to_*   { .. x.to_lowercase() .. match .. { "name" => E::V, ..., other => { panic!(..) } } }
                                                -> (name, variant index) arms in source order
      fn analyze_for_* { ... match v { E::V => .., } } -> variants that have a dispatch arm
  src/report/{optimization,vulnerability,qa}_report.rs
      fn get_*_report_section { match v { E::V => .., } } -> variants that have a section arm
  docs/identified-{optimizations,vulnerabilities,quality-assurance}.md
      first column of the markdown table      -> documented names
  Solstat.toml  optimizations / vulnerabilities / qa arrays, path -> sample-configuration names

generate() raises when an expected shape is missing (vlib.regen then removes Names.v and every
theorem that depends on it stops checking)."""
import os, re, sys
sys.path.insert(0, os.path.dirname(os.path.abspath(__file__)))
import rustlex as rl

REPO = '/repo'

CATS = [
    # key, dir, enum, get_all fn, str_to fn, analyze fn, report file, section fn, docs file, toml key
    ('opt', 'optimizations', 'Optimization', 'get_all_optimizations', 'str_to_optimization',
     'analyze_for_optimization', 'optimization_report.rs', 'get_optimization_report_section',
     'identified-optimizations.md', 'optimizations'),
    ('vul', 'vulnerabilities', 'Vulnerability', 'get_all_vulnerabilities', 'str_to_vulnerability',
     'analyze_for_vulnerability', 'vulnerability_report.rs', 'get_vulnerability_report_section',
     'identified-vulnerabilities.md', 'vulnerabilities'),
    ('qa', 'qa', 'QualityAssurance', 'get_all_qa', 'str_to_qa',
     'analyze_for_qa', 'qa_report.rs', 'get_qa_report_section',
     'identified-quality-assurance.md', 'qa'),
]


def read(path):
    return open(path, encoding='utf-8').read()


def enum_variants(toks, enum):
    hits = [i for i in range(len(toks) - 1) if toks[i][:2] == ('id', 'enum') and toks[i + 1][:2] == ('id', enum)]
    if len(hits) != 1:
        raise ValueError('expected exactly one `enum %s`' % enum)
    i = hits[0] + 2
    if toks[i][:2] != ('p', '{'):
        raise ValueError('enum %s: `{` expected' % enum)
    end = rl.skip_balanced(toks, i)
    i += 1
    out = []
    while i < end - 1:
        k, t, _ = toks[i]
        if k == 'p' and t == '#':              # attribute on a variant
            i = rl.skip_balanced(toks, i + 1)
            continue
        if k != 'id':
            raise ValueError('enum %s: variant name expected, got %r' % (enum, t))
        out.append(t)
        i += 1
        if i < end - 1 and toks[i][:2] == ('p', ','):
            i += 1
        elif i < end - 1:
            raise ValueError('enum %s: only field-less variants are expected (at %r)' % (enum, toks[i][1]))
    if not out or len(set(out)) != len(out):
        raise ValueError('enum %s: empty or repeated variants' % enum)
    return out


def variant_path(ts, enum):
    """tokens `Enum :: V` -> 'V', else None"""
    if len(ts) == 3 and ts[0][:2] == ('id', enum) and ts[1][:2] == ('p', '::') and ts[2][0] == 'id':
        return ts[2][1]
    return None


def get_all(toks, fn, enum):
    a, b = rl.find_fn(toks, fn)
    body = toks[a + 1:b - 1]
    # vec ! [ E::V , ... ]   (the whole body)
    if not (len(body) >= 3 and body[0][:2] == ('id', 'vec') and body[1][:2] == ('p', '!') and body[2][:2] == ('p', '[')):
        raise ValueError('%s: body is not a single vec![...]' % fn)
    end = rl.skip_balanced(body, 2)
    if end != len(body):
        raise ValueError('%s: tokens after vec![...]' % fn)
    items = []
    cur = []
    for t in body[3:end - 1]:
        if t[:2] == ('p', ','):
            items.append(cur)
            cur = []
        else:
            cur.append(t)
    if cur:
        items.append(cur)
    out = []
    for it in items:
        v = variant_path(it, enum)
        if v is None:
            raise ValueError('%s: element is not %s::<Variant>' % (fn, enum))
        out.append(v)
    return out


def find_match(toks, a, b, fn):
    """the single `match` inside tokens a..b -> (scrutinee tokens, index of its `{`)"""
    ms = [i for i in range(a, b) if toks[i][:2] == ('id', 'match')]
    if len(ms) != 1:
        raise ValueError('%s: expected exactly one match, found %d' % (fn, len(ms)))
    i = ms[0] + 1
    scrut = []
    while toks[i][:2] != ('p', '{'):
        if toks[i][0] == 'p' and toks[i][1] in '([':
            j = rl.skip_balanced(toks, i)
            scrut += toks[i:j]
            i = j
        else:
            scrut.append(toks[i])
            i += 1
    return scrut, i


def str_to_table_form(toks, fn, enum, a, b, param):
    """the other shape a name table is commonly written in: a constant array of ("name", Enum::Variant) pairs and a function
    body that lower-cases its parameter once, looks the result up in that array by equality and panics when it is absent:
        const NAMES: [(&str, E); n] = [("a", E::A), ...];
        fn str_to_x(p: &str) -> E { let n = p.to_lowercase(); NAMES.iter().find(|(k, _)| *k == n).map(|(_, v)| *v).unwrap_or_else(|| panic!(..)) }
    (the behaviour itself is tied by the correspondence check, not by this shape)"""
    body = [t[:2] for t in toks[a + 1:b]]
    if body.count(('id', 'to_lowercase')) != 1 or ('id', param) not in body:
        raise ValueError('%s: `%s.to_lowercase()` expected (once)' % (fn, param))
    for need in (('id', 'iter'), ('id', 'find'), ('id', 'panic')):
        if need not in body:
            raise ValueError('%s: table form expected `.iter().find(.. == ..)` and a panic!; `%s` missing' % (fn, need[1]))
    if not any(body[k] == ('p', '=') and body[k + 1] == ('p', '=') for k in range(len(body) - 1)):
        raise ValueError('%s: table form expected a lookup by `==`' % fn)
    if any(t[0] == 'str' for t in toks[a + 1:b] if not t[1].startswith('Unrec')) and False:
        raise ValueError('%s: unexpected string literal in the body' % fn)
    consts = [t[1] for t in toks[a + 1:b] if t[0] == 'id' and t[1].isupper() and len(t[1]) > 2]
    consts = list(dict.fromkeys(consts))
    if len(consts) != 1:
        raise ValueError('%s: expected exactly one constant table in the body, found %r' % (fn, consts))
    name = consts[0]
    # const NAME : <type> = [ ... ] ;
    starts = [i for i in range(len(toks) - 1) if toks[i][:2] == ('id', 'const') and toks[i + 1][:2] == ('id', name)]
    if len(starts) != 1:
        raise ValueError('%s: declaration of the constant %s not found (once)' % (fn, name))
    i = starts[0]
    while toks[i][:2] != ('p', '='):
        i += 1
    i += 1
    if toks[i][:2] == ('p', '&'):
        i += 1
    if toks[i][:2] != ('p', '['):
        raise ValueError('%s: %s is not an array literal' % (fn, name))
    end = rl.skip_balanced(toks, i)
    table = []
    j = i + 1
    while j < end - 1:
        if toks[j][:2] == ('p', ','):
            j += 1
            continue
        if toks[j][:2] != ('p', '('):
            raise ValueError('%s: %s: element is not a pair' % (fn, name))
        k = rl.skip_balanced(toks, j)
        inner = toks[j + 1:k - 1]
        if len(inner) < 3 or inner[0][0] != 'str' or inner[1][:2] != ('p', ','):
            raise ValueError('%s: %s: element is not ("name", %s::Variant)' % (fn, name, enum))
        v = variant_path(inner[2:], enum)
        if v is None:
            raise ValueError('%s: %s: %r is not paired with %s::<Variant>' % (fn, name, inner[0][1], enum))
        table.append((inner[0][1], v))
        j = k
    if not table:
        raise ValueError('%s: %s is empty' % (fn, name))
    return table


def str_to(toks, fn, enum):
    a, b = rl.find_fn(toks, fn)
    # parameter name
    i = a
    while toks[i][:2] != ('id', fn):
        i -= 1
    if not (toks[i + 1][:2] == ('p', '(') and toks[i + 2][0] == 'id' and toks[i + 3][:2] == ('p', ':')):
        raise ValueError('%s: one named parameter expected' % fn)
    param = toks[i + 2][1]
    if not any(toks[k][:2] == ('id', 'match') for k in range(a, b)):
        return str_to_table_form(toks, fn, enum, a, b, param)
    scrut, m = find_match(toks, a, b, fn)
    # the scrutinee is the lower-cased parameter: either `p.to_lowercase().as_str()` directly or a
    # variable bound to it before the match; what matters is that to_lowercase is applied once
    # (the behaviour itself is tied by the correspondence check, not by this shape)
    head = [t[:2] for t in toks[a + 1:m]]
    if head.count(('id', 'to_lowercase')) != 1 or ('id', param) not in head:
        raise ValueError('%s: `%s.to_lowercase()` expected (once) before the match arms' % (fn, param))
    arms, end = rl.match_arms(toks, m)
    if end != b - 1:
        raise ValueError('%s: tokens after the match' % fn)
    table = []
    fallback = None
    for k, (pat, body) in enumerate(arms):
        if len(pat) == 1 and pat[0][0] == 'str':
            if fallback is not None:
                raise ValueError('%s: arm after the catch-all arm' % fn)
            v = variant_path(body, enum)
            if v is None:
                raise ValueError('%s: arm %r does not yield %s::<Variant>' % (fn, pat[0][1], enum))
            table.append((pat[0][1], v))
        elif len(pat) == 1 and pat[0][0] == 'id' and k == len(arms) - 1:
            fallback = body
        else:
            raise ValueError('%s: unexpected arm pattern %r' % (fn, [t[1] for t in pat]))
    if fallback is None or not any(t[:2] == ('id', 'panic') for t in fallback) or \
            any(t[:2] == ('id', enum) for t in fallback):
        raise ValueError('%s: the catch-all arm is expected to be a panic!' % fn)
    return table


def dispatch_arms(toks, fn, enum, scrutinee_is_param=True):
    """variants that have their own arm in the single `match` of fn, plus whether a catch-all arm exists"""
    a, b = rl.find_fn(toks, fn)
    scrut, m = find_match(toks, a, b, fn)
    if len(scrut) != 1 or scrut[0][0] != 'id':
        raise ValueError('%s: match scrutinee is expected to be a plain variable' % fn)
    arms, _ = rl.match_arms(toks, m)
    out = []
    wild = False
    for pat, body in arms:
        alts = []
        cur = []
        for t in pat:
            if t[:2] == ('p', '|'):
                alts.append(cur)
                cur = []
            else:
                cur.append(t)
        alts.append(cur)
        for alt in alts:
            v = variant_path(alt, enum)
            if v is not None:
                if wild:
                    raise ValueError('%s: arm after catch-all' % fn)
                out.append(v)
            elif len(alt) == 1 and alt[0][0] == 'id':
                wild = True
            else:
                raise ValueError('%s: unexpected pattern %r' % (fn, [t[1] for t in alt]))
    return out, wild


def doc_names(path, heading_words):
    """first column of the (single) markdown table of a docs/identified-*.md file"""
    rows = [l for l in read(path).split('\n') if l.lstrip().startswith('|')]
    if len(rows) < 3:
        raise ValueError('%s: no markdown table' % path)
    cells = [[c.strip() for c in r.strip().strip('|').split('|')] for r in rows]
    if not re.fullmatch(r':?-+:?', cells[1][0]) or cells[0][0].lower() not in heading_words:
        raise ValueError('%s: table header %r / separator %r not as expected' % (path, cells[0][0], cells[1][0]))
    names = []
    for c in cells[2:]:
        n = c[0].strip('`').strip()
        if not n or len(c) < 2:
            raise ValueError('%s: row without a name or description' % path)
        names.append(n)
    return names


def toml_sample(path):
    import tomllib
    d = tomllib.loads(read(path))
    for k in ('path', 'optimizations', 'vulnerabilities', 'qa'):
        if k not in d:
            raise ValueError('Solstat.toml: key %s missing' % k)
    for k in ('optimizations', 'vulnerabilities', 'qa'):
        if not isinstance(d[k], list) or not all(isinstance(x, str) for x in d[k]):
            raise ValueError('Solstat.toml: %s is not a list of strings' % k)
    if not isinstance(d['path'], str):
        raise ValueError('Solstat.toml: path is not a string')
    return d


def coq_str(s):
    b = s.encode('utf-8')
    if all(32 <= x < 127 for x in b):
        return '"' + s.replace('"', '""') + '"'
    return '(bytes_to_string [%s])' % '; '.join('%d' % x for x in b)


def coq_list(items, per_line=4, indent='    '):
    items = list(items)
    if not items:
        return '[]'
    lines = []
    for i in range(0, len(items), per_line):
        lines.append(indent + '; '.join(items[i:i + per_line]))
    return '[\n' + ';\n'.join(lines) + ' ]'


def _tables_live():
    """-> dict cat -> dict(variants, get_all, table, analyze_arms, analyze_wild, section_arms, section_wild, doc, toml)"""
    toml = toml_sample(os.path.join(REPO, 'Solstat.toml'))
    out = {'toml_path': toml['path']}
    for key, d, enum, f_all, f_str, f_an, rfile, f_sec, docs, tkey in CATS:
        toks = rl.lex(read(os.path.join(REPO, 'src/analyzer', d, 'mod.rs')))
        variants = enum_variants(toks, enum)
        idx = {v: i for i, v in enumerate(variants)}

        def ix(v, where):
            if v not in idx:
                raise ValueError('%s: %s::%s is not a declared variant' % (where, enum, v))
            return idx[v]
        ga = [ix(v, f_all) for v in get_all(toks, f_all, enum)]
        tb = [(n, ix(v, f_str)) for n, v in str_to(toks, f_str, enum)]
        an, an_wild = dispatch_arms(toks, f_an, enum)
        rtoks = rl.lex(read(os.path.join(REPO, 'src/report', rfile)))
        se, se_wild = dispatch_arms(rtoks, f_sec, enum)
        heading = {'opt': ('optimization', 'optimizations'), 'vul': ('vulnerability', 'vulnerabilities'),
                   'qa': ('quality assurance', 'qa')}[key]
        out[key] = {'enum': enum, 'variants': variants, 'get_all': ga, 'table': tb,
                    'analyze_arms': [ix(v, f_an) for v in an], 'analyze_wild': an_wild,
                    'section_arms': [ix(v, f_sec) for v in se], 'section_wild': se_wild,
                    'doc': doc_names(os.path.join(REPO, 'docs', docs), heading), 'toml': list(toml[tkey]),
                    'fns': (f_all, f_str, f_an, f_sec)}
    return out


def generate():
    T = _tables_live()
    L = ['(* GENERATED by tools/names2coq.py from /repo/src/analyzer/*/mod.rs, src/report/*_report.rs,',
         '   docs/identified-*.md and Solstat.toml.  Do not edit: rewritten on every check run. *)',
         'From Coq Require Import List String Ascii NArith.',
         'Import ListNotations.',
         'Local Open Scope string_scope.',
         'Local Open Scope N_scope.',
         '',
         'Definition bytes_to_string (l : list N) : string :=',
         '  fold_right (fun n s => String (ascii_of_N n) s) EmptyString l.',
         '',
         '(* One pattern category.  A pattern is the index (N) of its variant in the order of the',
         '   enum declaration. *)',
         'Record category : Type := {',
         '  cat_key : string;                      (* opt | vul | qa *)',
         '  enum_name : string;',
         '  variants : list string;                (* enum declaration order *)',
         '  str_table : list (string * N);         (* arms of str_to_*, source order; catch-all arm = panic! *)',
         '  get_all : list N;                      (* get_all_* *)',
         '  analyze_arms : list N;                 (* variants with their own arm in analyze_for_* *)',
         '  section_arms : list N;                 (* variants with their own arm in get_*_report_section *)',
         '  doc_names : list string;               (* first column of docs/identified-*.md *)',
         '  toml_names : list string               (* the array of the sample Solstat.toml *)',
         '}.',
         '']
    for key, *_ in CATS:
        c = T[key]
        L.append('Definition cat_%s : category := {|' % key)
        L.append('  cat_key := %s;' % coq_str(key))
        L.append('  enum_name := %s;' % coq_str(c['enum']))
        L.append('  variants := %s;' % coq_list(coq_str(v) for v in c['variants']))
        L.append('  str_table := %s;' % coq_list(('(%s, %d)' % (coq_str(n), i) for n, i in c['table']), per_line=2))
        L.append('  get_all := %s;' % coq_list(('%d' % i for i in c['get_all']), per_line=16))
        L.append('  analyze_arms := %s;' % coq_list(('%d' % i for i in c['analyze_arms']), per_line=16))
        L.append('  section_arms := %s;' % coq_list(('%d' % i for i in c['section_arms']), per_line=16))
        L.append('  doc_names := %s;' % coq_list(coq_str(n) for n in c['doc']))
        L.append('  toml_names := %s' % coq_list(coq_str(n) for n in c['toml']))
        L.append('|}.')
        L.append('')
    L.append('Definition categories : list category := [cat_opt; cat_vul; cat_qa].')
    L.append('Definition toml_sample_path : string := %s.' % coq_str(T['toml_path']))
    L.append('')
    return '\n'.join(L)


if __name__ == '__main__':
    if len(sys.argv) > 1 and sys.argv[1] == '--json':
        import json
        print(json.dumps(tables(), indent=1))
    else:
        sys.stdout.write(generate())


def tables():
    """live tables, or (when the source can no longer be read) the snapshot of the last readable tree"""
    import vlib
    return vlib.with_snapshot('names2coq_tables', _tables_live)
