#!/usr/bin/env python3
"""A small Solidity lexer, sufficient for the programs produced by tools/gen_programs.py and
/repo's test corpus: used to build token-preserving re-layouts (C17) and to blank out
top-level items (C19).  A whole `pragma ... ;` directive is ONE token (its value is raw text
for the parser, so white space inside it is not layout)."""
import re

OPS = ['>>>=', '>>=', '<<=', '>>>', '**', '++', '--', '&&', '||', '==', '!=', '<=', '>=', '=>', '->', '+=', '-=', '*=', '/=',
       '%=', '|=', '&=', '^=', '<<', '>>', ':=']
TOKEN_RE = re.compile(r'''
    (?P<ws>[ \t\r\n]+)
  | (?P<lcomment>//[^\n\r]*)
  | (?P<bcomment>/\*.*?\*/)
  | (?P<pragma>pragma\b[^;]*;)
  | (?P<string>(?:hex|unicode|address)?(?:"(?:[^"\\\n]|\\.)*"|'(?:[^'\\\n]|\\.)*'))
  | (?P<hexnum>0[xX][0-9a-fA-F_]+)
  | (?P<number>(?:[0-9][0-9_]*)?\.?[0-9][0-9_]*(?:[eE]-?[0-9_]+)?)
  | (?P<ident>[A-Za-z_$\u0080-\uffff][A-Za-z0-9_$\u0080-\uffff]*)
  | (?P<op>>>>=|>>=|<<=|>>>|\*\*|\+\+|--|&&|\|\||==|!=|<=|>=|=>|->|\+=|-=|\*=|/=|%=|\|=|&=|\^=|<<|>>|:=)
  | (?P<punct>[{}()\[\];,.:?~!<>=+\-*/%&|^])
''', re.S | re.X)


class LexError(Exception):
    pass


def lex(src):
    """-> list of (kind, text, start_byte, end_byte) for real tokens (white space and comments dropped)"""
    toks = []
    pos = 0
    b = 0
    n = len(src)
    while pos < n:
        m = TOKEN_RE.match(src, pos)
        if not m or m.end() == pos:
            raise LexError('cannot lex at %r' % src[pos:pos + 30])
        kind = m.lastgroup
        text = m.group(0)
        nb = len(text.encode('utf-8'))
        if kind not in ('ws', 'lcomment', 'bcomment'):
            toks.append((kind, text, b, b + nb))
        b += nb
        pos = m.end()
    return toks


COMMENT_TEXTS = ['x * 2; a[1] = a[1] + 1;', 'selfdestruct(payable(msg.sender));', 'require(a && b, "err");', 'tok.transfer(to, 1);',
                 'pragma solidity ^0.4.0;', 'address(this).balance == address(0)', 'héllo wörld ✓', 'i++; ++i; j--;',
                 'x / 2 * 3; y /= z * 2;', 'keccak256(abi.encode(x))', 'uint constant K = 1;', 'constructor() {}', 'function f() public {}',
                 'a >= b; a <= b; c == true', 'using SafeMath for uint; z.add(1)', '"quote', "it's",
                 'mapping(address account => uint256 balance) public balances;', 'mapping(address owner => mapping(address spender => uint256)) a;',
                 'import "./Other.sol"; contract Old is Base { }', 'function f(uint a) public onlyOwner returns (uint) { return a; }',
                 'assembly { let x := mload(0x40) }', 'unchecked { i++; }', 'emit Transfer(from, to, amount);']


def relayout(src, rng, style):
    """token-preserving re-layout.  -> (new_src, start_map, end_map) mapping byte offsets of token
    starts / ends in src to those in new_src.  style: 'lines' one token per line, 'random', 'crlf', 'comments'"""
    toks = lex(src)
    out = []
    smap = {}
    emap = {}
    cur = 0

    def emit(s):
        nonlocal cur
        out.append(s)
        cur += len(s.encode('utf-8'))
    def blk(c):
        # text of a block comment: commented-out code, often wrapped over several lines, sometimes a slice of this very file
        if toks and rng.random() < 0.3:
            k = rng.randrange(len(toks))
            c = ' '.join(t[1] for t in toks[k:k + rng.randint(2, 12)] if t[0] != 'pragma')
        if rng.random() < 0.5:
            c = ''.join((rng.choice(['\n', '\n   ', '\r\n', ' ']) if ch == ' ' else ch) for ch in c)
        return c.replace('*/', '* /')
    if style in ('comments', 'random') and rng.random() < 0.7:
        emit('// ' + rng.choice(COMMENT_TEXTS) + '\n')
    if style not in ('lines', 'dense') and rng.random() < 0.35:
        # blank lines / white space before the first token
        emit(rng.choice(['\n', '\n\n', '  \n\t\n', '\r\n\r\n', ' ', '\n \n   ']))
    for i, (kind, text, s, e) in enumerate(toks):
        smap[s] = cur
        if kind == 'pragma':
            # a pragma directive is one token for the solang lexer (its value is raw text).  Comments inside it are the
            # known finding D14 and are never inserted; white space between ITS sub-tokens (`pragma`, the identifier,
            # operators, version numbers, `;`) is layout for a reader of Solidity, so it is re-laid out as well (never
            # inside a version number); the start of every sub-token is mapped
            subs = [(m.group(0), m.start()) for m in re.finditer(r'[A-Za-z_$][A-Za-z0-9_$]*|\d[\w.]*|>=|<=|\|\||[<>^~=]|"[^"]*"|\'[^\']*\'|\S', text)]
            if style != 'lines' and rng.random() < 0.6 and all(ord(c) < 128 for c in text) and '/*' not in text and '//' not in text:
                pieces = []
                for j, (tok, off) in enumerate(subs):
                    if j > 0:
                        prev_tok = subs[j - 1][0]
                        glue_ok = (prev_tok in ('>=', '<=', '<', '>', '^', '~', '=') or tok in (';', '>=', '<=', '<', '>', '^', '~', '=', '||')) \
                            and not (prev_tok[0].isalnum() and tok[0].isalnum())
                        seps = [' ', '  ', '\t', '\n', '\r\n', ' \n '] + (['', ''] if glue_ok and j >= 2 else [])
                        pieces.append(rng.choice(seps))
                    smap.setdefault(s + off, cur + sum(len(x) for x in pieces))
                    emap.setdefault(s + off, cur + sum(len(x) for x in pieces))
                    pieces.append(tok)
                text = ''.join(pieces)
            else:
                # copied verbatim: offsets inside it (identifier, value) move with it
                for k in range(e - s + 1):
                    smap.setdefault(s + k, cur + k)
                    emap.setdefault(s + k, cur + k)
        emit(text)
        emap[e] = cur
        if i == len(toks) - 1:
            if rng.random() < 0.5:
                emit(rng.choice(['\n', '\n', '\n\n  \n', '\r\n', '  ']))
            break
        if style == 'lines':
            sep = '\n'
        elif style == 'crlf':
            # ... and the lone carriage return: white space for the parser (it also ends a `//` comment), not a line end for the line count
            sep = rng.choice(['\r\n', ' ', '\r\n\r\n', '\t', '\r\n  ', '\r', ' // ' + rng.choice(COMMENT_TEXTS) + '\r', '\r\n'])
        elif style == 'comments':
            c = rng.choice(COMMENT_TEXTS)
            sep = rng.choice([' ', '\n', ' /* ' + blk(c) + ' */ ', ' // ' + c + '\n', '\n/* ' + blk(c) + '\n*/\n', ' '])
        elif style == 'dense':
            # a comment in EVERY gap (so the distance between any two adjacent tokens grows by more than 32 bytes)
            c = rng.choice(COMMENT_TEXTS) + ' ' + rng.choice(COMMENT_TEXTS)
            sep = rng.choice([' /* ' + blk(c) + ' */ ', ' // ' + c + '\n', '\n/* ' + blk(c) + '\n*/\n'])
        else:
            sep = rng.choice([' ', ' ', '\n', '\n\n', '\t', '  ', '\r\n', ' /*c*/ ', ' // ' + rng.choice(COMMENT_TEXTS) + '\n'])
        emit(sep)
    return ''.join(out), smap, emap


def top_level_items(src):
    """byte ranges (start, end) of the top-level items of a file, with a flag is_pragma.
    An item ends at the first ';' or at the '}' matching its first '{' at depth 0."""
    toks = lex(src)
    items = []
    i = 0
    n = len(toks)
    while i < n:
        kind, text, s, e = toks[i]
        if kind == 'pragma':
            items.append((s, e, True))
            i += 1
            continue
        depth = 0
        j = i
        seen_brace = False
        while j < n:
            k2, t2, s2, e2 = toks[j]
            if t2 in ('{', '(', '['):
                depth += 1
                if t2 == '{':
                    seen_brace = True
            elif t2 in ('}', ')', ']'):
                depth -= 1
                if depth == 0 and t2 == '}' and seen_brace:
                    # `struct S { } ` / contract / function body: item ends here unless followed by nothing relevant
                    break
            elif t2 == ';' and depth == 0:
                break
            j += 1
        j = min(j, n - 1)
        items.append((s, toks[j][3], False))
        i = j + 1
    return items


def blank_except(src, keep_ranges):
    """replace every byte outside keep_ranges by a blank (line feeds kept), byte-accurately"""
    b = bytearray(src.encode('utf-8'))
    keep = bytearray(len(b))
    for s, e in keep_ranges:
        for k in range(s, e):
            keep[k] = 1
    for k in range(len(b)):
        if not keep[k] and b[k] not in (10, 13):
            b[k] = 32
    return b.decode('utf-8')


if __name__ == '__main__':
    import sys, random
    src = open(sys.argv[1]).read()
    print(lex(src)[:20])
    print(top_level_items(src))
    print(relayout(src, random.Random(1), 'comments')[0])
