#!/usr/bin/env python3
"""sections2coq: the constant texts of the report -> coq/gen/Sections.v

Reads /repo/src/report/report_sections/<category>/<module>.rs for every module named in an arm of
get_*_report_section (tables2coq reads the arms) and the three overview.rs files:
   pub fn report_section_content() -> String { String::from( r##"<text>"## , ) }            -> the text, byte exact
   pub fn report_section_content(n: usize) -> String { String::from( format!("<a>{}<b>", n) ) } -> prefix <a>, suffix <b>
generate() raises if a file does not have one of these two shapes."""
import os, re, sys

sys.path.insert(0, os.path.dirname(os.path.abspath(__file__)))
import tables2coq
from tables2coq import ShapeError

REPO = '/repo'
SECDIR = os.path.join(REPO, 'src', 'report', 'report_sections')


def readb(path):
    with open(path, 'rb') as f:
        return f.read()


SIG = re.compile(rb'pub\s+fn\s+report_section_content\s*\(([^)]*)\)\s*->\s*String\s*\{', re.S)


def unescape_rust(lit, path):
    """bytes between the quotes of an ordinary Rust string literal -> bytes"""
    out = bytearray()
    i = 0
    n = len(lit)
    while i < n:
        c = lit[i:i + 1]
        if c != b'\\':
            out += c
            i += 1
            continue
        e = lit[i + 1:i + 2]
        if e == b'n':
            out += b'\n'
        elif e == b't':
            out += b'\t'
        elif e == b'r':
            out += b'\r'
        elif e == b'0':
            out += b'\0'
        elif e == b'\\':
            out += b'\\'
        elif e == b'"':
            out += b'"'
        elif e == b"'":
            out += b"'"
        elif e == b'\n':
            # line continuation: skip the newline and following whitespace
            i += 2
            while i < n and lit[i:i + 1] in (b' ', b'\t', b'\n', b'\r'):
                i += 1
            continue
        else:
            raise ShapeError('%s: unsupported escape \\%s in string literal' % (path, e.decode('latin1')))
        i += 2
    return bytes(out)


def parse_section_file(path):
    """-> ('raw', text) | ('fmt', prefix, suffix)"""
    src = readb(path)
    m = SIG.search(src)
    if not m or len(SIG.findall(src)) != 1:
        raise ShapeError('%s: expected exactly one `pub fn report_section_content(..) -> String {`' % path)
    args = m.group(1).strip()
    rest = src[m.end():]
    if args == b'':
        mm = re.match(rb'\s*String\s*::\s*from\s*\(\s*r(#*)"', rest)
        if not mm:
            raise ShapeError('%s: expected String::from(r#"..."#)' % path)
        hashes = mm.group(1)
        start = mm.end()
        end = rest.find(b'"' + hashes, start)
        if end < 0:
            raise ShapeError('%s: unterminated raw string' % path)
        text = rest[start:end]
        tail = rest[end + 1 + len(hashes):]
        if not re.fullmatch(rb'\s*,?\s*\)\s*;?\s*\}\s*', tail):
            raise ShapeError('%s: unexpected code after the raw string literal: %r' % (path, tail[:80]))
        return ('raw', text)
    am = re.fullmatch(rb'(\w+)\s*:\s*usize', args)
    if not am:
        raise ShapeError('%s: unexpected parameter list %r' % (path, args))
    arg = am.group(1)
    mm = re.match(rb'\s*String\s*::\s*from\s*\(\s*format!\s*\(\s*"', rest)
    if not mm:
        raise ShapeError('%s: expected String::from(format!("...", %s))' % (path, arg.decode()))
    start = mm.end()
    i = start
    while i < len(rest) and rest[i:i + 1] != b'"':
        i += 2 if rest[i:i + 1] == b'\\' else 1
    lit = rest[start:i]
    tail = rest[i + 1:]
    if not re.fullmatch(rb'\s*,\s*' + arg + rb'\s*,?\s*\)\s*,?\s*\)\s*;?\s*\}\s*', tail):
        raise ShapeError('%s: unexpected code after the format string: %r' % (path, tail[:80]))
    # format placeholders: exactly one `{}`; `{{` and `}}` are literal braces
    parts = []
    cur = bytearray()
    j = 0
    nph = 0
    while j < len(lit):
        two = lit[j:j + 2]
        if two == b'{{':
            cur += b'{{'  # resolved after unescaping (no backslash involved)
            j += 2
        elif two == b'}}':
            cur += b'}}'
            j += 2
        elif two == b'{}':
            parts.append(bytes(cur))
            cur = bytearray()
            nph += 1
            j += 2
        elif lit[j:j + 1] in (b'{', b'}'):
            raise ShapeError('%s: unsupported format placeholder near %r' % (path, lit[j:j + 10]))
        else:
            cur += lit[j:j + 1]
            j += 1
    parts.append(bytes(cur))
    if nph != 1:
        raise ShapeError('%s: expected exactly one {} placeholder, found %d' % (path, nph))
    pre, suf = [unescape_rust(p, path).replace(b'{{', b'{').replace(b'}}', b'}') for p in parts]
    return ('fmt', pre, suf)


def coq_bytes(b):
    """Coq term of type string for arbitrary bytes"""
    safe = all((32 <= x < 127) or x == 10 or x >= 128 for x in b)
    if safe:
        try:
            txt = b.decode('utf-8')
            return '"' + txt.replace('"', '""') + '"'
        except UnicodeDecodeError:
            pass
    return '(bytes_to_string [%s])' % '; '.join(str(x) for x in b)


def _collect_live():
    T = tables2coq.collect()
    out = {'tables': T, 'cats': {}}
    for key in ['opt', 'vul', 'qa']:
        c = T['cats'][key]
        rsrc = tables2coq.read(os.path.join(REPO, 'src', 'report', c['report']))
        used = set()
        for m in re.finditer(r'report_sections\s*::\s*%s\s*::\s*\{([^}]*)\}' % c['dir'], rsrc):
            used |= set(x.strip() for x in m.group(1).split(',') if x.strip())
        for m in re.finditer(r'report_sections\s*::\s*%s\s*::\s*(\w+)\s*;' % c['dir'], rsrc):
            used.add(m.group(1))
        texts = {}
        for v, mod in c['section_arms']:
            if mod not in used:
                raise ShapeError('%s: module %s is not imported from report_sections::%s' % (c['report'], mod, c['dir']))
            r = parse_section_file(os.path.join(SECDIR, c['dir'], mod + '.rs'))
            if r[0] != 'raw':
                raise ShapeError('section %s/%s takes an argument' % (c['dir'], mod))
            texts[mod] = r[1]
        if 'overview' not in used:
            raise ShapeError('%s: overview is not imported from report_sections::%s' % (c['report'], c['dir']))
        ov = parse_section_file(os.path.join(SECDIR, c['dir'], 'overview.rs'))
        out['cats'][key] = {'texts': texts, 'overview': ov}
    return out


HEADER = '''(* GENERATED by tools/sections2coq.py from /repo/src/report/report_sections/** -- do not edit.
   Byte-exact constant texts of the report.  Provides:
     sec_<cat>_<module> : string          the raw string literal of report_sections/<category>/<module>.rs
     optimization_section  : Optimization -> string      (arms of get_optimization_report_section)
     vulnerability_section : Vulnerability -> string     (arms of get_vulnerability_report_section, first component)
     qa_section            : QualityAssurance -> string  (arms of get_qa_report_section)
     opt_overview_prefix / opt_overview_suffix : string   text before / after the `{}` of optimizations/overview.rs
     vul_overview_prefix / vul_overview_suffix : string   the same for vulnerabilities/overview.rs
     qa_overview : string                                 qa/overview.rs (no argument)
     opt_sections / vul_sections / qa_sections : list (X * string)   the section function as a table, declaration order *)
From Coq Require Import List String NArith.
Import ListNotations.
From Solstat Require Import Bytes Tables.
Local Open Scope string_scope.
'''


def generate():
    S = _collect_live()
    T = S['tables']
    L = [HEADER]
    fn = {'opt': 'optimization_section', 'vul': 'vulnerability_section', 'qa': 'qa_section'}
    for key in ['opt', 'vul', 'qa']:
        c = T['cats'][key]
        d = S['cats'][key]
        for mod in sorted(d['texts']):
            L.append('Definition sec_%s_%s : string := %s.' % (key, mod, coq_bytes(d['texts'][mod])))
            L.append('')
        arm = dict(c['section_arms'])
        missing = [v for v in c['variants'] if v not in arm]
        if missing and not c['section_wildcard']:
            raise ShapeError('%s: no arm for %s' % (c['section'], missing))
        if missing:
            raise ShapeError('%s: variants %s fall into a wildcard arm (not modelled)' % (c['section'], missing))
        L.append('Definition %s (p : %s) : string :=' % (fn[key], c['enum']))
        L.append('  match p with')
        for v in c['variants']:
            L.append('  | %s_%s => sec_%s_%s' % (c['pre'], v, key, arm[v]))
        L.append('  end.')
        L.append('')
        L.append('Definition %s_sections : list (%s * string) := map (fun p => (p, %s p)) %s_all.' % (key, c['enum'], fn[key], c['enum']))
        L.append('')
        ov = d['overview']
        if key in ('opt', 'vul'):
            if ov[0] != 'fmt':
                raise ShapeError('%s overview: expected a format! with the total' % key)
            L.append('Definition %s_overview_prefix : string := %s.' % (key, coq_bytes(ov[1])))
            L.append('Definition %s_overview_suffix : string := %s.' % (key, coq_bytes(ov[2])))
        else:
            if ov[0] != 'raw':
                raise ShapeError('qa overview: expected a raw string without argument')
            L.append('Definition qa_overview : string := %s.' % coq_bytes(ov[1]))
        L.append('')
    return '\n'.join(L) + '\n'


if __name__ == '__main__':
    out = generate()
    if len(sys.argv) > 1:
        open(sys.argv[1], 'w', encoding='utf-8').write(out)
    else:
        sys.stdout.write(out)


def collect():
    """live tables, or (when the source can no longer be read) the snapshot of the last readable tree"""
    import vlib
    return vlib.with_snapshot('sections2coq_collect', _collect_live)
