"""C15 - each (file, pattern) verdict is independent of everything else in the run.

Model part (proof): verdict_independent / verdict_same_in_any_two_runs / verdict_vector
(props/C15.v) over the model coq/model/Dir.v, whose per-file analysis is a function of
(pattern, content) only.  Correspondence: real trees analysed by the real analyze_dir
 - with a pattern list, with another co-selected set in another order, with sibling files
   removed, with the file alone, repeated in the same process and in a fresh process;
   model = implementation on every run, and the statement of verdict_independent evaluated in
   Coq on every implementation output against the per-file oracle (analyze_for_* on the content
   alone, which is also shown not to depend on the file number);
Runtime part (PARTIAL): thread interleavings cannot be modelled in Gallina; vh_dir threads
runs every (source, pattern) analysis concurrently from 16 threads, repeatedly, in different
orders, and compares with the sequential answers."""
import os, random, shutil, json
import vlib
from vlib import log
from checks import common
from checks import dir_common as dc
from checks.dir_common import Run, F, D


def subset_tree(t, rng, keep):
    """sibling files removed: every file outside `keep` (paths) survives with probability 1/2"""
    def go(t, prefix):
        out = []
        for e in t:
            path = prefix + (e['name'],)
            if e['k'] == 'f':
                if path in keep or rng.random() < 0.5:
                    out.append(e)
            else:
                out.append(D(e['name'], go(e['ch'], path)))
        return out
    return go(t, ())


def evaluate(hz, oracle, runs, rng, tag):
    oracle.ensure(dc.oracle_contents(runs))
    dc.run_impl(hz, runs, rng)
    items = []
    for r in runs:
        t = dc.listing_term(r, oracle)
        r.coq_tree = t
        items.append(([r], ['check_dir tbl_%s %s %s %s' % (r.cat, t, dc.ps_term(r, oracle), dc.impl_term(r, oracle)),
                            'check_verdicts tbl_%s %s %s %s' % (r.cat, t, dc.ps_term(r, oracle), dc.impl_term(r, oracle))]))
    vals = dc.coq_eval(oracle, items, tag)
    for r, v in zip(runs, vals):
        r.codes = list(v[0])
        r.extra['verdicts'] = tuple(v[1])      # (pairs examined, failures)
    return runs


def verdict_map(r):
    """{(file name, pattern): lines} of a run (first entry per name, as Spec.verdict)"""
    out = {}
    if r.impl == 'PANIC':
        return None
    for p, vec in r.impl:
        for f, ls in vec:
            out.setdefault((f, p), ls)
    return out


def run(rep, ctx):
    from checks.c03 import pick_ps, content_picker
    rng = random.Random(ctx.seed * 1000003 + 15)
    dc.cleanup()
    hz = dc.Harness(ctx.harness)
    try:
        oracle = dc.Oracle(hz)
        pool = dc.source_pool(rng)
        oracle.ensure([c for n, c in pool])
        found = False
        if oracle.fileno_dependent:
            found = True
            cid, cat, pat = oracle.fileno_dependent[0]
            src = [c for c in oracle.cid if oracle.cid[c] == cid][0]
            rep.violation('analyze_for_* gives different lines for the same content under different file numbers (position in the listing)',
                          {'kind': 'S', 'input': {'source': src.decode('utf-8', 'replace'), 'category': cat, 'pattern': pat},
                           'theorem': 'verdict_independent (position in the listing)'})
        cats = sorted(oracle.cats)
        groups = []
        n = 100 if ctx.tier == 'quick' else 1200
        for k in range(n):
            cat = cats[k % len(cats)]
            names = oracle.names(cat)
            ps = pick_ps(rng, oracle, cat)
            common_p = rng.choice(ps)
            others = [x for x in names if x != common_p]
            ps2 = [common_p] + rng.sample(others, rng.randint(0, min(5, len(others))))
            rng.shuffle(ps2)
            pick = content_picker(oracle, pool, cat, list(dict.fromkeys(ps + ps2)))
            if pick is None:
                continue
            t = dc.random_tree(rng, pick, max_entries=7, p_inert=0.15)
            files = [p for p, e in dc.tree_files(t) if dc.spec_class(e['name']) == 'eligible']
            if not files:
                continue
            keep = {rng.choice(files)}
            ta = Run(t, cat, ps, 'A')
            g = {'A': ta, 'B': Run(t, cat, ps2, 'B-other-patterns'), 'C': Run(subset_tree(t, rng, keep), cat, ps, 'C-siblings-removed'),
                 'D': Run(t, cat, ps, 'D-repeat-same-process', 'given'), 'E': Run(t, cat, ps, 'E-repeat-fresh-process', 'given'),
                 'R': Run(t, cat, list(reversed(ps)), 'R-reversed-order')}
            # the same patterns with repetitions: the first one again at the end (others in between) and a random one twice
            psd = list(ps) + [ps[0]]
            psd.insert(rng.randint(0, len(psd)), rng.choice(ps))
            g['P'] = Run(t, cat, psd, 'P-repeated-patterns')
            kp = list(keep)[0]
            node = dict((p, e) for p, e in dc.tree_files(t))[kp]
            g['S'] = Run([F(kp[-1], node['data'])], cat, [common_p], 'S-file-alone')
            groups.append(g)
        order = ['A', 'B', 'C', 'R', 'S', 'P', 'D']
        runs = [g[k] for g in groups for k in order]
        evaluate(hz, oracle, runs, rng, 'c15')
        hz.restart()
        oracle.hz = hz
        runs_e = [g['E'] for g in groups]
        evaluate(hz, oracle, runs_e, rng, 'c15e')
        runs += runs_e
        log('runs evaluated:', len(runs))
        if any(90 in r.codes for r in runs):
            raise vlib.BuildError('oracle table incomplete (check machinery)')
        # S: the statement of verdict_independent fails on an implementation output
        bad = [r for r in runs if r.extra['verdicts'][1] > 0]
        # cross-run comparison (implied by the above; reported with the two runs side by side)
        cross = []
        for g in groups:
            vm = {k: verdict_map(g[k]) for k in g}
            for k in ['B', 'C', 'R', 'S', 'P', 'D', 'E']:
                if vm['A'] is None or vm[k] is None:
                    if (vm['A'] is None) != (vm[k] is None) and k in ('D', 'E', 'R'):
                        cross.append((g, k, 'one run aborts, the other does not'))
                    continue
                sel = set(g['A'].ps) & set(g[k].ps)
                names_a = {}
                for p_, e in dc.tree_files(g['A'].tree):
                    names_a.setdefault(e['name'], set()).add(e['data'])
                names_k = {}
                for p_, e in dc.tree_files(g[k].tree):
                    names_k.setdefault(e['name'], set()).add(e['data'])
                for nm in names_k:
                    if dc.spec_class(nm) != 'eligible' or len(names_k[nm]) != 1 or names_a.get(nm) != names_k[nm]:
                        continue
                    for p in sel:
                        key = (nm.encode('utf-8'), p)
                        if vm['A'].get(key) != vm[k].get(key):
                            cross.append((g, k, 'lines of (%s, %s): %r versus %r' % (nm, p, vm['A'].get(key), vm[k].get(key))))
            # repetition: identical output (same tree, same listing)
            for k in ('D', 'E'):
                if g[k].listing == g['A'].listing and g[k].impl != g['A'].impl:
                    cross.append((g, k, 'repeated run gives a different result'))
        if (bad or cross) and not found:
            found = True
            if bad:
                r = min(bad, key=lambda r: dc.tree_entries(r.tree))
                rep.violation('the lines recorded for some (file, pattern) differ from the analysis of that file alone',
                              {'kind': 'S', 'input': r.describe(), 'run_kind': r.tag, 'implementation_output': dc.impl_json(r),
                               'listing_order_observed': dc.listing_json(r), 'specification_demands_multiset': dc.expected_py(r, oracle),
                               'verdict_pairs_examined_failed': r.extra['verdicts'], 'theorem': 'verdict_independent (coq/props/C15.v)'})
            else:
                g, k, what = cross[0]
                rep.violation('verdicts differ between two runs: ' + what,
                              {'kind': 'S', 'input': g['A'].describe(), 'other_run': g[k].describe(), 'other_run_kind': g[k].tag,
                               'implementation_output': dc.impl_json(g['A']), 'implementation_output_other_run': dc.impl_json(g[k]),
                               'theorem': 'verdict_same_in_any_two_runs (coq/props/C15.v)'})
        model_bad = [r for r in runs if r.codes]
        if model_bad and not found:
            r = min(model_bad, key=lambda r: dc.tree_entries(r.tree))
            spec = bool(set(r.codes) & dc.SPEC_CODES)
            rep.violation('; '.join(dc.CODES[c] for c in r.codes),
                          {'kind': 'S' if spec else 'M', 'input': r.describe(), 'run_kind': r.tag, 'failed_subchecks': r.codes,
                           'implementation_output': dc.impl_json(r), 'listing_order_observed': dc.listing_json(r),
                           'model_function': 'Dir.analyze_dir', 'rust_function': 'analyzer::%s::analyze_dir' % r.cat}, no_input=not spec)
            found = found or spec
        # the position of a file in the tree must not decide whether the run survives it: the real binary on a deeply nested
        # (but analysable) file at the top of the tree and two directories below it
        if not found:
            from checks import c03
            near = [c for n_, c in pool if n_ == 'shift'][0]
            dinfo = c03.deep_pair_failure(hz, oracle, near, rng, vlib.build_solstat_bin())
            rep.coverage['deep_file_pair'] = 'run' if dinfo is None else 'failed'
            if dinfo is not None:
                found = True
                rep.violation('solstat on a tree with a deeply nested file two directories below the root: exit %s; %s' % (dinfo['exit'], dinfo['note']),
                              {'kind': 'S', 'input': dinfo, 'theorem': 'verdict_independent (position in the tree)', 'how': 'solstat --path <tree> in an empty cwd'})
        # runtime part: 16 threads
        pd = os.path.join(dc.FSROOT, 'threads')
        os.makedirs(pd)
        for i, (nm, c) in enumerate(pool):
            open(os.path.join(pd, 's%03d.sol' % i), 'wb').write(c)
        reps = 2 if ctx.tier == 'quick' else 6
        out = hz.req('threads %s 16 %d' % (dc.hx(pd), reps))
        tline = out[0] if out else 'threads ?'
        log(tline)
        if not tline.startswith('threads ok'):
            a = tline.split(' ')
            src = None
            try:
                src = open(os.path.join(pd, dc.unhx(a[2]).decode()), 'rb').read().decode('utf-8', 'replace')
            except Exception:
                pass
            if not found:
                found = True
                rep.violation('analyze_for_* called concurrently from 16 threads gives an answer different from the sequential one',
                              {'kind': 'S', 'input': {'source': src, 'pattern': a[3] if len(a) > 3 else None}, 'harness_line': tline,
                               'how': 'vh_dir threads <dir> 16 %d' % reps, 'theorem': 'runtime part of C15 (no Coq statement)'})
        ncmp = int(tline.split(' ')[2]) if tline.startswith('threads ok') else 0
        pairs_examined = sum(r.extra['verdicts'][0] for r in runs)
        nontriv = set()
        for g in groups:
            a = g['A']
            if a.impl != 'PANIC' and a.impl and a.extra['verdicts'][0] >= 2 and g['B'].impl != 'PANIC':
                nontriv.add((a.coq_tree, a.cat, tuple(a.ps), tuple(g['B'].ps)))
        rep.coverage['evaluations'] = len(runs) + 1
        rep.coverage['distinct_nontrivial'] = len(nontriv)
        rep.coverage['rule'] = ('groups of 8 real runs per tree (pattern list; other co-selected patterns in another order; sibling files removed; the list with repeated patterns; '
                                'reversed pattern order; one file alone; repeated in the same and in a fresh process); for every run model = implementation '
                                'and, evaluated in Coq on the implementation output, every (eligible file, selected pattern) verdict equals the per-file oracle; '
                                'cross-run comparison of verdicts; non-trivial group = first run succeeds with findings and >= 2 (file, pattern) pairs. '
                                'Runtime part: every (source, pattern) analysis from 16 concurrent threads x %d repetitions versus sequential answers' % reps)
        rep.coverage['groups'] = len(groups)
        rep.coverage['verdict_pairs_examined'] = pairs_examined
        rep.coverage['thread_comparisons'] = ncmp
        rep.coverage['pool_sources'] = len(pool)
        rep.coverage['traces_validated_against_impl'] = sum(1 for r in runs if not r.codes)
        rep.coverage['samples'] = [{'patterns_A': g['A'].ps, 'patterns_B': g['B'].ps, 'listing': dc.listing_json(g['A']),
                                    'implementation_output_A': dc.impl_json(g['A']), 'implementation_output_B': dc.impl_json(g['B'])}
                                   for g in groups[:: max(1, len(groups) // 3)][:3]]
        rep.assumptions = ['partial (runtime): thread interleavings of concurrent library calls cannot be modelled in Gallina; covered by 16-thread runs of analyze_for_* '
                           'against sequential answers (%d comparisons), not by proof' % ncmp,
                           'the model part is proved for the model of analyze_dir in which the per-file analysis is a function of (pattern, content); that the real '
                           'analyze_for_* ignores the file number / listing position is checked on every pool source (file numbers 0, 7, 1000 and thread-specific ones)',
                           'file names may repeat across directories: verdict_independent assumes the name determines the content within the run; verdict_vector is the occurrence-wise form',
                           'absence of shared mutable state in src/ (static, thread_local, interior mutability) is the business of gen/Effects.v (not part of this check)']
        common.finish_proof_status(rep, ctx, found)
    finally:
        hz.close()
        dc.cleanup()


def replay(obj):
    rng = random.Random(1)
    harness = vlib.build_harness()
    dc.cleanup()
    hz = dc.Harness(harness)
    try:
        oracle = dc.Oracle(hz)
        inp = obj['input']
        if 'tree' not in inp:
            src = (inp.get('source') or '').encode('utf-8')
            oracle.ensure([src])
            print('per-file oracle (file numbers 0, 7, 1000 must agree):', oracle.res[oracle.cid[src]], 'file-number dependent:', oracle.fileno_dependent)
            d = os.path.join(dc.FSROOT, 'threads')
            os.makedirs(d)
            open(os.path.join(d, 's.sol'), 'wb').write(src)
            out = hz.req('threads %s 16 4' % dc.hx(d))
            print(out)
            return 0 if out and out[0].startswith('threads ok') and not oracle.fileno_dependent else 1
        rs = [Run(dc.tree_from_json(inp['tree']), inp['category'], inp['patterns'], 'replay')]
        if 'other_run' in obj:
            o = obj['other_run']
            rs.append(Run(dc.tree_from_json(o['tree']), o['category'], o['patterns'], 'replay-other'))
        evaluate(hz, oracle, rs, rng, 'c15replay')
        rc = 0
        for r in rs:
            print('category / patterns:', r.cat, r.ps)
            print('listing order observed:', dc.listing_json(r))
            print('implementation:', dc.impl_json(r))
            print('per-file union demands:', dc.expected_py(r, oracle))
            print('failed sub-checks:', r.codes, '(file, pattern) verdicts examined / failed:', r.extra['verdicts'])
            if r.codes or r.extra['verdicts'][1]:
                rc = 1
        if len(rs) == 2 and verdict_map(rs[0]) is not None and verdict_map(rs[1]) is not None:
            a, b = verdict_map(rs[0]), verdict_map(rs[1])
            for k in set(a) & set(b):
                if a[k] != b[k]:
                    print('verdict differs between the runs:', k, a[k], b[k])
                    rc = 1
        return rc
    finally:
        hz.close()
        dc.cleanup()
