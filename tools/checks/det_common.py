"""Correspondence of the detector models with the implementation (shared by C04-C09, C17, C19)."""
import vlib
from vlib import log, coq_list, coq_pairs

DETS = ['address_balance', 'address_zero', 'assign_update_array_value', 'bool_equals_bool', 'cache_array_length',
        'constant_variables', 'immutable_variables', 'increment_decrement', 'memory_to_calldata', 'multiple_require',
        'optimal_comparison', 'pack_storage_variables', 'pack_struct_variables', 'payable_function', 'private_constant',
        'safe_math_pre_080', 'safe_math_post_080', 'shift_math', 'short_revert_string', 'solidity_keccak256',
        'solidity_math', 'sstore', 'string_errors', 'divide_before_multiply', 'floating_pragma',
        'unprotected_selfdestruct', 'unsafe_erc20_operation', 'constructor_order', 'private_func_leading_underscore',
        'private_vars_leading_underscore']
IDX = {n: i for i, n in enumerate(DETS)}
IMPORTS = 'Lift Pt Walk Res Nodes Utils Detectors Cases DetCases'


def coq_opt_pairs(v):
    return 'None' if v == 'PANIC' else '(Some %s)' % coq_pairs(v)


def coq_opt_lines(v):
    return 'None' if v == 'PANIC' else '(Some %s)' % coq_list('%d%%Z' % x if x >= 0 else '(%d)%%Z' % x for x in v)


def impl_dets_expr(r):
    return coq_list(coq_opt_pairs(r['det'][n]) for n in DETS)


def impl_lines_expr(r):
    return coq_list(coq_opt_lines(r['lines'][n]) for n in DETS)


def evaluate(ctx, progs, name, extra=None, release=False, harness=None):
    """-> (ProgSet, [(prog, impl_result, det_mismatch_indices, line_mismatch_indices, extra_values...)])
    extra: function (prog, impl_result) -> list of additional Coq expressions"""
    ps = vlib.ProgSet(progs, name).ensure(ctx.harness)
    impl = ps.run_impl(harness or ctx.harness, walk=False)
    exprs = []
    for p, r in zip(ps.progs, impl):
        j = p['j']
        e = ['check_dets p%d %s' % (j, impl_dets_expr(r)),
             'check_lines s%d p%d %s' % (j, j, impl_lines_expr(r))]
        if extra:
            e += extra(p, r)
        exprs.append(e)
    vals = ps.coq_eval(exprs, IMPORTS + (' ' + ctx.extra_imports if getattr(ctx, 'extra_imports', None) else ''), 'det')
    out = []
    for p, r, v in zip(ps.progs, impl, vals):
        out.append((p, r, v[0], v[1], v[2:]))
    return ps, out
