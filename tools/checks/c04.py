"""C04 - analysis never aborts on a file the parser accepts.
S: any panic of any of the 30 detectors / analyze_for_* on a parseable input (debug and release
harness builds; out-of-domain stream, depth-64 and 300-definition files included).
M: panic behaviour of model and implementation differ.  P: props/C04.v (no_panic under wf_parser).
Runtime part (partial): stack exhaustion is not in the model; the real binary is run on deep files."""
import os, shutil, subprocess, random
import vlib
from vlib import log
from checks import common, det_common
from checks.det_common import DETS
import gen_programs as gp


def deep_programs():
    P = []
    pre = gp.PRELUDE
    for d in (16, 32, 48, 64):
        P.append({'gen': 'deep:paren:%d' % d, 'src': pre + 'contract A { function f(uint a) public returns (uint) { return ' + '(' * d + 'a + 1' + ')' * d + '; } }\n'})
        P.append({'gen': 'deep:if:%d' % d, 'src': pre + 'contract A { function f(uint a) public { ' + 'if (a > 1) { ' * d + 'a++;' + ' }' * d + ' } }\n'})
        P.append({'gen': 'deep:binop:%d' % d, 'src': pre + 'contract A { function f(uint a) public returns (uint) { return ' + 'a * 2 + (' * d + 'a' + ')' * d + '; } }\n'})
        P.append({'gen': 'deep:call:%d' % d, 'src': pre + 'contract A { function f(uint a) public returns (uint) { return ' + 'f(' * d + 'a' + ')' * d + '; } }\n'})
        P.append({'gen': 'deep:unchecked:%d' % d, 'src': pre + 'contract A { function f(uint a) public { ' + 'unchecked { ' * d + '++a;' + ' }' * d + ' } }\n'})
    for n in (100, 255, 256, 257, 300, 1000):
        P.append({'gen': 'many:fns:%d' % n, 'src': pre + 'contract A {\n' + '\n'.join('function f%d() public {}' % i for i in range(n)) + '\nconstructor() {}\n}\n'})
        P.append({'gen': 'many:vars:%d' % n, 'src': pre + 'contract A {\n' + '\n'.join('uint8 v%d;' % i for i in range(n)) + '\n}\n'})
        P.append({'gen': 'many:contracts:%d' % n, 'src': pre + '\n'.join('contract A%d { constructor() {} }' % i for i in range(n)) + '\n'})
    for lit in ['0', '1', '4294967295', '4294967296', '18446744073709551616', str(2 ** 255), str(2 ** 256 - 1), '1e77', '1e-5', '0x' + 'f' * 64,
                '1_000_000_000_000', '00012', '.5', '5.', '1.5e10']:
        P.append({'gen': 'lit:' + lit, 'src': pre + 'contract A { function f(uint a) public returns (uint) { return a * %s + a / %s; } }\n' % (lit, lit)})
    for call in ['address()', 'require()', 'keccak256()', 'selfdestruct()', 'f()', 'payable()', 'abi.encode()', 'this.transfer()']:
        P.append({'gen': 'noargs:' + call, 'src': pre + 'contract A { function f(address a) public { a == %s; %s; } }\n' % (call, call)})
    return P


def run(rep, ctx):
    ctx.extra_imports = 'Patterns Patterns2 SpecCases Opt_pack NoPanic'
    n_random = 300 if ctx.tier == 'quick' else 3000
    progs = common.standard_programs(ctx, n_random, n_per_carrier=1) + deep_programs()
    rel = vlib.build_harness(release=True)
    log('release harness built')

    def extra(p, r):
        return ['(wf_parser_b p%d, model_panics p%d)' % (p['j'], p['j'])]
    ps, out = det_common.evaluate(ctx, progs, 'c04-%s-%d' % (ctx.tier, ctx.seed), extra=extra)
    impl_rel = ps.run_impl(rel, walk=False, tag='release')
    log('C04 evaluated', len(out), 'programs (debug + release)')
    S = []
    M = []
    wf_false = 0
    max_depth = 0
    for (p, r, dm, lm, ex), rr in zip(out, impl_rel):
        wf, mp = ex[0]
        max_depth = max(max_depth, p['depth'])
        if not wf:
            wf_false += 1
        pan = [n for n in DETS if r['det'][n] == 'PANIC' or r['lines'][n] == 'PANIC']
        pan_rel = [n for n in DETS if rr['det'][n] == 'PANIC' or rr['lines'][n] == 'PANIC']
        diff_rel = [n for n in DETS if rr['det'][n] != r['det'][n] or rr['lines'][n] != r['lines'][n]]
        if pan or pan_rel:
            S.append((p, pan, pan_rel))
        elif diff_rel:
            S.append((p, ['release and debug builds differ: ' + ','.join(diff_rel)], []))
        else:
            mdl = set(DETS[k] for k in mp)
            if mdl:
                M.append((p, sorted(mdl)))
    rep.coverage['evaluations'] = 2 * len(out) * len(DETS)
    rep.coverage['distinct_nontrivial'] = len(set(p['src'] for p, r, dm, lm, ex in out))
    rep.coverage['rule'] = ('every parseable program of: repo corpus, slot catalogue, carriers, random grammar, out-of-domain stream (no pragma, '
                            'odd versions, huge literals, address(), free functions, 255/256/300 functions), nesting depth 16..64 of five '
                            'shapes, 100..1000 functions / variables / contracts, literal and empty-call boundary values; x 30 detectors x '
                            '{detector function, analyze_for_*} x {debug (overflow-checked), release (wrapping)} under catch_unwind; all '
                            'programs are distinct and non-trivial (every one exercises all 30 detectors); wf_parser is evaluated in Coq on every tree')
    rep.coverage['programs'] = len(out)
    rep.coverage['wf_parser_false_on_parser_output'] = wf_false
    rep.coverage['max_nesting_depth'] = max_depth
    rep.coverage['traces_validated_against_impl'] = len(out) - len(S) - len(M)
    rep.coverage['samples'] = [{'gen': p['gen'], 'src': p['src'][:200]} for p, r, dm, lm, ex in out[:: max(1, len(out) // 5)][:5]]
    rep.assumptions = ['wf_parser (lexer keyword table, StringLiteral+ production, < 2^32 members): evaluated on every parsed tree, never false so far',
                       'partial (runtime): stack exhaustion and panics inside solang-parser / regex are not in the model; '
                       'the deep-nesting runs of the real binary below sample them']
    found = False
    if wf_false:
        found = True
        bad = [p for (p, r, dm, lm, ex) in out if not ex[0][0]][0]
        rep.violation('the parser returned a tree that violates wf_parser (the hypothesis of no_panic)',
                      {'kind': 'S', 'input': bad['src'], 'theorem': 'no_panic'})
    hung = {}
    for p, r, dm, lm, ex in out:
        if isinstance(r, dict) and r.get('hang'):
            hung[p['src']] = r['hang']
    for p, pan, pan_rel in S[:3]:
        found = True
        if p['src'] in hung:
            # no shrinking: every candidate would cost the harness' per-file time limit
            rep.violation('the analysis of a parseable file does not terminate (no result within the time limit of the harness; '
                          'detector running: %s)' % hung[p['src']],
                          {'kind': 'S', 'input': p['src'], 'original_gen': p['gen'], 'hanging_detector': hung[p['src']],
                           'n_failing_programs': len(S)})
            continue

        def still(cands, names=tuple(pan + pan_rel)):
            ps2 = vlib.ProgSet([{'gen': 'shrink', 'src': c} for c in cands], 'shrink').ensure(ctx.harness)
            r1 = ps2.run_impl(ctx.harness)
            r2 = ps2.run_impl(rel, tag='release')
            m = {}
            for q, a, b in zip(ps2.progs, r1, r2):
                m[q['src']] = any(a['det'][n] == 'PANIC' or a['lines'][n] == 'PANIC' or b['det'][n] == 'PANIC' or b['lines'][n] == 'PANIC'
                                  for n in DETS)
            return [m.get(c, False) for c in cands]
        small = common.shrink(p['src'], still) if (pan or pan_rel) and isinstance(pan[0] if pan else '', str) and not (pan and pan[0].startswith('release and')) else p['src']
        rep.violation('panic on a parseable file: debug %s release %s' % (pan, pan_rel),
                      {'kind': 'S', 'input': small, 'original_gen': p['gen'], 'panicking_debug': pan, 'panicking_release': pan_rel,
                       'n_failing_programs': len(S)})
    for p, mdl in M[:2]:
        rep.violation('the model panics where the implementation does not: ' + ', '.join(mdl),
                      {'kind': 'M', 'input': p['src'], 'correspondence': [{'model_function': 'Detectors.' + n, 'rust_function': n} for n in mdl]},
                      no_input=True)
    # ---- runtime part: the real binary on deep files (stack depth); exit by signal = abort
    binp = vlib.build_solstat_bin()
    wd = os.path.join(vlib.CACHE, 'c04run', str(os.getpid()))
    shutil.rmtree(wd, ignore_errors=True)
    os.makedirs(os.path.join(wd, 'contracts'))
    runs = []
    known = [k for k in vlib.known_findings() if k['kind'] == 'known' and k.get('property') == 'C04']
    for p in deep_programs():
        if not p['gen'].startswith('deep:'):
            continue
        for f in os.listdir(os.path.join(wd, 'contracts')):
            os.remove(os.path.join(wd, 'contracts', f))
        open(os.path.join(wd, 'contracts', 'a.sol'), 'w').write(p['src'])
        pr = subprocess.run([binp, '--path', './contracts'], cwd=wd, stdout=subprocess.PIPE, stderr=subprocess.PIPE)
        runs.append((p['gen'], pr.returncode))
    shutil.rmtree(wd, ignore_errors=True)
    aborted = [(g, rc) for g, rc in runs if rc != 0]
    rep.coverage['binary_runs_on_deep_files'] = {'runs': len(runs), 'non_zero_exit': aborted}
    for g, rc in aborted:
        shape, depth = g.split(':')[1], int(g.split(':')[2])
        kn = [k for k in known if k.get('class') == 'debug-binary-stack-overflow' and depth >= int(k.get('min_depth', '0'))]
        if kn:
            rep.known_finding('the unoptimised debug build of the solstat binary exhausts its 8 MiB main-thread stack on %s nesting depth %d '
                              '(exit %d); release build and harness (opt-level 1) unaffected' % (shape, depth, rc))
        else:
            found = True
            rep.violation('the solstat binary aborted (exit %d) on a parseable file of nesting depth %d (%s)' % (rc, depth, shape),
                          {'kind': 'S', 'input': [q['src'] for q in deep_programs() if q['gen'] == g][0], 'exit_code': rc,
                           'binary': 'debug build of /repo'})
    common.finish_proof_status(rep, ctx, found)


def replay(obj):
    ctx = common.Ctx()
    ctx.tier = 'quick'
    ctx.seed = 1
    ctx.harness = vlib.build_harness()
    rel = vlib.build_harness(release=True)
    ps = vlib.ProgSet([{'gen': 'replay', 'src': obj['input']}], 'replay').ensure(ctx.harness)
    a = ps.run_impl(ctx.harness)[0]
    b = ps.run_impl(rel, tag='release')[0]
    pan = [n for n in DETS if a['det'][n] == 'PANIC' or a['lines'][n] == 'PANIC']
    pan_rel = [n for n in DETS if b['det'][n] == 'PANIC' or b['lines'][n] == 'PANIC']
    print('input:\n' + obj['input'][:2000])
    print('panicking detectors (debug):', pan)
    print('panicking detectors (release):', pan_rel)
    return 1 if pan or pan_rel else 0
