"""Generic check for the detector properties C05-C09: model = implementation on the
property's detectors (M), specification evaluated on the implementation's output (S),
proof obligations (P)."""
import json, os
import vlib
from vlib import log
from checks import common, det_common
from checks.det_common import DETS

PROPS = {
    'C05': {'dets': [0, 1, 2, 3, 4, 7, 9, 10, 17, 19, 20], 'spec': 'spec_c05', 'stats': 'stats_c05', 'hyp': None,
            'theorem_file': 'coq/props/C05.v'},
    'C06': {'dets': [13, 14, 27, 28, 29], 'spec': 'spec_c06', 'stats': 'stats_c06', 'hyp': 'hyp_c06',
            'theorem_file': 'coq/props/C06.v'},
    'C07': {'dets': [23, 24, 25, 26], 'spec': 'spec_c07', 'stats': 'stats_c07', 'hyp': None,
            'theorem_file': 'coq/props/C07.v'},
    'C08': {'dets': [5, 6, 8, 21], 'spec': 'spec_c08', 'stats': 'stats_c08', 'hyp': 'hyp_c08',
            'theorem_file': 'coq/props/C08.v'},
    'C09': {'dets': [15, 16, 18, 22], 'spec': 'spec_c09', 'stats': 'stats_c09', 'hyp': None,
            'theorem_file': 'coq/props/C09.v'},
}


def code_text(c):
    if c >= 1000:
        c -= 1000
        if c >= 100:
            return 'analyze_for_*: %s reports a line on which no construct matching its pattern begins' % DETS[c - 100]
        return 'analyze_for_*: %s does not report the line of a canonical occurrence of its pattern' % DETS[c]
    if c >= 100:
        return '%s reports a location at which nothing matching its pattern begins' % DETS[c - 100]
    return '%s does not report a canonical occurrence of its pattern' % DETS[c]


def make_extra(prop):
    P = PROPS[prop]

    def extra(p, r):
        j = p['j']
        e = ['%s p%d %s' % (P['spec'], j, det_common.impl_dets_expr(r)), '%s p%d' % (P['stats'], j),
             # the same specification at the level the user sees: the lines returned by analyze_for_* (dispatch by
             # name, parse, detector, line lookup), called right after an unrelated file of the same length
             'spec_lines_both p%d s%d %s' % (j, j, det_common.impl_lines_expr(r))]
        if P['hyp']:
            e.append('%s p%d' % (P['hyp'], j))
        return e
    return extra


def eval_prop(ctx, prop, progs, name):
    P = PROPS[prop]
    ctx.extra_imports = 'Patterns Patterns2 SpecCases AnchorCases'
    ps, out = det_common.evaluate(ctx, progs, name, extra=make_extra(prop))
    res = []
    for p, r, dm, lm, ex in out:
        spec_fail = ex[0]
        stats = ex[1]
        hyp = ex[3] if P['hyp'] else True
        if spec_fail is None:        # option: hypothesis of the property does not apply (C09: no single full version)
            hyp = False
            spec_fail = []
        # line level: model (analyze_lines) and specification, restricted to the detectors of this property
        line_spec = [1000 + c for c in ex[2] if (c % 100) in P['dets']]
        m = [k for k in dm if k in P['dets']] + [1000 + k for k in lm if k in P['dets'] and k not in dm]
        s = (spec_fail + line_spec) if hyp else []
        res.append({'p': p, 'r': r, 'M': m, 'S': s, 'stats': stats, 'hyp': hyp})
    return ps, res


def nontrivial(prop, x):
    st = x['stats']
    if not x['hyp']:
        return False
    if prop in ('C05', 'C08'):
        return any(a > 0 for a, b in st)
    if prop == 'C06':
        return any(a > 0 for a in st[:5])
    if prop == 'C07':
        return any(a > 0 for a in st)
    if prop == 'C09':
        return st[1] > 0 or st[2] > 0
    return True


def run(rep, ctx, prop, extra_progs=None, rule_extra=''):
    P = PROPS[prop]
    n_random = 300 if ctx.tier == 'quick' else 3000
    progs = common.standard_programs(ctx, n_random, n_per_carrier=2 if ctx.tier == 'quick' else 10)
    # the line sets are part of what is compared: the hand-written shapes and the repo's own test contracts also with
    # CRLF line ends, with leading blank lines and without a final line end (same tokens, other line structure)
    variants = []
    for p in progs:
        if p['gen'].startswith(('special:', 'corpus:')) and len(p['src']) < 6000 and '\r' not in p['src']:
            variants.append({'gen': 'crlf:' + p['gen'], 'src': p['src'].replace('\n', '\r\n')})
            if p['gen'].startswith('special:'):
                variants.append({'gen': 'lead:' + p['gen'], 'src': '\n\n  \n' + p['src'].rstrip('\n')})
    # every carrier (canonical / between / never form of a pattern) also with each token on a line of its own and with a
    # comment in every gap: nothing between two tokens is part of a pattern (`address( 0 )`, `tok .\n transfer`)
    import random
    import sol_lexer as sl
    lrng = random.Random(ctx.seed * 7919 + 5)
    for p in progs:
        if p['gen'].startswith('carrier:'):
            for style in ('lines', 'dense'):
                try:
                    variants.append({'gen': style + ':' + p['gen'], 'src': sl.relayout(p['src'], lrng, style)[0]})
                except sl.LexError:
                    pass
    progs = progs + variants
    ps, res = eval_prop(ctx, prop, progs, 'std-%s-%d' % (ctx.tier, ctx.seed))
    if extra_progs:
        ps2, res2 = eval_prop(ctx, prop, extra_progs, '%s-%s-%d' % (prop.lower(), ctx.tier, ctx.seed))
        res += res2
    log(prop, 'evaluated', len(res), 'programs')
    bad_S = [x for x in res if x['S']]
    bad_M = [x for x in res if x['M'] and not x['S']]
    rep.coverage['evaluations'] = len(res)
    rep.coverage['distinct_nontrivial'] = len(set(x['p']['src'] for x in res if nontrivial(prop, x)))
    rep.coverage['hypotheses_hold'] = sum(1 for x in res if x['hyp'])
    rep.coverage['traces_validated_against_impl'] = sum(1 for x in res if not x['M'] and not x['S'])
    by_gen = {}
    for x in res:
        g = x['p']['gen'].split(':')[0]
        by_gen[g] = by_gen.get(g, 0) + 1
    rep.coverage['programs_by_generator'] = by_gen
    # per-detector positive counts
    pos = {}
    for x in res:
        for k in P['dets']:
            v = x['r']['det'][DETS[k]]
            if v != 'PANIC' and v:
                pos[DETS[k]] = pos.get(DETS[k], 0) + 1
    rep.coverage['programs_with_findings_per_detector'] = pos
    rep.coverage['rule'] = ('programs: repo test corpus, slot catalogue, detector carriers (canonical / between / never forms) x '
                            'syntactic contexts, seeded random grammar, out-of-domain stream' + rule_extra +
                            '; for each program and each detector of the property: location set of the implementation = model '
                            '(set equality), and specification (canonical anchors subset of reported subset of matching anchors, '
                            'computed from the complete pre-order) evaluated on the implementation output; non-trivial = the '
                            'property hypotheses hold and at least one detector of the property has a canonical/matching anchor')
    rep.coverage['samples'] = [{'gen': x['p']['gen'], 'src': x['p']['src'][-300:], 'stats': x['stats'],
                                'impl': {DETS[k]: x['r']['det'][DETS[k]] for k in P['dets']}}
                               for x in res[:: max(1, len(res) // 4)][:4]]
    found = False
    known = [k for k in vlib.known_findings() if k['kind'] == 'known' and k.get('property') == prop]
    reported = 0
    seen = set()
    for x in bad_S + bad_M:
        is_S = bool(x['S'])
        key = (is_S, tuple(x['S']), tuple(x['M']))
        if key in seen:
            continue
        seen.add(key)
        if reported >= 4:
            break

        def still(cands, x0=x):
            _, rr = eval_prop(ctx, prop, [{'gen': 'shrink', 'src': c} for c in cands], 'shrink')
            m = {y['p']['src']: y for y in rr}
            outl = []
            for c in cands:
                y = m.get(c)
                if y is None:
                    outl.append(False)
                elif x0['S']:
                    outl.append(bool(set(y['S']) & set(x0['S'])))
                else:
                    outl.append(bool(set(y['M']) & set(x0['M'])) and not y['S'])
            return outl
        small = common.shrink(x['p']['src'], still)
        _, rr = eval_prop(ctx, prop, [{'gen': 'min', 'src': small}], 'shrink')
        y = rr[0]
        if is_S:
            found = True
            what = '; '.join(code_text(c) for c in y['S'])
            rep.violation(what, {'kind': 'S', 'input': small, 'original_gen': x['p']['gen'], 'spec_failures': y['S'],
                                 'impl': {DETS[k]: y['r']['det'][DETS[k]] for k in P['dets']},
                                 'impl_lines': {DETS[k]: y['r']['lines'][DETS[k]] for k in P['dets']},
                                 'theorem_file': P['theorem_file'], 'n_failing_programs': len(bad_S)})
        else:
            what = 'model and implementation disagree on ' + ', '.join(
                (DETS[k - 1000] + ' (line set of analyze_for_*)') if k >= 1000 else DETS[k] for k in y['M'])
            rep.violation(what, {'kind': 'M', 'input': small, 'original_gen': x['p']['gen'],
                                 'correspondence': [{'model_function': ('DetCases.analyze_lines ' if k >= 1000 else 'Detectors.') + DETS[k % 1000],
                                                     'rust_function': ('analyze_for_* -> ' if k >= 1000 else '') + DETS[k % 1000]} for k in y['M']],
                                 'impl': {DETS[k % 1000]: (y['r']['lines'] if k >= 1000 else y['r']['det'])[DETS[k % 1000]] for k in y['M']},
                                 'n_disagreeing_programs': len(bad_M)}, no_input=True)
        reported += 1
    common.finish_proof_status(rep, ctx, found)


def replay(prop, obj):
    ctx = common.Ctx()
    ctx.tier = 'quick'
    ctx.seed = 1
    ctx.harness = vlib.build_harness()
    _, rr = eval_prop(ctx, prop, [{'gen': 'replay', 'src': obj['input']}], 'replay')
    y = rr[0]
    print('input:\n' + y['p']['src'])
    print('implementation:', {DETS[k]: (y['r']['det'][DETS[k]], y['r']['lines'][DETS[k]]) for k in PROPS[prop]['dets']})
    print('model/implementation disagreements:', [DETS[k % 1000] + (' (lines)' if k >= 1000 else '') for k in y['M']])
    print('specification failures:', [code_text(c) for c in y['S']], '(hypotheses hold: %s)' % y['hyp'])
    return 1 if (y['M'] or y['S']) else 0
