"""C03 - directory analysis is the exact union of the per-file results.

Decided by: theorem analyze_dir_union (props/C03.v) about the model coq/model/Dir.v of the three
analyze_dir copies + correspondence of that model with the real functions on real directory
trees (random shapes, inert files, every interleaving of files and sub-directories in the
listing of 4-entry directories), with the listing order that read_dir actually returned fed to
the model; the specification (multiset union of the per-file results) is evaluated in Coq on
the implementation's own output for every run.  The real binary is run end to end as well."""
import os, itertools, random, shutil, subprocess, json
import vlib
from vlib import log, coq_list, coq_str
from checks import common
from checks import dir_common as dc
from checks.dir_common import Run, F, D


def pick_ps(rng, oracle, cat):
    names = oracle.names(cat)
    r = rng.random()
    if r < 0.15:
        ps = list(names)
    elif r < 0.3:
        ps = [rng.choice(names)]
    else:
        ps = rng.sample(names, rng.randint(1, min(len(names), 6)))
    rng.shuffle(ps)
    return ps


def content_picker(oracle, pool, cat, ps):
    good = [c for n, c in pool if oracle.good_for(c, cat, ps)]
    hits = [c for c in good if any(oracle.lines(c, cat, p) for p in ps)]

    edge = [c for c in dc.edge_contents() if oracle.good_for(c, cat, ps)]

    def pick(rng):
        r = rng.random()
        if edge and r < 0.1:
            return rng.choice(edge)       # blank / comment-only / leading-blank-lines files among the siblings
        if hits and r < 0.82:
            return rng.choice(hits)
        return rng.choice(good)
    return pick if good else None


def role_sets(pool_pick, rng):
    """4 roles of a directory: two files and two sub-directories, findings everywhere"""
    def f(name):
        return F(name, pool_pick(rng))
    return [
        [('f', None), ('f', None), ('d', [f('In1.sol')]), ('d', [f('In2.sol'), D('more', [f('In3.sol')])])],
        [('f', None), ('d', [f('In1.sol'), f('In2.sol')]), ('f', None), ('f', None)],
        [('d', [f('A.sol')]), ('d', [f('B.sol')]), ('d', [D('x', [f('C.sol')])]), ('f', None)],
    ]


def perm_runs(rng, oracle, pool, cat, ps, names, roles, pick):
    """all assignments of the roles to the names (created in the order of `names`): whatever
    order the file system lists the names in, every interleaving of the roles is listed"""
    runs = []
    data = [pick(rng) for _ in roles]
    for sigma in itertools.permutations(range(len(roles))):
        t = []
        for i, nm in enumerate(names):
            kind, ch = roles[sigma[i]]
            if kind == 'f':
                t.append(F(nm, data[sigma[i]]))
            else:
                t.append(D(nm, ch))
        r = Run(t, cat, ps, 'perm', 'given')
        r.extra['roles'] = {nm: sigma[i] for i, nm in enumerate(names)}
        r.extra['roleset'] = id(roles)
        runs.append(r)
    return runs


def gen_runs(rng, oracle, pool, tier):
    runs = []
    cats = sorted(oracle.cats)
    n_random = 120 if tier == 'quick' else 1500
    # 1. every pool content alone in a directory, all patterns of each category (this is also the
    #    check that the oracle = analyze_dir on the file on its own)
    for n, c in pool:
        cat0 = rng.choice(cats)
        for cat in cats:
            # in every category in which the file has findings of its own (a file without any contract has them too)
            if cat == cat0 or (oracle.good_for(c, cat, oracle.names(cat)) and any(oracle.lines(c, cat, q) for q in oracle.names(cat))):
                runs.append(Run([F('Only.sol', c)], cat, oracle.names(cat), 'single'))
    # 2. random trees
    for k in range(n_random):
        for cat in cats:
            ps = pick_ps(rng, oracle, cat)
            pick = content_picker(oracle, pool, cat, ps)
            if pick is None:
                continue
            t = dc.random_tree(rng, pick, max_entries=10 if k % 3 else 5)
            runs.append(Run(t, cat, ps, 'random'))
    # 3. all 24 interleavings for 4-entry directories (5 entries / 120 in the thorough tier)
    for cat in cats:
        ps = pick_ps(rng, oracle, cat)
        pick = content_picker(oracle, pool, cat, ps)
        if pick is None:
            continue
        for roles in role_sets(pick, rng)[: (2 if tier == 'quick' else 3)]:
            runs += perm_runs(rng, oracle, pool, cat, ps, ['n1.sol', 'n2.sol', 'm3.sol', 'k4.sol'], roles, pick)
        if tier != 'quick':
            roles = role_sets(pick, rng)[0] + [('d', [F('Z.sol', pick(rng)), D('zz', [])])]
            runs += perm_runs(rng, oracle, pool, cat, ps, ['n1.sol', 'n2.sol', 'm3.sol', 'k4.sol', 'j5.sol'], roles, pick)
    # 3b. the same 4-entry tree created in all 24 creation orders
    for cat in cats[:2]:
        ps = pick_ps(rng, oracle, cat)
        pick = content_picker(oracle, pool, cat, ps)
        if pick is None:
            continue
        base = [F('A.sol', pick(rng)), D('sub', [F('B.sol', pick(rng)), F('a.t.sol', b'garbage')]), F('C.sol', pick(rng)),
                D('lib', [D('deep', [F('E.sol', pick(rng))])])]
        for sigma in itertools.permutations(range(4)):
            runs.append(Run([base[i] for i in sigma], cat, ps, 'creation', 'given'))
    # 3c. symbolic links: a linked sub-directory and a linked file are analysed like ordinary ones (the walker
    #     follows links; the directory model takes the tree as seen through them), in every category
    for cat in cats:
        ps = pick_ps(rng, oracle, cat)
        pick = content_picker(oracle, pool, cat, ps)
        if pick is None:
            continue
        for variant in range(2):
            linked = D('linked', [F('In.sol', pick(rng)), D('deep', [F('E.sol', pick(rng))])])
            linked['link'] = True
            lf = F('Lnk.sol', pick(rng))
            lf['link'] = True
            inner = D('sub', [F('B.sol', pick(rng))])
            if variant:
                inner['ch'].append(dict(linked, name='again'))
            t = [F('A.sol', pick(rng)), linked, lf, inner]
            runs.append(Run(t, cat, ps, 'symlink'))
        # two names for the same file and for the same sub-directory (relative links to a sibling)
        tok = F('Token.sol', pick(rng))
        alias = dict(tok, name='Alias.sol', alias_of='Token.sol')
        lib = D('lib', [F('In.sol', pick(rng)), D('deep', [F('E.sol', pick(rng))])])
        vendor = dict(lib, name='vendor', alias_of='lib')
        runs.append(Run([tok, alias, lib, vendor, F('Z.sol', pick(rng))], cat, ps, 'alias'))
        runs.append(Run([D('x', [tok, alias]), F('Token.sol', tok['data'])], cat, ps, 'alias'))
    # 3d. identical copies of a file (same name, same content) in different directories, with another file of the
    #     same patterns before / between / after them in the listing: every copy is a finding of its own
    for cat in cats:
        ps = pick_ps(rng, oracle, cat)
        pick = content_picker(oracle, pool, cat, ps)
        if pick is None:
            continue
        c1, c2 = pick(rng), pick(rng)
        for where in range(3):
            dirs = [[F('Token.sol', c1)], [F('Token.sol', c1)], []]
            dirs[where].append(F('Other.sol', c2))
            runs.append(Run([D('a', dirs[0]), D('b', dirs[1]), D('m', dirs[2])], cat, ps, 'copies'))
        runs.append(Run([F('Token.sol', c1), D('legacy', [F('Token.sol', c1)]), D('v2', [F('Token.sol', c2)])], cat, ps, 'copies'))
        runs.append(Run([D('x', [D('y', [F('Token.sol', c1)]), F('Token.sol', c1)]), F('Token.sol', c1)], cat, ps, 'copies'))
    # 3e. a chain of 24 nested directories with an eligible file at every level
    for cat in cats:
        ps = pick_ps(rng, oracle, cat)
        pick = content_picker(oracle, pool, cat, ps)
        if pick is None:
            continue
        t = [F('L24.sol', pick(rng))]
        for lvl in range(23, 0, -1):
            t = [F('L%d.sol' % lvl, pick(rng)), D('d', t)] if lvl % 2 else [D('d', t), F('L%d.sol' % lvl, pick(rng)), F('skip.t.sol', b'garbage')]
        runs.append(Run(t, cat, ps, 'deep'))
    # 3f. a deeply nested (but analysable) file below the root: the stack a file gets must not depend on where it sits
    import gen_programs as gp
    deep = [p['src'].encode('utf-8') for p in gp.special_programs() if p['gen'] in ('special:deep-parentheses', 'special:long-operator-chain')]
    # 900 levels of `(x + ...)`: beyond what a 64 MiB thread can analyse in an unoptimised build, within the stack the binary gives its analysis
    expr = 'x'
    for _ in range(900):
        expr = '(x + %s)' % expr
    deep.append((gp.PRELUDE + 'contract Deep { uint private total; function f(uint x) public returns (uint) { x++; total += 1; return %s; } }\n' % expr).encode('utf-8'))
    oracle.ensure(deep)
    for cat in cats:
        ps = oracle.names(cat)
        pick = content_picker(oracle, pool, cat, ps)
        for dsrc in deep:
            if pick is None or dsrc not in oracle.cid or not oracle.good_for(dsrc, cat, ps):
                continue
            runs.append(Run([F('Top.sol', pick(rng)), D('core', [D('math', [F('Deep.sol', dsrc), F('Near.sol', pick(rng))])]), F('Deep.sol', dsrc)], cat, ps, 'deep-file'))
    # 4. runs that must abort: an eligible file that is unreadable / rejected by the parser /
    #    panics a detector, somewhere in the tree; and the same with an empty pattern list
    bad = [c for n, c in pool if not all(oracle.good_for(c, cat, oracle.names(cat)) for cat in cats)]
    for k in range(20 if tier == 'quick' else 120):
        cat = rng.choice(cats)
        ps = pick_ps(rng, oracle, cat) if k % 5 else []
        pick = content_picker(oracle, pool, cat, ps)
        if pick is None:
            continue
        t = dc.random_tree(rng, pick, max_entries=6)
        culprit = F('Bad%d.sol' % k, rng.choice([dc.UNREADABLE, b'contract {', rng.choice(bad) if bad else b'{']))
        where = t
        while True:
            ds = [e for e in where if e['k'] == 'd']
            if ds and rng.random() < 0.5:
                where = rng.choice(ds)['ch']
            else:
                break
        where.insert(rng.randint(0, len(where)), culprit)
        runs.append(Run(t, cat, ps, 'abort'))
    # 5. duplicate patterns in the list (outside the theorem's hypotheses; model = implementation only)
    for k in range(6 if tier == 'quick' else 30):
        cat = rng.choice(cats)
        ps = pick_ps(rng, oracle, cat)
        ps = ps + [rng.choice(ps)]
        pick = content_picker(oracle, pool, cat, ps)
        if pick is None:
            continue
        runs.append(Run(dc.random_tree(rng, pick, max_entries=5), cat, ps, 'dup-pattern'))
    return runs


def binary_one(hz, oracle, t, rng, k, exe):
    """run the real solstat binary on the tree (default configuration = all 30 patterns) in an empty
    cwd; compare the `- file:line` items of solstat_report.md, as a multiset, in Coq, with the union
    of the per-file results.  -> (hypotheses hold, conforms, info)"""
    r = Run(t, 'opt', [], 'binary')
    oracle.ensure(dc.oracle_contents([r]))
    cats = sorted(oracle.cats)
    dc.run_impl(hz, [r], rng, keep=True)
    cwd = os.path.join(dc.FSROOT, 'cwd%d' % k)
    os.makedirs(cwd)
    p = subprocess.run([exe, '--path', r.root], cwd=cwd, stdout=subprocess.PIPE, stderr=subprocess.PIPE, timeout=600)
    pairs = []
    rp = os.path.join(cwd, 'solstat_report.md')
    ok = p.returncode == 0 and os.path.exists(rp)
    if ok:
        inside = False
        for line in open(rp, 'rb').read().split(b'\n'):
            if line == b'### Lines':
                inside = True
            elif inside and line.startswith(b'- ') and b':' in line:
                nm, _, ln = line[2:].rpartition(b':')
                pairs.append((nm, int(ln)))
            elif inside and not line.strip():
                inside = False
    shutil.rmtree(r.root, ignore_errors=True)
    shutil.rmtree(cwd, ignore_errors=True)
    tbls = coq_list('(tbl_%s, %s)' % (cat, coq_list(str(i) for i in range(len(oracle.names(cat))))) for cat in cats)
    tt = dc.listing_term(r, oracle)
    pterm = coq_list('(%s, %d%%Z)' % (coq_str(nm), ln) for nm, ln in pairs)
    v = dc.coq_eval(oracle, [([r], ['all_ok_all %s %s' % (tbls, tt), 'check_report %s %s %s' % (tbls, tt, pterm),
                                    'lenN (report_pairs %s %s)' % (tbls, tt)])], 'c03bin')[0]
    info = {'tree': dc.tree_json(t), 'exit': p.returncode, 'stderr': p.stderr.decode('utf-8', 'replace')[-500:],
            'report_items': [[a.decode('utf-8', 'replace'), b] for a, b in pairs], 'expected_item_count': v[2]}
    return bool(v[0]), bool(ok and v[1]), info


def deep_trees(near):
    """a deeply nested file at the top of the analysed directory and, in a second tree, two directories below it: where a
    file sits must not decide whether the run survives it (the binary analyses on a thread with a large stack)"""
    expr = 'x'
    for _ in range(600):
        expr = '(x + %s)' % expr
    dsrc = ('pragma solidity ^0.8.0;\ncontract Deep { uint private total; function f(uint x) public returns (uint) { x++; total += 1; return %s; } }\n' % expr).encode('utf-8')
    return [F('Deep.sol', dsrc), F('Near.sol', near)], [F('Near.sol', near), D('core', [D('math', [F('Deep.sol', dsrc)])])]


def deep_pair_failure(hz, oracle, near, rng, exe):
    """-> info of the nested run when it fails although the flat run succeeds, else None"""
    top_tree, nested = deep_trees(near)
    _, _, info_top = binary_one(hz, oracle, top_tree, rng, 2001, exe)
    hyp, conforms, info = binary_one(hz, oracle, nested, rng, 2002, exe)
    if info_top['exit'] == 0 and (info['exit'] != 0 or (hyp and not conforms)):
        info['note'] = 'the same file at the top level of the analysed directory is analysed without trouble (exit 0)'
        return info
    return None


def binary_runs(rep, ctx, hz, oracle, pool, rng, n):
    """the real solstat binary, default configuration (all patterns), report compared as a
    multiset of `- file:line` items with the union the specification demands"""
    cats = sorted(oracle.cats)
    # ordinary sources only: the deeply nested / very long out-of-domain programs can exhaust the 8 MB
    # main-thread stack of the unoptimised binary (stack depth is C04's business, labelled partial there)
    good = [c for nm, c in pool if not nm.startswith('ood:') and len(c) <= 2500
            and all(oracle.good_for(c, cat, oracle.names(cat)) for cat in cats)]
    hits = [c for c in good if any(oracle.lines(c, cat, p) for cat in cats for p in oracle.names(cat))]
    if not hits:
        log('binary runs skipped: no pool content analyses without panic under all 30 patterns')
        return 0, []
    exe = vlib.build_solstat_bin()
    fails = []
    done = 0
    for k in range(n):
        t = dc.random_tree(rng, lambda r: r.choice(hits), max_entries=6)
        if k == 0:
            t = [F('Z.sol', hits[0]), D('sub', [F('B.sol', hits[-1]), F('x.t.sol', b'garbage {')]), F('A.sol', hits[len(hits) // 2]),
                 F('README.md', b'# hi')]
        deep_pair = None
        if k == 1:
            top_tree, t = deep_trees(hits[0])
            _, conforms_top, info_top = binary_one(hz, oracle, top_tree, rng, 1000 + k, exe)
            deep_pair = (conforms_top, info_top)
        hyp, conforms, info = binary_one(hz, oracle, t, rng, k, exe)
        done += 1
        if deep_pair is not None and deep_pair[1]['exit'] == 0 and info['exit'] != 0:
            info['note'] = 'the same file at the top level of the analysed directory is analysed without trouble (exit 0)'
            fails.append(info)
        elif info['exit'] < 0:
            # killed by a signal (e.g. SIGABRT after a stack overflow): not a panic, not a statement about the union
            rep.coverage.setdefault('binary_runs_killed_by_signal', []).append(info['exit'])
        elif hyp and not conforms:
            fails.append(info)
        rep.coverage.setdefault('binary_runs', []).append({'entries': dc.tree_entries(t), 'report_items': len(info['report_items']),
                                                           'expected_items': info['expected_item_count'], 'exit': info['exit']})
    return done, fails


def report_failures(rep, ctx, hz, oracle, runs, rng):
    found = False
    failing = [r for r in runs if r.codes]
    if not failing:
        return False
    if any(90 in r.codes for r in failing):
        raise vlib.BuildError('oracle table incomplete (check machinery)')
    spec = [r for r in failing if set(r.codes) & dc.SPEC_CODES]
    if spec:
        found = True
        r0 = min(spec, key=lambda r: dc.tree_entries(r.tree))
        small = dc.shrink_run(hz, oracle, r0, rng, lambda c: bool(set(c) & dc.SPEC_CODES), 'c03shrink')
        dc.evaluate(hz, oracle, [small], rng, 'c03min')
        rep.violation('; '.join(dc.CODES[c] for c in small.codes),
                      {'kind': 'S', 'input': small.describe(), 'failed_subchecks': small.codes,
                       'listing_order_observed': dc.listing_json(small), 'implementation_output': dc.impl_json(small),
                       'specification_demands_multiset': dc.expected_py(small, oracle),
                       'specification_demands_note': '[pattern, path of the file, lines]; the result records the file NAME (last path component)',
                       'theorem': 'analyze_dir_union (coq/props/C03.v)', 'n_failing_runs': len(spec),
                       'original_run': r0.describe() if dc.tree_entries(r0.tree) <= 12 else '(%d entries)' % dc.tree_entries(r0.tree),
                       'model_function': 'Dir.analyze_dir', 'rust_function': 'analyzer::%s::analyze_dir' % small.cat})
    else:
        r0 = min(failing, key=lambda r: dc.tree_entries(r.tree))
        small = dc.shrink_run(hz, oracle, r0, rng, lambda c: bool(c), 'c03shrink')
        dc.evaluate(hz, oracle, [small], rng, 'c03min')
        rep.violation('; '.join(dc.CODES[c] for c in small.codes),
                      {'kind': 'M', 'input': small.describe(), 'failed_subchecks': small.codes,
                       'listing_order_observed': dc.listing_json(small), 'implementation_output': dc.impl_json(small),
                       'n_failing_runs': len(failing), 'model_function': 'Dir.analyze_dir',
                       'rust_function': 'analyzer::%s::analyze_dir' % small.cat}, no_input=True)
    return found


def run(rep, ctx):
    rng = random.Random(ctx.seed * 1000003 + 3)
    dc.cleanup()
    hz = dc.Harness(ctx.harness)
    try:
        oracle = dc.Oracle(hz)
        pool = dc.source_pool(rng)
        oracle.ensure([c for n, c in pool])
        runs = gen_runs(rng, oracle, pool, ctx.tier)
        log('runs generated:', len(runs))
        dc.evaluate(hz, oracle, runs, rng, 'c03')
        log('evaluated')
        found = report_failures(rep, ctx, hz, oracle, runs, rng)
        if oracle.fileno_dependent and not found:
            # no run contradicted the specification, but the model's dropping of the file number is unjustified
            rep.violation('analyze_for_* result depends on the file number (the model drops it)',
                          {'kind': 'M', 'cases': oracle.fileno_dependent[:5], 'model_function': 'Dir.analyze_dir (argument i dropped)',
                           'rust_function': 'analyze_for_*'}, no_input=True)
        nbin, binfails = binary_runs(rep, ctx, hz, oracle, pool, rng, 2 if ctx.tier == 'quick' else 6)
        if binfails and not found:
            found = True
            rep.violation('solstat binary: the items of solstat_report.md are not the union of the per-file results',
                          {'kind': 'S', 'input': binfails[0], 'theorem': 'analyze_dir_union', 'how': 'solstat --path <tree> in an empty cwd'})
        # coverage
        ok = [r for r in runs if not r.codes]
        nontriv = set()
        orders = {}
        for r in runs:
            el, al, tr, share = r.stats
            if r.impl != 'PANIC' and tr >= 2 and share >= 2 and dc.tree_depth(r.tree) >= 2:
                nontriv.add((r.coq_tree, r.cat, tuple(r.ps)))
        perm_orders = set()
        for r in runs:
            if r.tag == 'perm':
                perm_orders.add((r.extra['roleset'], r.cat, tuple(r.extra['roles'][n.decode()] for k, n in r.listing[b''])))
        by_tag = {}
        for r in runs:
            by_tag[r.tag] = by_tag.get(r.tag, 0) + 1
        rep.coverage['evaluations'] = len(runs) + nbin
        rep.coverage['distinct_nontrivial'] = len(nontriv)
        rep.coverage['rule'] = ('real directory trees under .cache/fs (depth <= 4, <= 10 entries per directory, eligible files drawn from '
                                'a pool of %d sources in which patterns recur, inert and undecided names mixed in, creation order shuffled); '
                                'every role assignment (24 / 120) for 4- / 5-entry directories; trees that must abort; for each run the real '
                                'analyze_dir of the category versus Dir.analyze_dir on the observed listing order, and the multiset-union '
                                'specification evaluated in Coq on the implementation output; non-trivial = the run succeeds, depth >= 2, >= 2 expected '
                                'triples and some pattern found in >= 2 files' % len(pool))
        rep.coverage['runs_by_kind'] = by_tag
        rep.coverage['runs_aborting'] = sum(1 for r in runs if r.impl == 'PANIC')
        rep.coverage['eligible_files_total'] = sum(r.stats[0] for r in runs)
        rep.coverage['files_total'] = sum(r.stats[1] for r in runs)
        rep.coverage['expected_triples_total'] = sum(r.stats[2] for r in runs)
        rep.coverage['max_depth'] = max(dc.tree_depth(r.tree) for r in runs)
        rep.coverage['max_entries'] = max(dc.tree_entries(r.tree) for r in runs)
        rep.coverage['distinct_role_interleavings_listed_in_permutation_runs'] = len(perm_orders)
        rep.coverage['traces_validated_against_impl'] = len(ok)
        rep.coverage['pool'] = {'sources': len(pool), 'patterns_with_findings_in_>=2_sources': sum(
            1 for cat in oracle.cats for p in oracle.names(cat) if sum(1 for n, c in pool if oracle.lines(c, cat, p) not in (None, 'PANIC', [])) >= 2)}
        rep.coverage['samples'] = [{'kind': r.tag, 'category': r.cat, 'patterns': r.ps, 'listing': dc.listing_json(r),
                                    'implementation_output': dc.impl_json(r)} for r in (runs[len(pool)::max(1, len(runs) // 4)])[:4]]
        rep.assumptions = ['what std::fs::read_dir returns on a real file system is sampled, not proved: the model takes the listing (a list, any order) as input',
                           'analyze_for_* is an oracle (Section variable `analyze`): any function of (pattern, content)',
                           'file and directory names are valid Unicode; no symbolic links; the target is a readable directory',
                           'HashMap modelled as an association list with unique keys; key order not compared']
        common.finish_proof_status(rep, ctx, found)
    finally:
        hz.close()
        dc.cleanup()


def replay(obj):
    rng = random.Random(1)
    harness = vlib.build_harness()
    dc.cleanup()
    hz = dc.Harness(harness)
    try:
        oracle = dc.Oracle(hz)
        inp = obj['input']
        if 'category' not in inp:
            hyp, conforms, info = binary_one(hz, oracle, dc.tree_from_json(inp['tree']), rng, 0, vlib.build_solstat_bin())
            print('tree:', json.dumps(inp['tree'], ensure_ascii=False))
            print('solstat --path <tree>: exit', info['exit'], info['stderr'])
            print('items of solstat_report.md:', info['report_items'])
            print('items the union demands:', info['expected_item_count'], '; every eligible file analysable:', hyp, '; report conforms:', conforms)
            if info['exit'] < 0:
                if inp.get('note'):
                    print('the binary was killed by signal %d; %s' % (-info['exit'], inp['note']))
                    return 1
                print('the binary was killed by signal %d (not a panic; outside C03)' % -info['exit'])
                return 0
            return 1 if (hyp and not conforms) else 0
        r = Run(dc.tree_from_json(inp['tree']), inp['category'], inp['patterns'], 'replay',
                'given' if inp.get('creation_order') == 'given' else None)
        dc.evaluate(hz, oracle, [r], rng, 'c03replay')
        print('tree:', json.dumps(inp['tree'], ensure_ascii=False))
        print('category / patterns:', r.cat, r.ps)
        print('listing order observed:', dc.listing_json(r))
        print('implementation:', dc.impl_json(r))
        print('specification demands (multiset):', dc.expected_py(r, oracle))
        print('failed sub-checks:', r.codes, [dc.CODES.get(c) for c in r.codes])
        return 1 if r.codes else 0
    finally:
        hz.close()
        dc.cleanup()
