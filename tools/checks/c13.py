"""C13 - the report is a deterministic function of the set of findings.

Decided by: theorems render_order_independent / render_set_function (props/C13.v): the model renders
every permutation of the map (= every HashMap iteration order) and every permutation of each
pattern's vector to the same bytes.  Correspondence: the same set of findings inserted in several
random orders (patterns and vectors shuffled) AND rendered in several fresh processes (fresh hash
seeds) must give identical bytes, which must be the model's bytes."""
import random, json
import vlib
from vlib import log
from checks import common
from checks import report_common as rc

S_CODES = {3, 31}


def build_sets(ctx):
    rng = random.Random(ctx.seed * 1000003 + 13)
    sets = []
    for sub in rc.all_subsets(rc.variants('vul')):
        if len(sub) >= 1:
            sets.append(rc.mk_case('vul', {'vul': rc.gen_map(rng, 'vul', sub)}, 'vul:subset'))
    for sub in rc.all_subsets(rc.variants('qa')):
        if len(sub) >= 1:
            sets.append(rc.mk_case('qa', {'qa': rc.gen_map(rng, 'qa', sub)}, 'qa:subset'))
    vs = rc.variants('opt')
    n = 12 if ctx.tier == 'quick' else 150
    for _ in range(n):
        k = rng.choice([1, 2, 3, 4, 6, 9])
        sets.append(rc.mk_case('opt', {'opt': rc.gen_map(rng, 'opt', rng.sample(vs, k), maxfiles=4)}, 'opt:random'))
    sets.append(rc.mk_case('opt', {'opt': rc.gen_map(rng, 'opt', list(vs), maxfiles=2)}, 'opt:all'))
    for _ in range(6 if ctx.tier == 'quick' else 60):
        maps = {}
        for cat in rc.CATS:
            k = rng.randint(1, min(4, len(rc.variants(cat))))
            maps[cat] = rc.gen_map(rng, cat, rng.sample(rc.variants(cat), k), maxfiles=3)
        sets.append(rc.mk_case('all', maps, 'all:random'))
    # file names for which numeric / natural / case-insensitive orders disagree with the byte order (and with each other)
    fams = [['9_Vault.sol', '10_Router.sol', '20230917101500_Migration.sol', '2_Pool.sol'],
            ['4294967295_a.sol', '4294967296_a.sol', '5_a.sol', '18446744073709551616_a.sol', '18446744073709551615_a.sol'],
            ['a.sol', 'B.sol', 'A.sol', 'b.sol', 'á.sol', 'v1.10.sol', 'v1.9.sol', 'v1.2.sol']]
    for cat in rc.CATS:
        for fam in fams:
            for p in rc.variants(cat)[:2]:
                sets.append(rc.mk_case(cat, {cat: [[p, [[nm, [k + 1, k + 40]] for k, nm in enumerate(fam)]]]}, cat + ':name-family'))
    return [s for s in rc.corpus_cases('C13') + rc.corpus_cases('C12') + sets + rc.big_cases(rng)[:5] if s['wf']]


def renders(ctx, base, rng, n_orders, same_order_procs=2):
    """the set `base` in n_orders random insertion orders, each rendered in its own fresh process;
    the first order additionally in `same_order_procs` more fresh processes -> [(case, bytes)]"""
    binary = rc.vh_report(ctx)
    out = []
    orders = [base] + [rc.reorder(rng, base) for _ in range(n_orders - 1)]
    for c in orders:
        out.append((c, rc.run_impl_fresh(binary, c)))
    for _ in range(same_order_procs):
        out.append((base, rc.run_impl_fresh(binary, base)))
    # ... and rendered again later in the life of ONE process (after the same set and another order of it): the text
    # depends on the findings, not on what the process has rendered before
    if len(orders) > 1:
        again = rc.run_impl_batch(binary, [base, orders[1], base, base])
        out.append((base, again[2]))
        out.append((base, again[3]))
    return out


# ----------------------------------------------------------------------------- the real binary, end to end
SOL = {
    'A.sol': 'pragma solidity ^0.8.0;\ncontract A {\n    uint256 x;\n    address owner;\n    function f(uint256[] memory a) public {\n'
             '        for (uint256 i = 0; i < a.length; i++) {\n            x = x + 1;\n        }\n    }\n'
             '    function g(address t) public returns (bool) {\n        require(t != address(0) && x > 1, "this revert string is definitely longer than thirty-two bytes");\n'
             '        return x / 2 * 3 >= 4;\n    }\n}\n',
    'B.sol': 'pragma solidity >=0.8.4;\ninterface IERC20 { function transfer(address to, uint256 v) external returns (bool); }\n'
             'contract B {\n    uint8 a;\n    uint256 b;\n    uint8 c;\n    function kill() public {\n        selfdestruct(payable(address(0)));\n    }\n'
             '    function pay(IERC20 t) public {\n        t.transfer(msg.sender, 1);\n    }\n    function h() private {}\n    constructor() {}\n}\n',
    'C.sol': 'pragma solidity 0.7.6;\ncontract C {\n    uint256 private v;\n    function s(bytes memory d) external returns (bytes32) {\n'
             '        v = v * 4;\n        return keccak256(d);\n    }\n}\n',
    # several never-written memory parameters declared on different lines (a detector that picks "one" of them from a hash
    # map reports a different line in every process)
    'D.sol': 'pragma solidity ^0.8.0;\ncontract D {\n    function f(\n        uint256[] memory a,\n        string memory b,\n        bytes memory c\n    ) public pure returns (uint256) {\n'
             '        return a.length +\n            uint256(7) * 3 +\n            a.length / 3;\n    }\n    function g(\n        uint8[] memory p,\n        uint8[] memory q\n    ) external pure returns (uint256) {\n        return p.length + q.length;\n    }\n}\n',
}
# every source is padded with line feeds to one common length: files of exactly the same size and different line layouts
# meet at the same listing index of different directories (whatever is remembered per (file number, size) must not leak)
_L = max(len(v.encode('utf-8')) for v in SOL.values())
SOL = {k: v + '\n' * (_L - len(v.encode('utf-8'))) for k, v in SOL.items()}
# {d1}..{d5} are directory ROLES: every tree gives them different names (directory names are not part of a finding - only
# the base name of the file is - so the set of findings is the same while the listing order of the directories differs;
# on ext4 the listing order depends on the names, not on the creation order).  {d4}/A.sol and {d5}/A.sol are identical
# copies of the top-level A.sol; {d3}/M.sol has the same patterns as the copies.
LAYOUT = [('A.sol', 'A.sol'), ('B.sol', 'B.sol'), ('C.sol', 'C.sol'), ('{d1}/A.sol', 'C.sol'), ('{d1}/Z.sol', 'A.sol'),
          ('{d1}/{d2}/B.sol', 'B.sol'), ('{d3}/M.sol', 'B.sol'), ('{d4}/A.sol', 'A.sol'), ('{d5}/A.sol', 'A.sol'),
          ('{d5}/M.sol', 'A.sol'), ('D.sol', 'D.sol'), ('{d3}/D.sol', 'D.sol'), ('skip.t.sol', 'A.sol'), ('notes.txt', 'A.sol'),
          # a second name for a file (symbolic links; '@' + the path linked to): analysed under every name it has, in
          # whatever order the names are discovered
          # whatever order the names are discovered (link and target sit in directories of different ROLES: which of the two
          # is listed first depends on the directory names, which change from tree to tree)
          ('{d2link}/IShared.sol', '@{d4}/A.sol'), ('{d1}/{d2}/Again.sol', '@{d3}/M.sol'), ('Linked.sol', '@{d5}/M.sol'),
          ('{d2link}/ITop.sol', '@B.sol')]
DIR_NAMES = ['sub', 'other', 'deep', 'a', 'b', 'm', 'lib', 'src', 'zz', 'v1', 'v2', 'legacy', 'core', 'x', 'Y', '0']


def binary_runs(ctx, rng, n_trees, runs_per_tree):
    """the same tree content created in different orders, analysed by the real binary in fresh
    processes (cwd under /verif/.cache) -> list of (creation order, report bytes | error text)"""
    import os, shutil, subprocess
    binary = vlib.build_solstat_bin()
    base = os.path.join(vlib.CACHE, 'c13-bin-%d' % os.getpid())
    shutil.rmtree(base, ignore_errors=True)
    out = []
    for t in range(n_trees):
        names = rng.sample(DIR_NAMES, 6)
        fmt = dict(d1=names[0], d2=names[1], d3=names[2], d4=names[3], d5=names[4], d2link=names[5])
        order = [(rel.format(**fmt), src.format(**fmt)) for rel, src in LAYOUT]
        rng.shuffle(order)
        root = os.path.join(base, 'tree%d' % t)
        for rel, src in order:
            path = os.path.join(root, 'contracts', rel)
            os.makedirs(os.path.dirname(path), exist_ok=True)
            if src.startswith('@'):
                os.symlink(os.path.relpath(os.path.join(root, 'contracts', src[1:]), os.path.dirname(path)), path)
                continue
            with open(path, 'w') as f:
                f.write(SOL[src])
        for r in range(runs_per_tree):
            rep_path = os.path.join(root, 'solstat_report.md')
            # what an earlier run left in the working directory must not matter: nothing / a much longer report / the report
            # of the previous run of this loop
            if t % 3 == 0 and os.path.exists(rep_path):
                os.remove(rep_path)
            elif t % 3 == 1 and r == 0:
                with open(rep_path, 'w') as f:
                    f.write('# report of an earlier, larger run\n\n### Lines\n' + ''.join('- Old%d.sol:%d\n' % (i % 9, i) for i in range(120000)))
            # the configured patterns in another order select the same set of patterns
            argv = [binary, '--path', './contracts']
            if r % 2 == 1:
                import names2coq
                T = names2coq.tables()
                lists = {c: [n for n, _ in T[c]['table']] for c in ('opt', 'vul', 'qa')}
                for c in lists:
                    rng.shuffle(lists[c])
                with open(os.path.join(root, 'order.toml'), 'w') as f:
                    f.write('path = "./contracts"\noptimizations = %s\nvulnerabilities = %s\nqa = %s\n'
                            % (json.dumps(lists['opt']), json.dumps(lists['vul']), json.dumps(lists['qa'])))
                argv = [binary, '--toml', 'order.toml']
            # ... and neither does the environment of the process (time zone, locale, reproducible-build clock, home directory)
            env = dict(os.environ)
            if r % 2 == 1 or t % 2 == 1:
                env.update({'SOURCE_DATE_EPOCH': str(rng.choice([0, 1, 1700000000, 1800000000, 4102444800])), 'TZ': rng.choice(['UTC', 'Pacific/Kiritimati', 'America/Anchorage']),
                            'LC_ALL': rng.choice(['C', 'tr_TR.UTF-8', 'de_DE.UTF-8']), 'LANG': 'xx_XX', 'HOME': root, 'USER': 'someone-%d' % t,
                            'COLUMNS': str(rng.choice([20, 80, 400])), 'NO_COLOR': '1', 'RUST_LOG': 'trace', 'SOLSTAT_DEBUG': '1', 'CI': 'true'})
            p = subprocess.run(argv, cwd=root, env=env, stdout=subprocess.PIPE, stderr=subprocess.PIPE, timeout=300)
            if p.returncode != 0 or not os.path.exists(rep_path):
                out.append(([rel for rel, _ in order], 'EXIT %d: %s' % (p.returncode, p.stderr.decode(errors='replace')[-300:])))
            else:
                out.append(([rel for rel, _ in order], open(rep_path, 'rb').read()))
    shutil.rmtree(base, ignore_errors=True)
    return out


def distinct_outputs(rs):
    return len(set(o if o == 'PANIC' else bytes(o) for c, o in rs))


def run(rep, ctx):
    rng = random.Random(ctx.seed * 7 + 13)
    sets = build_sets(ctx)
    n_orders = 6 if ctx.tier == 'quick' else 20
    failing = []
    model_cases, model_outs = [], []
    total_renders = 0
    for s in sets:
        rs = renders(ctx, s, rng, n_orders)
        total_renders += len(rs)
        if distinct_outputs(rs) > 1:
            failing.append((s, rs))
        # model = implementation on two of the orders
        for c, o in rs[:2]:
            model_cases.append(c)
            model_outs.append(o)
    log('rendered', len(sets), 'sets of findings', total_renders, 'times in fresh processes;', len(failing), 'not deterministic')
    codes = rc.coq_codes(model_cases, model_outs, 'c13')
    for k in codes:
        if 99 in k:
            raise vlib.BuildError('implementation output was not transferred faithfully into Coq (digest mismatch)')
    rc.fill_coverage(rep, model_cases, model_outs, codes, S_CODES,
                     'sets of findings: every non-empty subset of the vulnerabilities and of the QA patterns, random subsets of the '
                     'optimizations, all 23 optimizations, whole reports; each set inserted in %d random orders (patterns and per-pattern '
                     'vectors shuffled), every order rendered in its own fresh process (fresh HashMap seeds) and the first order in 2 more '
                     'processes: all outputs must be byte-identical; the model is evaluated on two of the orders and must give the same bytes. '
                     'Non-trivial = well-formed set with >= 2 entries' % n_orders,
                     {'sets': len(sets), 'renders_in_fresh_processes': total_renders, 'orders_per_set': n_orders,
                      'sets_with_more_than_one_output': len(failing)})
    # the real binary on the same tree content created in different orders
    bruns = binary_runs(ctx, rng, 6 if ctx.tier == 'quick' else 24, 2 if ctx.tier == 'quick' else 3)
    bdistinct = list(dict.fromkeys(o if isinstance(o, str) else bytes(o) for _, o in bruns))
    rep.coverage['binary_end_to_end'] = {'runs': len(bruns), 'distinct_reports': len(bdistinct),
                                         'report_bytes': len(bdistinct[0]) if bdistinct and not isinstance(bdistinct[0], str) else 0,
                                         'tree': [rel for rel, _ in LAYOUT]}
    log('binary:', len(bruns), 'runs,', len(bdistinct), 'distinct reports')
    found = False
    if len(bdistinct) > 1 or any(isinstance(o, str) for o in bdistinct):
        found = True
        firsts = {}
        for order, o in bruns:
            firsts.setdefault(o if isinstance(o, str) else bytes(o), order)
        rep.violation(rc.CODES[31] + ' - the solstat binary on the same directory content (files created in different orders, fresh processes)',
                      {'kind': 'S', 'input': {'binary': True, 'files': {rel: (SOL[src] if not src.startswith('@') else 'symbolic link to ' + src[1:]) for rel, src in LAYOUT}},
                       'theorem': 'render_set_function (with analyze_dir: run_deterministic)',
                       'distinct_outputs': [{'creation_order': order, 'report': o if isinstance(o, str) else rc.show(o, 1500)}
                                            for o, order in list(firsts.items())[:3]],
                       'rust_function': 'main: analyze_dir x3 + report::generation::generate_report'})
    # (a) per-process randomness alone: the SAME insertion order rendered in fresh processes
    hash_failing = [(s, rs) for s, rs in failing if distinct_outputs([(c, o) for c, o in rs if c is s]) > 1]
    if hash_failing:
        found = True
        s, rs = min(hash_failing, key=lambda t: rc.case_size(t[0]))

        def fails_same(cands):
            return [distinct_outputs([(c, rc.run_impl_fresh(rc.vh_report(ctx), c)) for _ in range(8)]) > 1 for c in cands]
        small = rc.shrink(ctx, s, fails_same)
        outs8 = [rc.run_impl_fresh(rc.vh_report(ctx), small) for _ in range(12)]
        rep.violation(rc.CODES[31] + ' - the same map, inserted in the same order, rendered by different processes (or again later in one process)',
                      {'kind': 'S', 'input': small, 'same_insertion_order': True, 'theorem': 'render_order_independent',
                       'n_failing_sets': len(hash_failing), 'n_sets': len(sets),
                       'distinct_outputs': [rc.show(o, 800) for o in list(dict.fromkeys(outs8))[:3]],
                       'rust_function': 'report::*::generate_*_report (iteration over the HashMap)'})
    if failing:
        found = True
        s, rs = min(failing, key=lambda t: rc.case_size(t[0]))

        def fails(cands):
            r = random.Random(5)
            return [distinct_outputs(renders(ctx, c, r, 6, 2)) > 1 for c in cands]
        small = rc.shrink(ctx, s, fails)
        rs = renders(ctx, small, random.Random(6), 8, 2)
        groups = {}
        for c, o in rs:
            groups.setdefault(o if o == 'PANIC' else bytes(o), c)
        alts = list(groups.items())[:3]
        rep.violation(rc.CODES[31],
                      {'kind': 'S', 'input': small, 'theorem': 'render_order_independent / render_set_function',
                       'n_failing_sets': len(failing), 'n_sets': len(sets),
                       'distinct_outputs': [{'insertion_order': c['maps'], 'implementation_output': rc.show(o, 1200)} for o, c in alts],
                       'rust_function': 'report::*::generate_*_report (iteration over the HashMap / the vectors)'})
    else:
        bad = [(c, o, k) for c, o, k in zip(model_cases, model_outs, codes) if 1 in k]
        if bad:
            c, o, k = min(bad, key=lambda t: rc.case_size(t[0]))
            rep.violation('model differs from the implementation on %d of %d renderings; all renderings of each set were identical' % (len(bad), len(codes)),
                          {'kind': 'M', 'input': c, 'failed_subchecks': k, 'implementation_output': rc.show(o),
                           'model_function': 'Report.generate_%s_report' % c['mode'], 'rust_function': 'solstat::report::*::generate_*_report'},
                          no_input=True)
    common.finish_proof_status(rep, ctx, found)


def replay(obj):
    ctx = common.Ctx()
    ctx.tier = 'quick'
    ctx.seed = 1
    ctx.harness = vlib.build_harness()
    case = obj['input']
    if case.get('binary'):
        bruns = binary_runs(ctx, random.Random(3), 4, 3)
        groups = {}
        for order, o in bruns:
            groups.setdefault(o if isinstance(o, str) else bytes(o), []).append(order)
        print('solstat binary: %d runs over the same tree content -> %d distinct reports' % (len(bruns), len(groups)))
        for o, orders in groups.items():
            print('--- report produced %d times, e.g. creation order %s' % (len(orders), orders[0]))
            print(o if isinstance(o, str) else rc.show(o, 2500))
        print('specification: all reports must be identical ->', 'holds' if len(groups) == 1 else 'VIOLATED')
        return 0 if len(groups) == 1 else 1
    if obj.get('same_insertion_order'):
        rs = [(case, rc.run_impl_fresh(rc.vh_report(ctx), case)) for _ in range(12)]
        print('(the same insertion order in every process)')
    else:
        rs = renders(ctx, case, random.Random(6), 8, 2)
    print('set of findings (mode %s):' % case['mode'], json.dumps(case['maps'], ensure_ascii=False))
    groups = {}
    for c, o in rs:
        groups.setdefault(o if o == 'PANIC' else bytes(o), []).append(c)
    print('implementation: %d renderings in fresh processes -> %d distinct outputs' % (len(rs), len(groups)))
    for o, cs in groups.items():
        print('--- output produced %d times (digest %s), e.g. for insertion order %s' % (
            len(cs), 'PANIC' if o == 'PANIC' else rc.digest(o), json.dumps(cs[0]['maps'], ensure_ascii=False)))
        print(rc.show(o, 2500))
    codes = rc.coq_codes([rs[0][0], rs[1][0]], [rs[0][1], rs[1][1]], 'replay-c13')
    print('model = implementation on the first two orders:', [1 not in k for k in codes])
    print('specification (render_set_function): all outputs must be identical ->', 'holds' if len(groups) == 1 else 'VIOLATED')
    return 0 if len(groups) == 1 and not any(1 in k for k in codes) else 1
