"""Correspondence of the version-text model (Utils.get_solidity_major_minor_patch_version,
Utils.parse_i32) with utils::get_solidity_major_minor_patch_version, for C09.

    check_version_strings(ctx, strings, gaps_out=None) -> list of mismatches

runs `vharness util` (`ver <hex>`) and the model in Coq on every string and returns the
disagreements as dicts {string, implementation, model}.  Strings containing a non-ASCII
Unicode decimal digit (category Nd, e.g. ARABIC-INDIC DIGIT THREE) are NOT compared: the `\\d`
of the regex crate is Unicode-aware while the model's scanner is ASCII-only (stated gap,
DESIGN section 10 "regex semantics for the two patterns (explicit scanners; ASCII digits
only)"); they are appended to gaps_out with the implementation's answer.  A solidity pragma
that the solang lexer accepts cannot contain such a digit inside a version number the
compiler would accept, and the parse::<i32>() that follows rejects them anyway (panic D4b on
the pinned tree)."""
import subprocess, unicodedata
import vlib

IMPORTS = 'Res Utils LineSpec SlotSpec UtilCases'
OPS = ['', '^', '~', '=', '>=', '>']


def has_unicode_digit(s):
    return any(ord(c) > 127 and unicodedata.category(c) == 'Nd' for c in s)


def impl_versions(ctx, strings):
    """-> list of (list of pieces as bytes) or 'PANIC'"""
    inp = ''.join('ver %s\n' % s.encode('utf-8').hex() for s in strings)
    p = subprocess.run([ctx.harness, 'util'], input=inp, stdout=subprocess.PIPE, text=True, timeout=3600)
    if p.returncode != 0:
        raise vlib.BuildError('vharness util failed')
    lines = p.stdout.split('\n')[:len(strings)]
    if len(lines) != len(strings):
        raise vlib.BuildError('vharness util: wrong number of answers')
    out = []
    for line in lines:
        if line == 'PANIC':
            out.append('PANIC')
        else:
            assert line.startswith('ok ')
            out.append([bytes.fromhex(h) for h in line[3:].split(' ')])
    return out


def model_versions(strings, tag='version'):
    """-> list of (pieces as bytes, parse codes: value + 1 or 0 for a panic)"""
    if not strings:
        return []
    nsh = max(1, min(vlib.NPROC, (len(strings) + 149) // 150))
    shards = [[] for _ in range(nsh)]
    for i, s in enumerate(strings):
        shards[i % nsh].append(('eval', 'ver_answer (bytes [%s])' % '; '.join(str(b) for b in s.encode('utf-8'))))
    vals = vlib.coq_eval_plain(shards, IMPORTS, tag)
    out = []
    for i, s in enumerate(strings):
        pieces, codes = vals[i % nsh][i // nsh]
        out.append(([bytes(p) for p in pieces], list(codes)))
    return out


def check_version_strings(ctx, strings, gaps_out=None, parses_out=None):
    cmp_strings = [s for s in strings if not has_unicode_digit(s)]
    gap_strings = [s for s in strings if has_unicode_digit(s)]
    impl = impl_versions(ctx, cmp_strings)
    model = model_versions(cmp_strings)
    mism = []
    for s, i, (m, codes) in zip(cmp_strings, impl, model):
        if i == 'PANIC' or i != m:
            mism.append({'string': s, 'implementation': 'PANIC' if i == 'PANIC' else [x.decode('utf-8', 'replace') for x in i],
                         'model': [x.decode('utf-8', 'replace') for x in m]})
        if parses_out is not None:
            parses_out.append((s, [x.decode('utf-8', 'replace') for x in m], [None if c == 0 else c - 1 for c in codes]))
    if gaps_out is not None and gap_strings:
        for s, i in zip(gap_strings, impl_versions(ctx, gap_strings)):
            gaps_out.append({'string': s, 'implementation': 'PANIC' if i == 'PANIC' else [x.decode('utf-8', 'replace') for x in i],
                             'gap': 'non-ASCII decimal digit: regex \\d is Unicode-aware, the model scanner is ASCII-only'})
    return mism


def triples():
    """the 246 triples 0.0.0 .. 1.2.40 of the property's quantifier: 0.m.p for m <= 2 ... see below"""
    out = []
    for M in (0, 1):
        for m in (0, 1, 2):
            for p in range(41):
                out.append((M, m, p))
    return out


def standard_strings():
    """all 246 triples 0.0.0..1.2.40 x 6 operator spellings (with and without a blank after the
    operator) + malformed / boundary strings"""
    strs = []
    for (M, m, p) in triples():
        for op in OPS:
            strs.append('%s%d.%d.%d' % (op, M, m, p))
    for (M, m, p) in [(0, 8, 4), (0, 7, 6), (0, 8, 0), (0, 8, 3), (0, 8, 10), (0, 9, 0), (1, 0, 0), (1, 2, 40), (0, 4, 26)]:
        for op in OPS:
            if op:
                strs.append('%s %d.%d.%d' % (op, M, m, p))
                strs.append('%s  %d.%d.%d' % (op, M, m, p))
    strs += ['0.8..4', '0.8...4', '0.8.', '1.2', 'a.b.c', '00.08.004', '>=0.7.0 <0.9.0', '>=0.4.22 <0.9.0', '^0.8.0 || ^0.7.0',
             '', '.', '...', '0', '0.', '0.8', '0.8.x', 'x0.8.4', '0.8.4x', '0.8.4.5', '0.8.4.5.6', '1.2.3.4.5.6.7', '0..8.4', '.0.8.4',
             '0.8.4.', '0 .8.4', '0. 8.4', '0.8 .4', '0.8. 4', '12.3 1.2.3', '1.2.x3.4.5.6.7', '1.2.3-4.5.6', 'v0.8.4', '=0.8.4=',
             '0.8.4\n', '0.8.4 // comment 1.2.3', '0.8.4 /* 9.9.9 */', '>=0.8.4<0.9.0', '>0.8.4>=0.8.5', '0.8.99999999999',
             '2147483647.2147483647.2147483647', '2147483648.0.0', '0.0.2147483648', '4294967296.1.1', '+0.8.4', '-0.8.4', '0.-8.4',
             '0.+8.4', '1' * 300 + '.2.3', '1.' + '2' * 300 + '.3', '1.2.' + '3' * 300, '9' * 1000, '1' * 200 + '.' + '2' * 200,
             '1.2' + '.' * 50 + '3', 'é0.8.4', '0.8.4é', '0é.8.4', '٣.٤.٥', '0.8.٣', '0.٨.4', '1.2.3 ٣.٤.٥', '１.２.３',
             '0.8.4 ٣', '\t0.8.4', '0\t.8.4', '0.8.4\r\n', '>=0.8.4 <=0.8.19', '0.8.04', '0.08.4', '00.8.4']
    return strs


def scanner_strings(maxlen=7, alphabet='12.x'):
    """every string up to maxlen over a small alphabet: exhaustive exercise of the regex scanner
    (failed attempts inside digit runs, consecutive dots, several matches: the last one wins)"""
    out = ['']
    layer = ['']
    for _ in range(maxlen):
        layer = [s + c for s in layer for c in alphabet]
        out += layer
    return out
