"""C12 - report totals and headings agree with the findings shown.

Decided by: theorems total_matches_entries / category_iff / severity_of / heading_iff (props/C12.v);
correspondence as for C11, with every subset of the four vulnerability patterns crossed with several
file/line multiplicities, and whole reports for every combination of empty/non-empty categories."""
import random
import vlib
from vlib import log
from checks import common
from checks import report_common as rc

S_CODES = {3, 21, 22, 23, 24}


def theorem_of(key):
    return {21: 'total_matches_entries', 22: 'heading_iff', 23: 'heading_iff', 24: 'category_iff'}.get(sorted(key)[0] if key else 0, 'heading_iff')


def build_cases(ctx):
    rng = random.Random(ctx.seed * 1000003 + 12)
    cases = []
    reps = 4 if ctx.tier == 'quick' else 40
    for rep_ in range(reps):
        for sub in rc.all_subsets(rc.variants('vul')):
            cases.append(rc.mk_case('vul', {'vul': rc.gen_map(rng, 'vul', sub)}, 'vul:subset'))
    # minimal multiplicities: one file, one line per pattern
    for sub in rc.all_subsets(rc.variants('vul')):
        cases.append(rc.mk_case('vul', {'vul': [[p, [['a.sol', [1]]]] for p in sub]}, 'vul:subset-minimal'))
    cases += rc.standard_cases(rng, n_opt_random=20 if ctx.tier == 'quick' else 300, n_all=24 if ctx.tier == 'quick' else 300, reps=1)
    return rc.corpus_cases('C11') + rc.corpus_cases('C12') + rc.corpus_cases('C13') + cases + rc.big_cases(rng) + rc.ood_cases(rng)


BIN_TREES = {
    'interfaces-only': {'I.sol': 'pragma solidity 0.8.10;\ninterface I { function f() external; }\n', 'sub/J.sol': 'pragma solidity 0.8.10;\ninterface J { function g() external; }\n'},
    'pragma-only': {'P.sol': 'pragma solidity ^0.8.0;\n'},
    'floating-interface': {'I.sol': 'pragma solidity ^0.8.0;\ninterface I { function f() external; }\n'},
    'qa-only': {'Q.sol': 'pragma solidity 0.8.10;\nabstract contract Q { function _f() public virtual; }\n'},
    'same-names': {'src/Token.sol': 'pragma solidity ^0.8.0;\ncontract T { uint x; function f() public { x = x + 1; } }\n',
                   'lib/Token.sol': 'pragma solidity ^0.8.0;\ncontract T { uint y; function g() public { y = y + 2; } }\n',
                   'lib/vendor/Token.sol': 'pragma solidity ^0.8.0;\ncontract T { uint x; function f() public { x = x + 1; } }\n'},
    'mixed': {'A.sol': 'pragma solidity ^0.8.0;\ncontract A { uint x; address o; function k() external { selfdestruct(payable(o)); } function f(uint a) public { x = a / 2 * 3; } }\n',
              'I.sol': 'pragma solidity 0.8.10;\ninterface I { function f() external; }\n'},
    'nothing': {'N.sol': 'pragma solidity 0.8.10;\ninterface N { }\n', 'README.md': 'not solidity'},
}


def report_blocks(text):
    """-> [(header line, announced total or None, number of entry lines)] for every category block of a report"""
    import re
    blocks = []
    cur = None
    for line in text.split('\n'):
        m = re.match(r'^# .*', line)
        if m and not line.startswith('##'):
            t = re.search(r'\(Total \w+ (-?\d+)\)', line)
            cur = [line, int(t.group(1)) if t else None, 0]
            blocks.append(cur)
        elif cur is not None and re.match(r'^- .*:-?\d+$', line):
            cur[2] += 1
    return blocks


def binary_part(rep, ctx):
    """the real binary on small trees in which whole categories have no finding: every category block that is present
    must list at least one entry and announce exactly the number of entries it lists"""
    import os, shutil, subprocess
    binary = vlib.build_solstat_bin()
    base = os.path.join(vlib.CACHE, 'c12-bin-%d' % os.getpid())
    shutil.rmtree(base, ignore_errors=True)
    bad = []
    n = 0
    longest = [None]
    order = ['mixed', 'same-names'] + [k for k in BIN_TREES if k not in ('mixed', 'same-names')]
    for name in order:
        files = BIN_TREES[name]
        root = os.path.join(base, name)
        for rel, src in files.items():
            p = os.path.join(root, 'contracts', rel)
            os.makedirs(os.path.dirname(p), exist_ok=True)
            open(p, 'w').write(src)
        # twice: in an empty working directory, and in one that holds the (longer) report of an earlier run over another
        # tree - the file a user opens after the run is the report of THIS run, consistent in itself
        for stale in (None, longest[0]):
            rp = os.path.join(root, 'solstat_report.md')
            if stale is not None:
                open(rp, 'w', encoding='utf-8').write(stale)
            elif os.path.exists(rp):
                os.remove(rp)
            p = subprocess.run([binary, '--path', './contracts'], cwd=root, stdout=subprocess.PIPE, stderr=subprocess.PIPE, timeout=300)
            n += 1
            how = '' if stale is None else ' (working directory holding the report of an earlier run, %d bytes)' % len(stale)
            if p.returncode != 0 or not os.path.exists(rp):
                bad.append((name, files, 'exit %d, no report' % p.returncode + how, '', stale))
                continue
            text = open(rp, encoding='utf-8', errors='replace').read()
            for header, total, entries in report_blocks(text):
                if entries == 0:
                    bad.append((name, files, 'the block %r is present although it lists no finding' % header + how, text, stale))
                elif total is not None and total != entries:
                    bad.append((name, files, 'the block %r announces %d but lists %d entries' % (header, total, entries) + how, text, stale))
            if stale is None and len(text) > len(longest[0] or ''):
                longest[0] = text
    shutil.rmtree(base, ignore_errors=True)
    rep.coverage['binary_end_to_end'] = {'trees': n, 'inconsistent_reports': len(bad)}
    for name, files, why, text, stale in bad[:2]:
        rep.violation('solstat on the tree %r: %s' % (name, why),
                      {'kind': 'S', 'input': {'tree': files, 'argv': ['--path', './contracts'], 'report_present_before_the_run': stale},
                       'report': text[:3000], 'mode': 'binary',
                       'theorem': 'category_iff / total_matches_entries (composition of analyze_dir and generate_report)'})
    return bool(bad)


def run(rep, ctx):
    cases = build_cases(ctx)
    outs, codes = rc.evaluate(ctx, cases, 'c12')
    log('evaluated', len(cases), 'findings maps')
    rc.fill_coverage(rep, cases, outs, codes, S_CODES,
                     'findings maps: every subset of the 4 vulnerability patterns x several file/line multiplicities (and once with a single '
                     'entry each), every subset of the QA patterns, single / all / random optimizations, whole reports for every combination '
                     'of empty/non-empty categories.  Non-trivial = well-formed map with >= 2 entries.  For each: implementation bytes = model '
                     'bytes, and on the implementation bytes: number printed in the overview = number of entries the reader finds, each severity '
                     'heading printed <-> a finding of that severity exists, every entry read lies under the heading of its required severity, '
                     'category overview present <-> category has findings',
                     {'vulnerability_subsets_covered': 16})

    def fails_spec(cands, key):
        return [bool(set(k) & key) for k in rc.evaluate(ctx, cands, 'shrink-c12')[1]]
    found = rc.report_failures(rep, ctx, 'C12', cases, outs, codes, S_CODES, fails_spec, theorem_of)
    found = binary_part(rep, ctx) or found
    common.finish_proof_status(rep, ctx, found)


def replay(obj):
    if obj.get('mode') == 'binary':
        import os, shutil, subprocess
        binary = vlib.build_solstat_bin()
        root = os.path.join(vlib.CACHE, 'c12-replay-%d' % os.getpid())
        shutil.rmtree(root, ignore_errors=True)
        for rel, src in obj['input']['tree'].items():
            p = os.path.join(root, 'contracts', rel)
            os.makedirs(os.path.dirname(p), exist_ok=True)
            open(p, 'w').write(src)
        if obj['input'].get('report_present_before_the_run') is not None:
            open(os.path.join(root, 'solstat_report.md'), 'w', encoding='utf-8').write(obj['input']['report_present_before_the_run'])
        subprocess.run([binary] + obj['input']['argv'], cwd=root)
        text = open(os.path.join(root, 'solstat_report.md'), errors='replace').read() if os.path.exists(os.path.join(root, 'solstat_report.md')) else ''
        shutil.rmtree(root, ignore_errors=True)
        blocks = report_blocks(text)
        print('blocks (header, announced total, entries listed):', blocks)
        return 1 if any(e == 0 or (t is not None and t != e) for h, t, e in blocks) else 0
    ctx, case, out, codes = rc.replay_common('C12', obj, S_CODES)
    if out != 'PANIC':
        lines = out.decode('utf-8', errors='replace').split('\n')
        print('severity headings printed:', [h for h in ('## High Risk', '## Medium Risk', '## Low Risk') if h in lines])
        sev = rc.tables()['cats']['vul']['severity']
        print('severities with a finding:', sorted(set(sev[p] for p, v in case['maps']['vul'] if any(ls for f, ls in v))))
    return 1 if codes else 0
