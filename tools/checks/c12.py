"""C12 - report totals and headings agree with the findings shown.

Decided by: theorems total_matches_entries / category_iff / severity_of / heading_iff (props/C12.v);
correspondence as for C11, with every subset of the four vulnerability patterns crossed with several
file/line multiplicities, and whole reports for every combination of empty/non-empty categories."""
import random
import vlib
from vlib import log
from checks import common
from checks import report_common as rc

S_CODES = {3, 21, 22, 23, 24}


def theorem_of(key):
    return {21: 'total_matches_entries', 22: 'heading_iff', 23: 'heading_iff', 24: 'category_iff'}.get(sorted(key)[0] if key else 0, 'heading_iff')


def build_cases(ctx):
    rng = random.Random(ctx.seed * 1000003 + 12)
    cases = []
    reps = 4 if ctx.tier == 'quick' else 40
    for rep_ in range(reps):
        for sub in rc.all_subsets(rc.variants('vul')):
            cases.append(rc.mk_case('vul', {'vul': rc.gen_map(rng, 'vul', sub)}, 'vul:subset'))
    # minimal multiplicities: one file, one line per pattern
    for sub in rc.all_subsets(rc.variants('vul')):
        cases.append(rc.mk_case('vul', {'vul': [[p, [['a.sol', [1]]]] for p in sub]}, 'vul:subset-minimal'))
    cases += rc.standard_cases(rng, n_opt_random=20 if ctx.tier == 'quick' else 300, n_all=24 if ctx.tier == 'quick' else 300, reps=1)
    return rc.corpus_cases('C11') + rc.corpus_cases('C12') + rc.corpus_cases('C13') + cases + rc.ood_cases(rng)


def run(rep, ctx):
    cases = build_cases(ctx)
    outs, codes = rc.evaluate(ctx, cases, 'c12')
    log('evaluated', len(cases), 'findings maps')
    rc.fill_coverage(rep, cases, outs, codes, S_CODES,
                     'findings maps: every subset of the 4 vulnerability patterns x several file/line multiplicities (and once with a single '
                     'entry each), every subset of the QA patterns, single / all / random optimizations, whole reports for every combination '
                     'of empty/non-empty categories.  Non-trivial = well-formed map with >= 2 entries.  For each: implementation bytes = model '
                     'bytes, and on the implementation bytes: number printed in the overview = number of entries the reader finds, each severity '
                     'heading printed <-> a finding of that severity exists, every entry read lies under the heading of its required severity, '
                     'category overview present <-> category has findings',
                     {'vulnerability_subsets_covered': 16})

    def fails_spec(cands, key):
        return [bool(set(k) & key) for k in rc.evaluate(ctx, cands, 'shrink-c12')[1]]
    found = rc.report_failures(rep, ctx, 'C12', cases, outs, codes, S_CODES, fails_spec, theorem_of)
    common.finish_proof_status(rep, ctx, found)


def replay(obj):
    ctx, case, out, codes = rc.replay_common('C12', obj, S_CODES)
    if out != 'PANIC':
        lines = out.decode('utf-8', errors='replace').split('\n')
        print('severity headings printed:', [h for h in ('## High Risk', '## Medium Risk', '## Low Risk') if h in lines])
        sev = rc.tables()['cats']['vul']['severity']
        print('severities with a finding:', sorted(set(sev[p] for p, v in case['maps']['vul'] if any(ls for f, ls in v))))
    return 1 if codes else 0
