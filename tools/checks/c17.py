"""C17 - findings are invariant under re-layout and commenting of the source.
Implementation-level check: for token-preserving re-layouts s2 of s1 (one token per line, random
blanks/CRLF/tabs, line and block comments containing code-like text and multi-byte characters) with
the induced offset renaming r: (a) the parser returns the same tree up to r (sampled assumption about
solang-parser), (b) every detector flags exactly the r-images of what it flagged before, (c) the
reported lines are the lines of the moved tokens; rewriting the contents of string literals with
code-like text of the same length changes nothing.  The model part is props/C17.v."""
import re, random, os
import vlib
from vlib import log
from checks import common, det_common
from checks.det_common import DETS
import gen_programs as gp
import sol_lexer as sl

LOC_RE = re.compile(r'File\(0, (\d+), (\d+)\)')


RAW_PRAGMA_VALUE_RE = re.compile(r'(PragmaDirective\(File\(0, \d+, \d+\), Identifier \{ loc: File\(0, \d+, \d+\), name: "[^"]*" \}, '
                                 r'StringLiteral \{ loc: File\(0, \d+, \d+\), unicode: false, string: ")((?:[^"\\]|\\.)*)(")')


def squeeze_pragma_values(dump):
    """white space inside the raw value of a pragma directive is layout (the value is one token for the lexer)"""
    def f(m):
        return m.group(1) + re.sub(r'\\[ntr]|\s', '', m.group(2)) + m.group(3)
    return RAW_PRAGMA_VALUE_RE.sub(f, dump)


def dumps_related(d0, d1, smap, emap):
    """is the Debug text d1 (re-laid-out source) the text d0 (original) with every location start renamed by smap?
    Location ENDS are not compared (an end may be the end of the last token or the start of the next one); a location that
    is EMPTY in the original (omitted tuple component, name location of a constructor, ...) is not compared at all: the
    parser places it at the end of the previous or the start of the next token, or gives it the white space between them.
    -> (ok, unmapped starts, context of the first difference)"""
    p0 = LOC_RE.split(squeeze_pragma_values(d0))
    p1 = LOC_RE.split(squeeze_pragma_values(d1))
    bad = []
    if len(p0) != len(p1):
        return False, bad, {'different_number_of_locations': [len(p0) // 3, len(p1) // 3]}
    for k in range(0, len(p0), 3):
        if p0[k] != p1[k]:
            return False, bad, {'original': p0[k][-160:], 'relayout': p1[k][-160:]}
        if k + 2 < len(p0):
            s0, e0, s1 = int(p0[k + 1]), int(p0[k + 2]), int(p1[k + 1])
            if s0 == e0:
                continue
            t = smap.get(s0)
            if t is None:
                t = emap.get(s0)      # a location made of the white space after a token (name_loc of `constructor\n(`)
            if t is None:
                bad.append((s0, e0))
            elif t != s1:
                return False, bad, {'location_in_original': [s0, e0], 'renamed_start': t, 'start_in_relayout': s1,
                                    'context': p0[k][-120:]}
    return not bad, bad, None


def line_of(src_bytes, off):
    return 1 + src_bytes[:off].count(b'\n')


def rewrite_strings(src, rng):
    """same-length code-like contents for every plain string literal outside pragmas/imports"""
    toks = sl.lex(src)
    b = bytearray(src.encode('utf-8'))
    changed = 0
    for i, (kind, text, s, e) in enumerate(toks):
        if kind != 'string' or text.startswith(('hex', 'unicode', 'address')):
            continue
        if i > 0 and toks[i - 1][1] in ('import', 'from'):
            continue
        inner_len = e - s - 2
        if inner_len <= 0 or '\\' in text:
            continue
        code = 'x * 2; selfdestruct(msg.sender); a[1] = a[1] + 1; require(a && b); tok.transfer(a, 1); i++; '
        new = (code * (inner_len // len(code) + 1))[:inner_len]
        b[s + 1:e - 1] = new.encode('ascii')
        changed += 1
    return b.decode('utf-8'), changed


def run(rep, ctx):
    rng = random.Random(ctx.seed * 977 + 5)
    n_random = 120 if ctx.tier == 'quick' else 1200
    base = common.standard_programs(ctx, n_random, n_per_carrier=1, streams=('corpus', 'product', 'random', 'special'))
    base = [p for p in base if 'assembly' not in p['src'] or True]
    styles = ['lines', 'random', 'crlf', 'comments', 'dense']
    if ctx.tier != 'quick':
        styles = styles + ['random', 'comments', 'crlf', 'comments']
    progs = []
    pairs = []      # (index of original, index of variant, kind, smap, emap)
    lexfail = 0
    for p in base:
        try:
            sl.lex(p['src'])
        except sl.LexError:
            lexfail += 1
            continue
        i0 = len(progs)
        progs.append({'gen': p['gen'], 'src': p['src']})
        for st in styles:
            s2, smap, emap = sl.relayout(p['src'], rng, st)
            progs.append({'gen': 'layout:%s:%s' % (st, p['gen']), 'src': s2})
            pairs.append((i0, len(progs) - 1, st, smap, emap))
        s3, ch = rewrite_strings(p['src'], rng)
        if ch:
            progs.append({'gen': 'strings:' + p['gen'], 'src': s3})
            pairs.append((i0, len(progs) - 1, 'strings', None, None))
    # known-finding class: a comment inside a pragma directive
    kf_src1 = 'pragma solidity 0.8.0;\ncontract A { }\n'
    kf_src2 = 'pragma solidity /* ^ */ 0.8.0;\ncontract A { }\n'
    progs.append({'gen': 'kf:pragma-plain', 'src': kf_src1})
    progs.append({'gen': 'kf:pragma-comment', 'src': kf_src2})
    wd = os.path.join(vlib.CACHE, 'c17', str(os.getpid()))
    import shutil
    shutil.rmtree(wd, ignore_errors=True)
    os.makedirs(wd)
    for i, p in enumerate(progs):
        open(os.path.join(wd, '%05d.sol' % i), 'w', encoding='utf-8', newline='').write(p['src'])
    rc, out = vlib.run_prog(ctx.harness, wd)
    if rc != 0:
        raise vlib.BuildError('harness failed: ' + out[-1000:])
    res = [vlib.parse_res(open(os.path.join(wd, '%05d.res' % i), encoding='utf-8').read()) for i in range(len(progs))]
    shutil.rmtree(wd, ignore_errors=True)
    n_pairs = 0
    n_nontrivial = set()
    parser_rel_fail = []
    S = []
    moved_findings = 0
    for i0, i1, st, smap, emap in pairs:
        r0, r1 = res[i0], res[i1]
        if r0['parse'] != 'ok':
            continue
        n_pairs += 1
        if r1['parse'] != 'ok':
            S.append((i0, i1, st, 'the re-laid-out source is rejected by the parser', None))
            continue
        if st == 'strings':
            smap_f = lambda x: x
            emap_f = lambda x: x
        else:
            ok_rel, bad, diff = dumps_related(r0['dump'], r1['dump'], smap, emap)
            if not ok_rel:
                parser_rel_fail.append((i0, i1, st, bad[:3] + ([diff] if diff else [])))
            smap_f = lambda x, m=smap: m.get(x, -1)
            emap_f = lambda x, m=emap: m.get(x, -1)
        b1 = progs[i1]['src'].encode('utf-8')
        for n in DETS:
            a, b = r0['det'][n], r1['det'][n]
            if a == 'PANIC' or b == 'PANIC':
                if a != b:
                    S.append((i0, i1, st, '%s panics on one layout only' % n, n))
                continue
            want = sorted(set(smap_f(s) for s, e in a))
            got = sorted(set(s for s, e in b))
            if want != got or len(set(a)) != len(set(b)):
                S.append((i0, i1, st, '%s flags constructs starting at %s after the re-layout, expected the moved tokens %s' % (n, got, want), n))
                continue
            if a:
                n_nontrivial.add(progs[i0]['src'])
                moved_findings += len(a)
            lines_want = sorted(set(line_of(b1, s) for s in want))
            if r1['lines'][n] == 'PANIC':
                S.append((i0, i1, st, 'analyze_for_* with %s aborts on the re-laid-out text although the detector accepts its tree' % n, n))
            elif r1['lines'][n] != lines_want:
                S.append((i0, i1, st, '%s reports lines %s after the re-layout; the flagged tokens are on lines %s' % (n, r1['lines'][n], lines_want), n))
    # the same at the level of a run over a directory: the lines analyze_dir records for a re-laid-out file are the lines of
    # the moved tokens too (they have just been compared with the lines analyze_for_* reports for that text)
    from checks import lines_common
    bad_pairs = set(i1 for _, i1, *_ in S)
    cand = [(i0, i1, st) for i0, i1, st, sm, em in pairs
            if res[i0]['parse'] == 'ok' and res[i1]['parse'] == 'ok' and i1 not in bad_pairs and len(progs[i1]['src']) < 5000
            and res[i1].get('hang') is None and all(res[i1]['lines'][n] != 'PANIC' for n in DETS)]
    lead = [c for c in cand if progs[c[1]]['src'][:1] in ('\n', '\r', ' ', '\t')]
    rest = [c for c in cand if c not in lead]
    rng.shuffle(rest)
    chosen = lead[:60] + rest[:40]
    if chosen:
        ncmp, dbad = lines_common.dir_compare(ctx, [(progs[i1]['src'], res[i1]['lines']) for i0, i1, st in chosen], 'c17dir')
        rep.coverage['directory_run'] = {'files': len(chosen), 'beginning_with_white_space': len(lead[:60]), 'comparisons': ncmp, 'mismatches': len(dbad)}
        for k, n, have, want in dbad:
            if k is None:
                continue
            i0, i1, st = chosen[k]
            S.append((i0, i1, st, 'in a run over a directory %s records lines %s for the re-laid-out file; the flagged tokens are on lines %s' % (n, have, want), n))
    rep.coverage['evaluations'] = n_pairs * len(DETS)
    rep.coverage['distinct_nontrivial'] = len(n_nontrivial)
    rep.coverage['pairs'] = n_pairs
    rep.coverage['findings_followed_through_relayout'] = moved_findings
    rep.coverage['parser_relation_failures'] = len(parser_rel_fail)
    rep.coverage['not_lexed_by_tools_sol_lexer'] = lexfail
    rep.coverage['rule'] = ('(program, re-layout) pairs: repo corpus, carriers, random grammar x {one token per line, random blanks/tabs/CRLF, '
                            'CRLF, line+block comments with code-like and multi-byte text} + same-length rewriting of string-literal contents; '
                            'for each pair and each of the 30 detectors: the tokens that start flagged constructs are the same (start offsets related by the token renaming, same number of findings), line sets '
                            '= lines of the moved tokens; parser relation dump(s2) = rename(dump(s1)) checked textually; non-trivial = the original '
                            'has at least one finding of the detector')
    rep.coverage['traces_validated_against_impl'] = n_pairs - len(set((a, b) for a, b, *_ in S))
    rep.coverage['samples'] = [{'original': progs[i0]['src'][:160], 'relayout': progs[i1]['src'][:240], 'style': st}
                               for i0, i1, st, sm, em in pairs[:: max(1, len(pairs) // 3)][:3]]
    rep.assumptions = ['partial (parser): "a token-preserving re-layout yields the same tree up to the induced location renaming" is a property of '
                       'solang-parser; it is sampled here (parser_relation_failures), not proved',
                       'the model part (props/C17.v): detectors inspect locations only to return them or compare them for equality, and string '
                       'literals only by length; comments are not part of the tree',
                       'a whole `pragma ...;` directive is one token for the lexer: comments inside it are the known finding D14 and are never inserted; '
                       'white space between its sub-tokens IS varied (implementation level only: the model takes the pragma value as given)']
    found = False
    known = [k for k in vlib.known_findings() if k['kind'] == 'known' and k.get('property') == 'C17']
    # known finding D14
    rk1, rk2 = res[-2], res[-1]
    if rk1['det']['floating_pragma'] != rk2['det']['floating_pragma'] or \
            (rk2['det']['floating_pragma'] not in ([], 'PANIC')):
        if any(k.get('class') == 'comment-inside-pragma' for k in known):
            rep.known_finding('class=comment-inside-pragma: `pragma solidity /* ^ */ 0.8.0;` is reported by floating_pragma (the lexer of '
                              'solang-parser returns the raw text up to `;` as the pragma value, comments included)')
        else:
            found = True
            rep.violation('a comment inside a pragma directive changes the findings of floating_pragma',
                          {'kind': 'S', 'input': kf_src2, 'original': kf_src1, 'impl': rk2['det']['floating_pragma']})
    for i0, i1, st, bad in parser_rel_fail[:2]:
        found = True
        rep.violation('the parser does not return the same tree up to the offset renaming for a token-preserving re-layout (style %s)' % st,
                      {'kind': 'S', 'input': progs[i1]['src'], 'original': progs[i0]['src'], 'unmapped_locations': bad})
    seen = set()
    for i0, i1, st, what, n in S:
        if (n, st) in seen or len(seen) >= 4:
            continue
        seen.add((n, st))
        found = True
        rep.violation(what, {'kind': 'S', 'input': progs[i1]['src'], 'original': progs[i0]['src'], 'style': st, 'detector': n,
                             'impl_original': res[i0]['det'].get(n) if n else None, 'impl_relayout': res[i1]['det'].get(n) if n else None,
                             'n_failing_pairs': len(S)})
    common.finish_proof_status(rep, ctx, found)


def replay(obj):
    ctx = common.Ctx()
    ctx.harness = vlib.build_harness()
    import shutil
    wd = os.path.join(vlib.CACHE, 'c17', 'replay%d' % os.getpid())
    shutil.rmtree(wd, ignore_errors=True)
    os.makedirs(wd)
    open(os.path.join(wd, '00000.sol'), 'w', encoding='utf-8', newline='').write(obj.get('original', ''))
    open(os.path.join(wd, '00001.sol'), 'w', encoding='utf-8', newline='').write(obj['input'])
    vlib.sh([ctx.harness, 'prog', wd, 'nodump'])
    r0 = vlib.parse_res(open(os.path.join(wd, '00000.res')).read())
    r1 = vlib.parse_res(open(os.path.join(wd, '00001.res')).read())
    shutil.rmtree(wd, ignore_errors=True)
    d = obj.get('detector')
    print('original:\n' + obj.get('original', '')[:1500])
    print('re-layout:\n' + obj['input'][:1500])
    for n in ([d] if d else DETS):
        print(n, 'original:', r0['det'].get(n), r0['lines'].get(n), ' re-layout:', r1['det'].get(n), r1['lines'].get(n))
    rc = 0
    if r1['parse'] == 'ok' and all(r1['lines'].get(n) != 'PANIC' for n in DETS):
        from checks import lines_common
        ncmp, dbad = lines_common.dir_compare(ctx, [(obj['input'], r1['lines'])], 'c17replay')
        for k, n, have, want in dbad:
            print('run over a directory:', n, 'records lines', have, 'for the re-laid-out file; analyze_for_* reports', want)
            rc = 1
    return rc
