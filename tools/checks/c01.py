"""C01 - a pattern is found wherever it is nested in the source.

Decided by: theorem walk_exact (props/C01.v) over the hand-written model of
ast.rs + correspondence of that model with walk_node_for_targets /
extract_target(s)_from_node on the slot catalogue, the carrier product, random
programs and the out-of-domain stream; the type-derived complete pre-order
(specification) is evaluated on the implementation's own output for every input."""
import vlib
from vlib import log, coq_triples, coq_nums, coq_list
from checks import common

CODES = {1: 'walk(all targets, file) differs from the model', 2: 'walk from a sub-root differs from the model',
         3: 'extract_targets_from_node(subset) differs from the model', 4: 'extract_target_from_node(single) differs from the model',
         11: 'implementation output is not the complete pre-order filtered by kind (specification)',
         12: 'the walk from a sub-root is not the complete pre-order of that node (specification)',
         13: 'extract_targets_from_node(subset) does not return exactly the nodes of the requested kinds in pre-order (specification)',
         14: 'extract_target_from_node(single) does not return every node of the requested kind exactly once (specification)',
         15: 'extract_targets_from_node from a sub-root, called after the same searches over a same-shaped sibling file, does not return '
             'the nodes the walk from that root returns (specification: the complete pre-order of that node)'}


def exprs_for(p, r):
    j = p['j']
    w = r['walk']
    if w == 'PANIC' or 'all' not in w:
        return None
    sets = coq_list(coq_triples(w['set%d' % k]) for k in range(4))
    if w.get('sub') is None:
        return ['check_c01_nosub p%d %s %s %s' % (j, coq_triples(w['all']), sets, coq_nums(w['single'])), 'stats_c01 p%d' % j]
    return ['check_c01 p%d %s %s %s %s' % (j, coq_triples(w['all']), coq_nums(w['sub']), sets, coq_nums(w['single'])),
            'stats_c01 p%d' % j]


def evaluate(ctx, progs, name):
    ps = vlib.ProgSet(progs, name).ensure(ctx.harness)
    impl = ps.run_impl(ctx.harness, walk=True)
    exprs = []
    panics = []
    for p, r in zip(ps.progs, impl):
        e = exprs_for(p, r)
        if e is None:
            panics.append(p)
            exprs.append(['stats_c01 p%d' % p['j']])
        else:
            exprs.append(e)
    vals = ps.coq_eval(exprs, 'Lift Pt Walk Cases', 'c01')
    out = []
    for p, r, v in zip(ps.progs, impl, vals):
        if len(v) == 1:
            out.append((p, r, ['PANIC'], v[0]))
        else:
            f = list(v[0])
            if isinstance(r['walk'], dict) and r['walk'].get('subx'):
                f.append(15)
            out.append((p, r, f, v[1]))
    return ps, out


def run(rep, ctx):
    n_random = 300 if ctx.tier == 'quick' else 4000
    progs = common.standard_programs(ctx, n_random, n_per_carrier=2 if ctx.tier == 'quick' else 8)
    ps, out = evaluate(ctx, progs, 'std-%s-%d' % (ctx.tier, ctx.seed))
    log('evaluated', len(out), 'programs; rejected by parser', ps.rejected)
    failing = [(p, r, f) for p, r, f, s in out if f]
    kinds_seen = set()
    nontrivial = 0
    nodes_total = 0
    by_gen = {}
    for p, r, f, s in out:
        nodes_total += s[0]
        if s[0] >= 10 and s[1] >= 5:
            nontrivial += 1
        g = p['gen'].split(':')[0]
        by_gen[g] = by_gen.get(g, 0) + 1
    rep.coverage['evaluations'] = len(out)
    rep.coverage['distinct_nontrivial'] = len(set(p['src'] for p, r, f, s in out if s[0] >= 10 and s[1] >= 5))
    rep.coverage['rule'] = ('programs from: repo test corpus, slot catalogue (one marker in every constructor x child slot), '
                            'detector carriers x contexts, seeded random grammar, out-of-domain stream; non-trivial = parse tree '
                            'with >= 10 nodes of >= 5 distinct kinds; for each: walk(all) from the file, full walk from every '
                            'node as root, 4 target subsets, 88 single targets compared with the model, and the implementation '
                            'output compared with the type-derived complete pre-order')
    rep.coverage['programs_by_generator'] = by_gen
    rep.coverage['nodes_total'] = nodes_total
    rep.coverage['max_depth'] = max(p['depth'] for p in ps.progs)
    rep.coverage['rejected_by_parser'] = ps.rejected
    rep.coverage['traces_validated_against_impl'] = len(out) - len(failing)
    rep.coverage['samples'] = [{'gen': p['gen'], 'src': p['src'][:400], 'nodes': s[0], 'kinds': s[1]}
                               for p, r, f, s in out[:: max(1, len(out) // 4)][:4]]
    rep.assumptions = ['the solang parser is an oracle: theorems quantify over all values of the parse-tree type',
                       'inline assembly contains no Expression/Statement at type level (YulBlock is opaque)']
    found = False
    if failing:
        found = True
        # shrink the first few distinct failures
        reported = 0
        seen_codes = set()
        for p, r, f in failing:
            key = tuple(f)
            if key in seen_codes and reported >= 1:
                continue
            seen_codes.add(key)

            def still(cands, f0=f):
                _, o = evaluate(ctx, [{'gen': 'shrink', 'src': c} for c in cands], 'shrink')
                m = {pp['src']: ff for pp, rr, ff, ss in o}
                return [bool(m.get(c)) for c in cands]
            small = common.shrink(p['src'], still) if ctx.tier else p['src']
            _, o = evaluate(ctx, [{'gen': 'min', 'src': small}], 'shrink')
            pp, rr, ff, ss = o[0]
            spec = bool({11, 12, 13, 14, 15} & set(ff)) or 'PANIC' in ff
            rep.violation('; '.join(CODES.get(c, str(c)) for c in ff),
                          {'kind': 'S' if spec else 'M', 'input': small, 'original_gen': p['gen'], 'failed_subchecks': ff,
                           'impl_walk_all': rr['walk'].get('all') if isinstance(rr['walk'], dict) else 'PANIC',
                           'theorem': 'walk_exact', 'n_failing_programs': len(failing),
                           'model_function': 'Walk.walk', 'rust_function': 'ast::walk_node_for_targets'},
                          no_input=not spec)
            reported += 1
            if reported >= 3:
                break
    common.finish_proof_status(rep, ctx, found)


def replay(obj):
    import random
    rep = vlib.Report('C01', 'quick', 1)
    ctx = common.Ctx()
    ctx.tier = 'quick'
    ctx.seed = 1
    ctx.harness = vlib.build_harness()
    _, o = evaluate(ctx, [{'gen': 'replay', 'src': obj['input']}], 'replay')
    for p, r, f, s in o:
        print('input:\n' + p['src'])
        print('implementation walk(all):', r['walk'].get('all') if isinstance(r['walk'], dict) else r['walk'])
        print('failed sub-checks (model/spec vs implementation):', f, [CODES.get(c) for c in f])
    return 1 if any(f for p, r, f, s in o) else 0
