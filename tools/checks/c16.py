"""C16 - only Solidity sources are analysed; test files and other files are inert.

Decided by: theorems eligible_iff_sol_source / eligible_sound / eligible_complete / inert_files
(props/C16.v) about the model coq/model/Dir.v + correspondence with the real analyze_dir:
 (a) every concatenation of <= 4 fragments of
     {a . t T .sol .SOL .t.sol .T.Sol sol} and a list of odd names (Unicode, upper-case
     extensions, '.sol' mid-name) as files of one real directory: which ones are analysed,
     versus Dir.eligible and versus an independent decision of the specification;
 (b) real trees mixing eligible files with inert ones (binary, unparseable *.t.sol, not UTF-8,
     empty, valid Solidity under an inert name): run, remove the inert files, run again,
     compare in Coq (and model = implementation on both)."""
import os, itertools, random, shutil, json
import vlib
from vlib import log, coq_list, coq_str
from checks import common
from checks import dir_common as dc
from checks.dir_common import Run, F, D

FRAGS = ['a', '.', 't', 'T', '.sol', '.SOL', '.t.sol', '.T.Sol', 'sol', '.t', '_']
ODD = dc.ELIG_NAMES + dc.INERT_NAMES + dc.UNDECIDED_NAMES + [
    'A.T.SOL.sol', 'x.t.sol.t.sol', '.t.sol.sol', 'a..sol', 'a.sol.sol', 'ſ.sol', 'a.ſol', 'a.t.ſol', 'a.T.sol', 'a.K.sol',
    'a.ṫ.sol', 'İ.t.sol', 'a.t.soĺ', 'a.t.sol​', 'Σ.T.SOL', 'aΣ.sol', 'x' * 200 + '.sol', 'x' * 200 + '.t.sol',
    ' .sol', '-.sol', '--help.sol', '*.sol', 'a?.sol', 'a\\b.sol', 'a\tb.sol', 'a\nb.sol', '"q".sol', "it's.sol", 'a.sol~', '#a.sol#',
    'a.Sol', 'a.sOl', 'a.soL', 'a.t.sOl', 'a.t.soL', 'a.t.sol ', 'a.t.Sol', 'a.T.sOL', 't.sol.t', 'T.SOL', '.T.SOL', 'a.t .sol', 'a. t.sol',
    'Vault.t_sol.sol', 'abi.tosol.sol', 'Pool.T-Sol.v2.sol', 'Vault.t sol.sol', 'a.txsol.sol', 'NOTES.SOL', 'Backup.Sol', 'blob.sOL',
    'Caf\u00e9s.sol', '\u4ee3\u5e01.sol', 'Token\u20ac.sol', '\u00e9.t.sol', 'ab\u00e9.t.sol']
PY_CLASS = {'inert': 0, 'eligible': 1, 'undecided': 2}


def frag_names(k):
    names = set()
    for n in range(1, k + 1):
        for combo in itertools.product(FRAGS, repeat=n):
            names.add(''.join(combo))
    names -= {'.', '..'}
    return sorted(names)


def names_part(rep, ctx, hz, oracle, rng):
    cat, pat, content = None, None, None
    oracle.ensure([c for n, c in [(n, s.encode()) for n, s in dc.HANDMADE]])
    for n, s in dc.HANDMADE:
        for c in sorted(oracle.cats):
            for p in oracle.names(c):
                ls = oracle.lines(s.encode(), c, p)
                if ls and ls != 'PANIC' and cat is None:
                    cat, pat, content = c, p, s.encode()
    if cat is None:
        raise vlib.BuildError('no source with a finding for the name enumeration')
    names = frag_names(4)
    names = list(dict.fromkeys(names + [n for n in ODD if n not in ('.', '..') and len(n.encode()) <= 255 and '/' not in n and '\0' not in n]))
    t = [F(n, content) for n in names]
    r = Run(t, cat, [pat], 'names')
    dc.run_impl(hz, [r], rng)
    if r.impl == 'PANIC':
        rep.violation('the run over the name-enumeration directory aborts (all files hold the same valid source)',
                      {'kind': 'S', 'input': {'names': names, 'category': cat, 'pattern': pat}, 'theorem': 'inert_files'})
        return True, 0, (0, 0, 0)
    analysed = set()
    for pname, vec in r.impl:
        for f, ls in vec:
            analysed.add(f.decode('utf-8'))
    shards = []
    CH = 400
    for k in range(0, len(names), CH):
        chunk = names[k:k + CH]
        term = coq_list('(%s, %s, %d)' % (coq_str(n), 'true' if n in analysed else 'false', PY_CLASS[dc.spec_class(n)]) for n in chunk)
        shards.append(['Definition names : list (string * bool * N) := %s.' % term, ('eval', 'check_names names'), ('eval', 'count_classes names')])
    vals = vlib.coq_eval_plain(shards, dc.IMPORTS, 'c16names')
    bad = []
    counts = [0, 0, 0]
    for k, v in enumerate(vals):
        for idx, code in v[0]:
            bad.append((names[k * CH + idx], code))
        for i in range(3):
            counts[i] += v[1][i]
    found = False
    if any(c == 90 for n, c in bad):
        raise vlib.BuildError('python mirror of the name classes disagrees with DirCases.name_class: %r' % [n for n, c in bad if c == 90][:5])
    spec_bad = [n for n, c in bad if c == 11]
    model_bad = [n for n, c in bad if c == 1]
    if spec_bad:
        found = True
        n = min(spec_bad, key=len)
        rep.violation('file %r is %s although the specification says the opposite' % (n, 'analysed' if n in analysed else 'not analysed'),
                      {'kind': 'S', 'input': {'tree': [{'file': n, 'text': content.decode()}], 'category': cat, 'patterns': [pat]},
                       'implementation_analysed_it': n in analysed, 'specification_class': dc.spec_class(n), 'all_failing_names': spec_bad[:50],
                       'theorem': 'eligible_iff_sol_source / eligible_sound / eligible_complete'})
    elif model_bad:
        rep.violation('Dir.eligible differs from the filter of analyze_dir on %d names' % len(model_bad),
                      {'kind': 'M', 'names': model_bad[:50], 'model_function': 'Dir.eligible', 'rust_function': 'analyze_dir (name filter)'},
                      no_input=True)
    rep.coverage['names'] = {'total': len(names), 'analysed_by_impl': len(analysed), 'spec_inert': counts[0], 'spec_eligible': counts[1],
                             'undecided': counts[2], 'fragment_depth': 4, 'odd_names': len(ODD)}
    return found, len(names), counts


def prune_py(t):
    out = []
    for e in t:
        if e['k'] == 'f':
            if dc.spec_class(e['name']) != 'inert':
                out.append(e)
        else:
            out.append(D(e['name'], prune_py(e['ch'])))
    return out


def count_inert(t):
    return sum(1 for p, e in dc.tree_files(t) if dc.spec_class(e['name']) == 'inert')


def evaluate_pairs(hz, oracle, pairs, rng, tag):
    """pairs: list of (Run full, Run pruned).  check_dir on both + check_inert."""
    runs = [r for p in pairs for r in p]
    oracle.ensure(dc.oracle_contents(runs))
    dc.run_impl(hz, runs, rng)
    items = []
    for a, b in pairs:
        ta, tb = dc.listing_term(a, oracle), dc.listing_term(b, oracle)
        a.coq_tree, b.coq_tree = ta, tb
        items.append(([a, b], ['check_dir tbl_%s %s %s %s' % (a.cat, ta, dc.ps_term(a, oracle), dc.impl_term(a, oracle)),
                               'check_dir tbl_%s %s %s %s' % (b.cat, tb, dc.ps_term(b, oracle), dc.impl_term(b, oracle)),
                               'check_inert %s %s %s %s' % (ta, tb, dc.impl_term(a, oracle), dc.impl_term(b, oracle)),
                               'stats_dir tbl_%s %s %s' % (a.cat, ta, dc.ps_term(a, oracle))]))
    vals = dc.coq_eval(oracle, items, tag)
    for (a, b), v in zip(pairs, vals):
        a.codes, b.codes = list(v[0]), list(v[1])
        a.extra['inert'] = list(v[2])
        a.stats = tuple(v[3])
    return pairs


def make_pair(t, cat, ps, tag='inert'):
    return (Run(t, cat, ps, tag), Run(prune_py(t), cat, ps, tag + '-pruned'))


def inert_part(rep, ctx, hz, oracle, pool, rng):
    from checks.c03 import pick_ps, content_picker
    cats = sorted(oracle.cats)
    pairs = []
    n = 150 if ctx.tier == 'quick' else 2000
    for k in range(n):
        cat = cats[k % len(cats)]
        ps = pick_ps(rng, oracle, cat)
        pick = content_picker(oracle, pool, cat, ps)
        if pick is None:
            continue
        t = dc.random_tree(rng, pick, max_entries=8, p_inert=0.45, p_undecided=0.05)
        # make sure the interesting kinds of inert file occur: an unparseable test file, bytes that are
        # not UTF-8, a valid source with findings under an inert name, each at a random place
        extra = [F('Broken%d.t.sol' % k, b'contract {'), F('blob%d.T.SOL' % k, dc.UNREADABLE), F('Real%d.t.sol' % k, pick(rng)),
                 F('notes%d.sol.bak' % k, pick(rng)), F('UP%d.SOL' % k, b'\x00\xff')]
        for e in rng.sample(extra, rng.randint(1, len(extra))):
            where = t
            while True:
                ds = [x for x in where if x['k'] == 'd']
                if ds and rng.random() < 0.5:
                    where = rng.choice(ds)['ch']
                else:
                    break
            where.insert(rng.randint(0, len(where)), e)
        pairs.append(make_pair(t, cat, ps))
    # a chain of 22 nested directories with eligible and inert files at every level
    for cat in cats:
        ps = pick_ps(rng, oracle, cat)
        pick = content_picker(oracle, pool, cat, ps)
        if pick is None:
            continue
        t = [F('L22.sol', pick(rng)), F('deep.t.sol', dc.UNREADABLE)]
        for lvl in range(21, 0, -1):
            t = [F('L%d.sol' % lvl, pick(rng)), D('n', t), F('x%d.T.sol' % lvl, b'contract {')]
        pairs.append(make_pair(t, cat, ps, 'deep'))
    evaluate_pairs(hz, oracle, pairs, rng, 'c16')
    return pairs


def run(rep, ctx):
    rng = random.Random(ctx.seed * 1000003 + 16)
    dc.cleanup()
    hz = dc.Harness(ctx.harness)
    try:
        oracle = dc.Oracle(hz)
        pool = dc.source_pool(rng)
        oracle.ensure([c for n, c in pool])
        found = False
        # modelling assumption: str::to_lowercase versus ASCII lowering
        lc = hz.req('lowercheck')
        if not lc or not lc[0].startswith('lowercheck ok'):
            rep.violation('str::to_lowercase can create or destroy an occurrence of ".t.sol" (model uses ASCII lowering)',
                          {'kind': 'M', 'detail': lc, 'model_function': 'Dir.lower', 'rust_function': 'str::to_lowercase'}, no_input=True)
        f1, n_names, counts = names_part(rep, ctx, hz, oracle, rng)
        found = found or f1
        log('names evaluated:', n_names)
        pairs = inert_part(rep, ctx, hz, oracle, pool, rng)
        log('inert pairs evaluated:', len(pairs))
        if any(90 in a.codes or 90 in b.codes or 20 in a.extra['inert'] for a, b in pairs):
            raise vlib.BuildError('check machinery: oracle incomplete or pruning mismatch (codes 90/20)')
        spec_fail = [(a, b) for a, b in pairs if set(a.extra['inert']) & {21, 23} or set(a.codes + b.codes) & dc.SPEC_CODES]
        model_fail = [(a, b) for a, b in pairs if a.codes or b.codes]
        if spec_fail and not found:
            found = True
            a0, b0 = min(spec_fail, key=lambda p: dc.tree_entries(p[0].tree))
            cur = (a0, b0)

            def failing(p):
                return bool(set(p[0].extra['inert']) & {21, 23} or set(p[0].codes + p[1].codes) & dc.SPEC_CODES)
            for _ in range(25):
                cands = []

                def variants(t):
                    for i, e in enumerate(t):
                        yield t[:i] + t[i + 1:]
                        if e['k'] == 'd':
                            for v in variants(e['ch']):
                                yield t[:i] + [D(e['name'], v)] + t[i + 1:]
                for v in variants(cur[0].tree):
                    if count_inert(v) >= 1:
                        cands.append(make_pair(v, cur[0].cat, cur[0].ps, 'shrink'))
                cands = cands[:120]
                if not cands:
                    break
                evaluate_pairs(hz, oracle, cands, rng, 'c16shrink')
                good = [p for p in cands if failing(p)]
                if not good:
                    break
                cur = min(good, key=lambda p: dc.tree_entries(p[0].tree))
            a, b = cur
            rep.violation('; '.join(dc.CODES[c] for c in a.extra['inert'] + [c for c in a.codes + b.codes if c in dc.SPEC_CODES]),
                          {'kind': 'S', 'input': a.describe(), 'inert_files_removed': [p for p, e in
                                                                                     [('/'.join(p), e) for p, e in dc.tree_files(a.tree)] if dc.spec_class(e['name']) == 'inert'],
                           'implementation_output_full_tree': dc.impl_json(a), 'implementation_output_without_inert_files': dc.impl_json(b),
                           'listing_order_observed': dc.listing_json(a), 'failed_subchecks': {'inert': a.extra['inert'], 'full': a.codes, 'pruned': b.codes},
                           'theorem': 'inert_files (coq/props/C16.v)', 'n_failing_pairs': len(spec_fail)})
        elif model_fail and not found:
            a, b = min(model_fail, key=lambda p: dc.tree_entries(p[0].tree))
            rep.violation('model Dir.analyze_dir differs from the implementation on a tree with inert files',
                          {'kind': 'M', 'input': a.describe(), 'failed_subchecks': {'full': a.codes, 'pruned': b.codes},
                           'implementation_output_full_tree': dc.impl_json(a), 'listing_order_observed': dc.listing_json(a),
                           'model_function': 'Dir.analyze_dir / Dir.eligible', 'rust_function': 'analyzer::%s::analyze_dir' % a.cat}, no_input=True)
        nontriv = set()
        same_order = 0
        for a, b in pairs:
            if a.impl != 'PANIC' and count_inert(a.tree) >= 2 and a.stats[2] >= 1:
                nontriv.add((a.coq_tree, a.cat, tuple(a.ps)))
        rep.coverage['evaluations'] = n_names + 2 * len(pairs)
        rep.coverage['distinct_nontrivial'] = len(nontriv) + counts[0] + counts[1]
        rep.coverage['rule'] = ('(a) one real directory holding a file for every concatenation of <= %d fragments of %s plus %d odd names, all with the same '
                                'finding-bearing source: the set of analysed names versus Dir.eligible and versus an independent decision of '
                                'is_suffix/ends_with_ci/contains_ci (non-trivial: every name the specification decides); (b) real trees with inert '
                                'files (unparseable *.t.sol, non-UTF-8 bytes, valid sources under inert names, upper-case extensions) run with and '
                                'without them, compared in Coq, model = implementation on both (non-trivial: the run succeeds, >= 2 inert files, >= 1 finding)'
                                % (4, FRAGS, len(ODD)))
        rep.coverage['inert_pairs'] = len(pairs)
        rep.coverage['inert_files_removed_total'] = sum(count_inert(a.tree) for a, b in pairs)
        rep.coverage['pairs_with_findings'] = sum(1 for a, b in pairs if a.impl != 'PANIC' and a.stats[2] >= 1)
        rep.coverage['traces_validated_against_impl'] = n_names + sum(1 for a, b in pairs if not a.codes and not b.codes)
        rep.coverage['samples'] = [{'listing': dc.listing_json(a), 'patterns': a.ps, 'implementation_output': dc.impl_json(a),
                                    'implementation_output_without_inert_files': dc.impl_json(b)} for a, b in pairs[:: max(1, len(pairs) // 3)][:3]]
        rep.assumptions = ['str::to_lowercase modelled as ASCII lowering; checked exhaustively over all Unicode scalar values that the two agree on whether ".t.sol" occurs (vh_dir lowercheck)',
                           'file names are valid Unicode (a name that is not makes the real run panic for any entry, eligible or not: outside the statement)',
                           'names ending in .sol with .t.sol in the middle (a.t.sol.sol) are not decided by the property; the code excludes them; they are kept in both runs',
                           'analyze_for_* is an oracle (Section variable)']
        common.finish_proof_status(rep, ctx, found)
    finally:
        hz.close()
        dc.cleanup()


def replay(obj):
    rng = random.Random(1)
    harness = vlib.build_harness()
    dc.cleanup()
    hz = dc.Harness(harness)
    try:
        oracle = dc.Oracle(hz)
        inp = obj['input']
        t = dc.tree_from_json(inp['tree'])
        pair = make_pair(t, inp['category'], inp['patterns'], 'replay')
        evaluate_pairs(hz, oracle, [pair], rng, 'c16replay')
        a, b = pair
        print('tree:', json.dumps(inp['tree'], ensure_ascii=False))
        print('category / patterns:', a.cat, a.ps)
        print('listing order observed:', dc.listing_json(a))
        print('implementation, full tree:', dc.impl_json(a))
        print('implementation, inert files removed:', dc.impl_json(b))
        print('failed sub-checks: inert', a.extra['inert'], 'full', a.codes, 'pruned', b.codes)
        return 1 if (a.extra['inert'] or a.codes or b.codes) else 0
    finally:
        hz.close()
        dc.cleanup()
