"""Machinery shared by the directory checks C03 / C15 / C16: real directory trees under
/verif/.cache/fs/<pid>/, the vh_dir harness binary (real analyze_dir / analyze_for_*), the
per-file oracle, Coq terms of the observed listings, evaluation of model and specification
in Coq (coq/model/DirCases.v)."""
import os, sys, re, json, random, shutil, subprocess, itertools, hashlib
import vlib
from vlib import log, coq_str, coq_list
import gen_programs as gp

FSROOT = os.path.join(vlib.CACHE, 'fs', str(os.getpid()))
IMPORTS = 'Res Dir DirSpec DirCases'
SHARD = 40


def cleanup():
    shutil.rmtree(FSROOT, ignore_errors=True)


# ----------------------------------------------------------------------------- harness session
class Harness:
    """one vh_dir process; request / response over pipes"""

    def __init__(self, vharness_path):
        self.path = vlib.need_bin('vh_dir')
        if not os.path.exists(self.path):
            raise vlib.BuildError('harness binary vh_dir missing: ' + self.path)
        self.start()

    def start(self):
        self.p = subprocess.Popen([self.path], stdin=subprocess.PIPE, stdout=subprocess.PIPE)

    def restart(self):
        self.close()
        self.start()

    def req(self, line):
        self.p.stdin.write(line.encode() + b'\n')
        self.p.stdin.flush()
        out = []
        while True:
            l = self.p.stdout.readline()
            if not l:
                raise vlib.BuildError('vh_dir died on request: ' + line[:200])
            l = l.decode().rstrip('\n')
            if l == 'end':
                return out
            out.append(l)

    def close(self):
        try:
            self.p.stdin.close()
            self.p.wait(timeout=10)
        except Exception:
            self.p.kill()


def hx(b):
    if isinstance(b, str):
        b = b.encode('utf-8')
    return b.hex() if b else '-'


def unhx(s):
    return b'' if s == '-' else bytes.fromhex(s)


# ----------------------------------------------------------------------------- the name filter, as the SPECIFICATION reads it
def spec_class(name):
    """'eligible'  : ends in '.sol' and contains no spelling of '.t.sol' in any letter case
       'inert'     : does not end in '.sol', or ends in some spelling of '.t.sol'
       'undecided' : ends in '.sol', contains a spelling of '.t.sol' but does not end in one
                     (e.g. a.t.sol.sol; C16 does not decide these, DESIGN section 7)
    name: str.  ASCII case folding only (str.lower() would fold non-ASCII letters too)."""
    low = ''.join(chr(ord(c) + 32) if 'A' <= c <= 'Z' else c for c in name)
    if not name.endswith('.sol'):
        return 'inert'
    if low.endswith('.t.sol'):
        return 'inert'
    if '.t.sol' in low:
        return 'undecided'
    return 'eligible'


# ----------------------------------------------------------------------------- sources
PRAGMA = 'pragma solidity ^0.8.10;\n'
HANDMADE = [
    ('shift', PRAGMA + 'contract S {\n  function f(uint a) public pure returns (uint) {\n    uint b = a * 2;\n    return b / 4;\n  }\n}\n'),
    ('shift2', PRAGMA + '\ncontract S2 {\n  function g(uint a) public pure returns (uint) { return a * 8; }\n}\n'),
    ('incr', PRAGMA + 'contract I {\n  function f(uint n) public pure returns (uint s) {\n    for (uint i = 0; i < n; i++) {\n      s += i;\n    }\n  }\n}\n'),
    ('incr2', PRAGMA + 'contract I2 {\n  uint public k;\n  function f() public {\n    k++;\n    k--;\n  }\n}\n'),
    ('zero', PRAGMA + 'contract Z {\n  function f(address a) public pure returns (bool) {\n    return a == address(0);\n  }\n}\n'),
    ('req', PRAGMA + 'contract R {\n  function f(uint a, uint b) public pure {\n    require(a > 0 && b > 0, "both");\n    require(a >= 1, "this revert string is clearly longer than thirty-two bytes");\n  }\n}\n'),
    ('booleq', PRAGMA + 'contract B {\n  function f(bool a) public pure returns (bool) {\n    if (a == true) { return false; }\n    return a != false;\n  }\n}\n'),
    ('cache', PRAGMA + 'contract C {\n  uint[] arr;\n  function f() public view returns (uint s) {\n    for (uint i = 0; i < arr.length; i++) { s += arr[i]; }\n  }\n}\n'),
    ('selfd', PRAGMA + 'contract K {\n  function kill() public {\n    selfdestruct(payable(address(0)));\n  }\n}\n'),
    ('erc20', PRAGMA + 'interface IERC20 { function transfer(address, uint) external returns (bool); }\ncontract T {\n  function f(IERC20 t, address a) public {\n    t.transfer(a, 1);\n  }\n}\n'),
    ('divmul', PRAGMA + 'contract D {\n  function f(uint a, uint b) public pure returns (uint) {\n    return (a / b) * 3;\n  }\n}\n'),
    ('ctor', PRAGMA + 'contract Q {\n  uint private x;\n  function f() public {}\n  function g() private {}\n  constructor() { x = 1; }\n}\n'),
    ('ctor2', PRAGMA + 'contract Q2 {\n  uint private y;\n  function h() internal {}\n  constructor() { y = 2; }\n}\n'),
    ('pack', PRAGMA + 'contract P {\n  uint128 a;\n  uint256 b;\n  uint128 c;\n  struct St { uint64 x; uint256 y; uint64 z; }\n}\n'),
    ('fixed', 'pragma solidity 0.8.10;\ncontract F {\n  uint constant K = 3;\n  function f(uint a) external pure returns (uint) { return a + K; }\n}\n'),
    ('pre08', 'pragma solidity ^0.7.6;\ncontract O {\n  function f(uint a) public pure returns (uint) {\n    return a * 2;\n  }\n}\n'),
    ('nothing', PRAGMA),
    ('empty', ''), ('blank-lf', '\n\n\n'), ('blank-spaces', '  \n\t\n   '), ('blank-crlf', '\r\n\r\n'), ('only-comment', '// nothing here\n\n/* at\n all */\n'),
    ('leading-blank', '\n\n   \n' + PRAGMA + 'contract LB {\n  function f(uint a) public pure returns (uint) {\n    return a * 2;\n  }\n  function g() private {}\n}\n'),
    ('leading-blank-crlf', '\r\n\r\n' + PRAGMA + 'contract LC {\r\n  uint x;\r\n  function f(uint a) public {\r\n    x = a + 1;\r\n  }\r\n  function g() private {}\r\n}\r\n   \r\n'),
    ('crlf', 'pragma solidity ^0.8.10;\r\ncontract W {\r\n  function f(uint a) public pure returns (uint) {\r\n    return a * 2;\r\n  }\r\n}\r\n'),
    ('unicode', PRAGMA + '// é ü\ncontract U {\n  string s = unicode"héllo";\n  function f(uint a) public pure returns (uint) { return a * 4; }\n}\n'),
]
GARBAGE = [b'this is not solidity {{{', b'', b'\xff\xfe\x00\x01binary\x80\x81', b'contract {', b'\x00' * 17,
           b'pragma solidity ^0.8.0;\ncontract T { function f(uint a) public { a = a * 2; } }\n']
UNREADABLE = b'\xff\xfepragma solidity ^0.8.0;\n\x80'


EDGE_NAMES = ('empty', 'blank-lf', 'blank-spaces', 'blank-crlf', 'only-comment', 'leading-blank', 'leading-blank-crlf', 'nothing')


def edge_contents():
    """contents without any token, or with blank lines before the first one: files a walker may want to treat specially"""
    return [s.encode('utf-8') for n, s in HANDMADE if n in EDGE_NAMES]


def source_pool(rng):
    srcs = [(n, s) for n, s in HANDMADE]
    srcs += [(p['gen'], p['src']) for p in gp.corpus()]
    srcs += [(p['gen'], p['src']) for p in gp.out_of_domain(rng)]
    # special shapes (several memory parameters on different lines, 300 nested else-if, ...): what is analysed
    # repeatedly and from 16 threads at once must include them
    special = set(p['src'] for p in gp.special_programs())
    srcs += [(p['gen'], p['src']) for p in gp.special_programs()]
    seen = set()
    out = []
    for n, s in srcs:
        if s in seen or (len(s) > 4000 and s not in special) or len(s) > 20000:
            continue
        seen.add(s)
        out.append((n, s.encode('utf-8')))
    # the same contents padded with line feeds to ONE common length: different files of exactly the same size (and
    # different line layouts) meet at the same listing index of different directories - whatever is remembered per
    # (file number, size) from one file must not reach the next
    padded = []
    for k, (n, b) in enumerate(out):
        if k % 2 == 0 and len(b) < 2048 and (b.endswith(b'\n') or not b):
            padded.append((n + ':pad2048', b + b'\n' * (2048 - len(b))))
        elif k % 2 == 1 and len(b) < 2047:
            padded.append((n + ':pad2048', b + b'\n' + b'\n' * (2047 - len(b))))
    return out + padded


# ----------------------------------------------------------------------------- per-file oracle
class Oracle:
    """content bytes -> content-id; results of analyze_for_*(content, 0, pattern) for the 30
    patterns, obtained from the implementation on each content ALONE (vh_dir files; file number 0
    is what a file alone in a directory gets).  fileno_dependent: (cid, cat, pattern) for which
    file numbers 7 or 1000 give another answer."""

    def __init__(self, hz):
        self.hz = hz
        self.cid = {}          # bytes -> 'cN'
        self.res = {}          # cid -> {(cat, pattern): [lines] | 'PANIC'} ; {} when unreadable
        self.cats = {}         # cat -> sorted pattern names
        self.fileno_dependent = []
        self.round = 0

    def ensure(self, contents):
        new = [c for c in dict.fromkeys(contents) if c not in self.cid]
        if not new:
            return
        d = os.path.join(FSROOT, 'pool%d' % self.round)
        self.round += 1
        os.makedirs(d)
        names = {}
        for c in new:
            cid = 'c%d' % len(self.cid)
            self.cid[c] = cid
            self.res[cid] = {}
            open(os.path.join(d, cid + '.sol'), 'wb').write(c)
            names[(cid + '.sol').encode()] = cid
        for l in self.hz.req('files ' + hx(d)):
            a = l.split(' ')
            if a[0] == 'fileno':
                self.fileno_dependent.append((names[unhx(a[1])], a[2], a[3]))
                continue
            if a[0] != 'an':
                raise vlib.BuildError('unexpected vh_dir output: ' + l)
            cid = names[unhx(a[1])]
            if a[4] == 'UNREADABLE':
                self.res[cid] = None
                continue
            cat, pat = a[2], a[3]
            if a[4] == 'PANIC':
                self.res[cid][(cat, pat)] = 'PANIC'
            else:
                self.res[cid][(cat, pat)] = [int(x) for x in a[5:]]
            self.cats.setdefault(cat, set()).add(pat)
        shutil.rmtree(d, ignore_errors=True)
        for k in list(self.cats):
            self.cats[k] = set(self.cats[k])

    def names(self, cat):
        return sorted(self.cats[cat])

    def pnum(self, cat, name):
        return self.names(cat).index(name)

    def good_for(self, content, cat, ps):
        r = self.res[self.cid[content]]
        return r is not None and all(r[(cat, p)] != 'PANIC' for p in ps)

    def lines(self, content, cat, p):
        r = self.res[self.cid[content]]
        return None if r is None else r[(cat, p)]

    def coq_table(self, cat, cids):
        rows = []
        names = self.names(cat)
        for cid in cids:
            r = self.res[cid]
            if r is None:
                continue
            cells = []
            for k, p in enumerate(names):
                v = r[(cat, p)]
                cells.append('(%d, %s)' % (k, 'None' if v == 'PANIC' else '(Some %s%%Z)' % coq_list(str(x) for x in v)))
            rows.append('("%s", %s)' % (cid, coq_list(cells)))
        return coq_list(rows)


# ----------------------------------------------------------------------------- trees
def F(name, data, cid_hint=None):
    return {'k': 'f', 'name': name, 'data': data}


def D(name, children):
    return {'k': 'd', 'name': name, 'ch': children}


def drop_dangling(t):
    """a tree in which every alias (second name for a sibling) still has its target: checks derive trees from trees by
    removing entries, and an alias whose target is gone would be a dangling link, i.e. an unreadable eligible file"""
    real = {}
    out = []
    for e in t:
        if not e.get('alias_of'):
            if e['k'] == 'd':
                e = dict(e, ch=drop_dangling(e['ch']))
            real[e['name']] = e
            out.append(e)
    for e in t:
        if e.get('alias_of') and e['alias_of'] in real:
            # the alias shows whatever its target holds NOW (a derived tree may have changed the target)
            out.append(dict(real[e['alias_of']], name=e['name'], alias_of=e['alias_of']))
    return out


def tree_files(t, prefix=()):
    for e in t:
        if e['k'] == 'f':
            yield prefix + (e['name'],), e
        else:
            yield from tree_files(e['ch'], prefix + (e['name'],))


def tree_entries(t):
    n = 0
    for e in t:
        n += 1
        if e['k'] == 'd':
            n += tree_entries(e['ch'])
    return n


def tree_depth(t):
    return 1 + max([tree_depth(e['ch']) for e in t if e['k'] == 'd'] + [0])


def tree_json(t):
    out = []
    for e in t:
        if e['k'] == 'f':
            try:
                out.append({'file': e['name'], 'text': e['data'].decode('utf-8')})
            except UnicodeDecodeError:
                out.append({'file': e['name'], 'hex': e['data'].hex()})
        else:
            out.append({'dir': e['name'], 'entries': tree_json(e['ch'])})
        if e.get('link'):
            out[-1]['symlink'] = True
        if e.get('alias_of'):
            out[-1]['alias_of'] = e['alias_of']
    return out


def tree_from_json(j):
    out = []
    for e in j:
        if 'file' in e:
            out.append(F(e['file'], e['text'].encode('utf-8') if 'text' in e else bytes.fromhex(e['hex'])))
        else:
            out.append(D(e['dir'], tree_from_json(e['entries'])))
        if e.get('symlink'):
            out[-1]['link'] = True
        if e.get('alias_of'):
            out[-1]['alias_of'] = e['alias_of']
    return out


def bpath(p):
    return p if isinstance(p, bytes) else p.encode('utf-8')


LINK_COUNTER = [0]


def materialize(t, root, rng=None, order=None, top=None):
    """create the tree under root; creation order inside each directory: the given list order
    (order='given'), or shuffled with rng.  An entry with e['link'] is created outside the analysed tree
    (under <top>.targets/) and a symbolic link to it is placed in the tree: the walker follows links, so
    the model sees it as an ordinary file / sub-directory."""
    root = bpath(root)
    if top is None:
        top = root
    os.makedirs(root)
    es = list(t)
    if rng is not None and order != 'given':
        rng.shuffle(es)
    for e in es:
        p = os.path.join(root, e['name'].encode('utf-8'))
        real = p
        if e.get('link'):
            LINK_COUNTER[0] += 1
            tdir = top + b'.targets'
            os.makedirs(tdir, exist_ok=True)
            real = os.path.join(tdir, b'%d' % LINK_COUNTER[0])
        if e.get('alias_of'):
            continue                    # created below, once its target exists
        if e['k'] == 'f':
            with open(real, 'wb') as f:
                f.write(e['data'])
        else:
            materialize(e['ch'], real, rng, order, top)
        if real != p:
            os.symlink(real, p)
    # a second name for an entry of the same directory (a relative symbolic link to a sibling): the walker sees the
    # file / sub-directory twice, and so does the model (the alias is an entry with the same contents)
    for e in es:
        if e.get('alias_of'):
            os.symlink(e['alias_of'].encode('utf-8'), os.path.join(root, e['name'].encode('utf-8')))


ELIG_NAMES = ['A.sol', 'b.sol', 'Token.sol', 'Vault.sol', 'lib.sol', '.sol', 't.sol', 'tsol.sol', 'a b.sol', 'Ünï.sol',
              'K.sol', 'ΑΣ.sol', 'x_t_sol.bak.sol', 'a.tsol.sol', 'a.t.so.sol', 'UP.SOL.sol', '合约.sol',
              'Deploy.s.sol', 'Upgrade.S.sol', 'x.s.sol.sol', 'a.test.sol', 'a.spec.sol', 'Mock.sol', 'a.script.sol', 'I.d.sol', 'T.sol', 'test.sol',
              'a.sol.sol', '..sol', 'a..sol', '-.sol', '~a.sol', '#a.sol', 'a.t..sol']
INERT_NAMES = ['README.md', 'a.t.sol', 'A.T.SOL', 'a.T.sol', 'a.t.Sol', 'x.sol.bak', 'bin.dat', 'sol', 'a.SOL', 'a.Sol', 'x.tsol',
               'my.t.solx', '测试.t.sol', 'İ.T.SOL', 'empty.txt', 'Makefile', '.t.sol', 'a.sol ', 'a.sol.', 'asol', '.gitignore',
               'Token.t.sol', 'TOKEN.T.sol', 'é.T.Sol']
UNDECIDED_NAMES = ['a.t.sol.sol', 'B.T.SOL.x.sol']
DIR_NAMES = ['src', 'lib', 'test', 'contracts', 'deep', 'x.sol', 'test.t.sol', 'ünï', 'a b', 'node_modules', '.hidden', 'T.SOL']


def random_tree(rng, pick_content, depth=1, max_depth=4, max_entries=10, p_inert=0.3, p_dir=0.25, p_undecided=0.03,
                budget=None):
    """pick_content(rng) -> bytes for an eligible file.  budget: [remaining entries] (shared)"""
    if budget is None:
        budget = [60]
    n = rng.randint(0 if depth > 1 else 1, max_entries)
    used = set()
    out = []
    for _ in range(n):
        if budget[0] <= 0:
            break
        budget[0] -= 1
        r = rng.random()
        if r < p_dir and depth < max_depth:
            name = rng.choice(DIR_NAMES)
            if name in used:
                name = '%s%d' % (name, rng.randint(0, 99))
            if name in used:
                continue
            used.add(name)
            out.append(D(name, random_tree(rng, pick_content, depth + 1, max_depth, max_entries, p_inert, p_dir * 0.8,
                                           p_undecided, budget)))
            if rng.random() < 0.12:
                out[-1]['link'] = True          # a symbolic link to a directory outside the tree
        elif r < p_dir + p_inert:
            name = rng.choice(INERT_NAMES)
            if name in used:
                continue
            used.add(name)
            out.append(F(name, rng.choice(GARBAGE + [UNREADABLE])))
        elif r < p_dir + p_inert + p_undecided:
            name = rng.choice(UNDECIDED_NAMES)
            if name in used:
                continue
            used.add(name)
            out.append(F(name, pick_content(rng)))
        else:
            name = rng.choice(ELIG_NAMES)
            if name in used:
                name = 'F%d.sol' % rng.randint(0, 30)
            if name in used:
                continue
            used.add(name)
            out.append(F(name, pick_content(rng)))
            if rng.random() < 0.06:
                out[-1]['link'] = True          # a symbolic link to a file outside the tree
    # now and then a second name for one of the entries (a relative link to a sibling)
    cands = [e for e in out if not e.get('link') and not e.get('alias_of') and
             (e['k'] == 'd' or (e['name'].endswith('.sol') and '.t.sol' not in e['name'].lower()))]
    if cands and rng.random() < 0.15:
        src = rng.choice(cands)
        nm = ('Alias%d.sol' if src['k'] == 'f' else 'alias%d') % rng.randint(0, 99)
        if nm not in used:
            used.add(nm)
            out.append(dict(src, name=nm, alias_of=src['name']))
    return out


# ----------------------------------------------------------------------------- running the implementation
class Run:
    """one call of analyze_dir: tree, category, pattern names (in order); filled by run_impl"""

    def __init__(self, tree, cat, ps, tag='', order=None):
        self.tree = drop_dangling(tree)
        self.cat = cat
        self.ps = list(ps)
        self.tag = tag
        self.order = order
        self.listing = None      # {relpath bytes: [(kind, name bytes)]}
        self.impl = None         # 'PANIC' | [(pattern name, [(file name bytes, [lines])])]
        self.codes = None
        self.stats = None
        self.extra = {}

    def describe(self):
        return {'tree': tree_json(self.tree), 'category': self.cat, 'patterns': self.ps, 'creation_order': self.order or 'shuffled'}


_counter = [0]


def parse_dir_output(lines):
    listing = {}
    impl = None
    cur = None
    status = None
    for l in lines:
        a = l.split(' ')
        if a[0] == 'ls':
            listing[unhx(a[1])] = [(x[0], unhx(x[1:])) for x in a[2:]]
        elif a[0] == 'result':
            status = a[1]
            if status == 'ok':
                impl = []
            elif status == 'PANIC':
                impl = 'PANIC'
            else:
                raise vlib.BuildError('directory listing changed during the run: ' + l)
        elif a[0] == 'key':
            cur = []
            impl.append((a[1], cur))
        elif a[0] == 'item':
            cur.append((unhx(a[1]), [int(x) for x in a[2:]]))
    if status is None:
        raise vlib.BuildError('vh_dir: no result line')
    return listing, impl


def run_impl(hz, runs, rng, keep=False):
    for r in runs:
        _counter[0] += 1
        # five root paths are used over and over (each tree is removed after its run): within one harness process the
        # same path names files of different contents, one run after the other - what is remembered per PATH from an
        # earlier analysis must not reach a later one.  Trees that are kept get a path of their own.
        root = os.path.join(FSROOT, ('k%d' % _counter[0]) if keep else ('r%d' % (_counter[0] % 5)))
        shutil.rmtree(root, ignore_errors=True)
        shutil.rmtree(root + '.targets', ignore_errors=True)
        materialize(r.tree, root, rng, r.order)
        line = 'dir %s %s %s' % (hx(root), r.cat, ','.join(r.ps) if r.ps else '-')
        try:
            out = hz.req(line)
            r.listing, r.impl = parse_dir_output(out)
        except vlib.BuildError as e:
            if 'died on request' not in str(e):
                raise
            # the process was killed while analysing this tree (stack overflow, abort): for the user of the library this is an
            # abort of the run like a panic.  The listing is obtained from a fresh process with an empty pattern list.
            hz.restart()
            r.extra['process_died'] = True
            out = hz.req('dir %s %s -' % (hx(root), r.cat))
            r.listing, _ = parse_dir_output(out)
            r.impl = 'PANIC'
        r.root = root
        if not keep:
            shutil.rmtree(root, ignore_errors=True)
            shutil.rmtree(root + '.targets', ignore_errors=True)


# ----------------------------------------------------------------------------- Coq terms
def content_term(oracle, data):
    cid = oracle.cid[data]
    if oracle.res[cid] is None:          # not valid UTF-8: read_to_string fails
        return 'None'
    return '(Some "%s")' % cid


def listing_term(r, oracle, rel=b''):
    """Coq `list entry` in the order read_dir listed the directory"""
    node = {tuple(p): e for p, e in tree_files(r.tree)}
    items = []
    for kind, name in r.listing[rel]:
        sub = (rel + b'/' + name) if rel else name
        if kind == 'd':
            items.append('EDir %s %s' % (coq_str(name), listing_term(r, oracle, sub)))
        else:
            key = tuple(x.decode('utf-8') for x in sub.split(b'/'))
            e = node[key]
            items.append('EFile %s %s' % (coq_str(name), content_term(oracle, e['data'])))
    return coq_list(items)


def impl_term(r, oracle):
    if r.impl == 'PANIC':
        return 'None'
    keys = []
    for pname, vec in r.impl:
        items = ['(%s, %s%%Z)' % (coq_str(f), coq_list(str(x) for x in ls)) for f, ls in vec]
        keys.append('(%d, %s)' % (oracle.pnum(r.cat, pname), coq_list(items)))
    return '(Some %s)' % coq_list(keys)


def ps_term(r, oracle):
    return coq_list(str(oracle.pnum(r.cat, p)) for p in r.ps)


def oracle_contents(runs):
    """every file content of the runs (inert ones too: whether a file is read is the model's business)"""
    cs = []
    for r in runs:
        for path, e in tree_files(r.tree):
            cs.append(e['data'])
    return cs


def coq_eval(oracle, items, tag):
    """items: list of (run-for-tables, [expr, ...]); returns list of lists of values.
    Each shard defines the oracle tables tbl_opt / tbl_vul / tbl_qa restricted to the contents it uses."""
    shards = []
    index = []
    for k in range(0, len(items), SHARD):
        chunk = items[k:k + SHARD]
        cids = {}
        for runs, exprs in chunk:
            for r in runs:
                for path, e in tree_files(r.tree):
                    c = oracle.cid.get(e['data'])
                    if c is not None:
                        cids.setdefault(c, True)
        lines = []
        for cat in sorted(oracle.cats):
            lines.append('Definition tbl_%s : oracle := %s.' % (cat, oracle.coq_table(cat, list(cids))))
        for runs, exprs in chunk:
            for e in exprs:
                lines.append(('eval', e))
        shards.append(lines)
        index.append([len(exprs) for runs, exprs in chunk])
    vals = vlib.coq_eval_plain(shards, IMPORTS, tag)
    out = []
    for sh, counts in zip(vals, index):
        pos = 0
        for n in counts:
            out.append(sh[pos:pos + n])
            pos += n
        if pos != len(sh):
            raise vlib.BuildError('unexpected number of values from a Coq shard')
    return out


def evaluate(hz, oracle, runs, rng, tag, stats=True):
    """run the implementation on every run, then model + specification in Coq.
    Fills r.codes (failed sub-checks of DirCases.check_dir) and r.stats."""
    oracle.ensure(oracle_contents(runs))
    run_impl(hz, runs, rng)
    items = []
    for r in runs:
        t = listing_term(r, oracle)
        r.coq_tree = t
        ex = ['check_dir tbl_%s %s %s %s' % (r.cat, t, ps_term(r, oracle), impl_term(r, oracle))]
        if stats:
            ex.append('stats_dir tbl_%s %s %s' % (r.cat, t, ps_term(r, oracle)))
        items.append(([r], ex))
    vals = coq_eval(oracle, items, tag)
    for r, v in zip(runs, vals):
        r.codes = list(v[0])
        r.stats = tuple(v[1]) if stats else None
    return runs


CODES = {90: 'the oracle table lacks an entry (check machinery)', 1: 'model Dir.analyze_dir differs from the implementation',
         12: 'the run aborted although every eligible file is readable and analyses without panic',
         13: 'a pattern key occurs twice in the result',
         11: 'the multiset of (pattern, file, line set) in the result is not the union of the per-file results',
         14: 'the vector of some pattern is not in discovery order', 15: 'an empty vector or empty line set is stored',
         20: 'removed files are not exactly the non-eligible ones (check machinery)',
         21: 'result changes when the inert files are removed', 23: 'result not identical although the listing order of the remaining entries is unchanged'}
SPEC_CODES = {11, 12, 13}


# ----------------------------------------------------------------------------- what the specification demands (for replay files; display only)
def expected_py(r, oracle):
    """(pattern, file, lines) triples the union demands, by the specification's reading of the names"""
    out = []
    for path, e in tree_files(r.tree):
        cls = spec_class(e['name'])
        if cls != 'eligible':
            continue
        for p in r.ps:
            ls = oracle.lines(e['data'], r.cat, p)
            if ls and ls != 'PANIC':
                out.append([p, '/'.join(path), ls])
    return out


def impl_json(r):
    if r.impl == 'PANIC':
        return 'PANIC'
    return [[p, [[f.decode('utf-8', 'replace'), ls] for f, ls in vec]] for p, vec in r.impl]


def listing_json(r):
    return {(k.decode('utf-8', 'replace') or '.'): [kind + ':' + n.decode('utf-8', 'replace') for kind, n in v]
            for k, v in r.listing.items()}


# ----------------------------------------------------------------------------- shrinking
def shrink_run(hz, oracle, r, rng, fails, tag, max_rounds=30):
    """greedy: delete one entry (file or directory with everything below) or one pattern while
    `fails(codes)` still holds"""
    cur = r

    def variants(t):
        for i, e in enumerate(t):
            yield t[:i] + t[i + 1:]
            if e['k'] == 'd':
                for v in variants(e['ch']):
                    yield t[:i] + [D(e['name'], v)] + t[i + 1:]
                # hoist: replace a directory's content by nothing is covered above
    for _ in range(max_rounds):
        cands = [Run(v, cur.cat, cur.ps, 'shrink', cur.order) for v in variants(cur.tree)]
        cands += [Run(cur.tree, cur.cat, cur.ps[:i] + cur.ps[i + 1:], 'shrink', cur.order) for i in range(len(cur.ps)) if len(cur.ps) > 1]
        cands = cands[:150]
        if not cands:
            break
        evaluate(hz, oracle, cands, rng, tag, stats=False)
        good = [c for c in cands if fails(c.codes)]
        if not good:
            break
        cur = min(good, key=lambda c: (tree_entries(c.tree), len(c.ps)))
    return cur
