"""C10 - packing suggestions are sound with respect to the storage-slot model.

Decided by: theorems type_size_table, slots_greedy_partition, pack_only_if, pack_not_if_optimal,
pack_if_both_sorts, pack_storage_exact, pack_struct_exact (props/C10.v) over the hand-written
models Utils.storage_slots_used / Utils.can_be_packed / Opt_pack.* + correspondence:
 (1) exhaustive, by digest: every sequence of length <= 4 (quick) / <= 5 (thorough) over the 32
     byte-granular sizes 8..256: storage_slots_used and the verdicts of BOTH detectors (run on a
     contract / struct whose members have types of those sizes, built by vh_digest) against the
     model, against the layout rule (SlotSpec.slots_spec) and against the three clauses of the
     property about the verdict (UtilCases.verdict_ok: all reorderings are tried);
     a block whose digests differ is re-run with explicit cases;
 (2) seeded random long sequences (up to 300 members; byte-granular sizes, arbitrary sizes
     1..256, and sizes around 256 / 2^16 for the overflow panics), explicit cases;
 (3) seeded random Solidity files with contracts / libraries / structs at file and contract
     level through `vharness prog`: the location sets of the two detectors against the model
     and against the property's clauses on every candidate contract / struct."""
import os, random, subprocess
from concurrent.futures import ThreadPoolExecutor
import vlib
from vlib import log, coq_nums, coq_pairs
from checks import common

IMPORTS = 'Res Utils SlotSpec UtilCases'
SIZES = [8 * k for k in range(1, 33)]
CODES = {1: 'model Utils.storage_slots_used differs from utils::storage_slots_used',
         2: 'slot count differs from the layout rule (consecutive members share a slot while they fit in 256 bits)',
         3: 'model verdict differs from pack_storage_variables',
         4: 'model verdict differs from pack_struct_variables',
         5: 'pack_storage_variables verdict violates the property (reported without a better reordering, or not reported although both sorts save a slot)',
         6: 'pack_struct_variables verdict violates the property (reported without a better reordering, or not reported although both sorts save a slot)'}
PCODES = {1: 'model Opt_pack.pack_storage_variables_optimization differs from the implementation',
          2: 'model Opt_pack.pack_struct_variables_optimization differs from the implementation',
          3: 'pack_storage_variables: a verdict violates the property, or a reported location is not a top-level contract',
          4: 'pack_struct_variables: a verdict violates the property, or a reported location is not a struct definition',
          5: 'analyze_for_optimization(pack_storage_variables) does not report the lines on which the contracts with the verdict "can be packed" begin',
          6: 'analyze_for_optimization(pack_struct_variables) does not report the lines on which the structs with the verdict "can be packed" begin'}
SPEC_CODES = {2, 5, 6}


def digest_bin(ctx):
    return vlib.need_bin('vh_digest')


def run_bin(args, inp=None):
    p = subprocess.run(args, input=inp, stdout=subprocess.PIPE, text=True, timeout=7200)
    if p.returncode != 0:
        raise vlib.BuildError('%s failed' % ' '.join(args[:3]))
    return p.stdout


def impl_digests(ctx, length, blocks):
    """blocks: list of prefixes given as tuples of size indices (1 or 2 elements)"""
    chunks = [blocks[k::vlib.NPROC] for k in range(vlib.NPROC)]
    chunks = [c for c in chunks if c]

    def one(chunk):
        out = {}
        if len(chunk[0]) == 1:
            for (i,) in chunk:
                for line in run_bin([digest_bin(ctx), 'slots', str(length), str(i), str(i + 1)]).split('\n'):
                    w = line.split()
                    if w and w[0] == 'slots':
                        out[(int(w[1]),)] = tuple(int(x) for x in w[2:])
        else:
            txt = run_bin([digest_bin(ctx), 'slots2', str(length)] + ['%d:%d' % b for b in chunk])
            for line in txt.split('\n'):
                w = line.split()
                if w and w[0] == 'slots2':
                    out[(int(w[1]), int(w[2]))] = tuple(int(x) for x in w[3:])
        return out
    res = {}
    with ThreadPoolExecutor(vlib.NPROC) as ex:
        for o in ex.map(one, chunks):
            res.update(o)
    return res          # prefix -> (n, d_slots, d_bit, n_reported)


def model_digests(length, blocks, tag):
    nsh = min(vlib.NPROC, len(blocks))
    shards = []
    for k in range(nsh):
        shards.append([('eval', 'slot_block %s %d' % (coq_nums([SIZES[i] for i in b]), length - len(b)))
                       for b in blocks[k::nsh]])
    vals = vlib.coq_eval_plain(shards, IMPORTS, tag)
    res = {}
    for k, sh in enumerate(vals):
        for b, v in zip(blocks[k::nsh], sh):
            res[b] = tuple(v)   # (n, d_model, d_spec, d_bit, n_reported, n_clause_violations)
    return res


def explicit_seqs(ctx, seqs, tag):
    """seqs: list of lists of sizes -> list of (seq, impl_triple, failed codes)"""
    txt = run_bin([digest_bin(ctx), 'seqs'], inp=''.join(' '.join(map(str, s)) + '\n' for s in seqs))
    lines = txt.split('\n')[:len(seqs)]
    if len(lines) != len(seqs):
        raise vlib.BuildError('vh_digest seqs: wrong number of answers')
    impl = []
    for line in lines:
        a, c, t = line.split()
        impl.append((0 if a == 'PANIC' else int(a) + 1, 0 if c == 'PANIC' else int(c) + 1, 0 if t == 'PANIC' else int(t) + 1))
    nsh = max(1, min(vlib.NPROC, (len(seqs) + 199) // 200))
    shards = [[] for _ in range(nsh)]
    for i, (s, im) in enumerate(zip(seqs, impl)):
        shards[i % nsh].append(('eval', 'check_slots %s (%d, %d, %d)' % ((coq_nums(s),) + im)))
    vals = vlib.coq_eval_plain(shards, IMPORTS, tag)
    out = []
    for i, (s, im) in enumerate(zip(seqs, impl)):
        codes = list(vals[i % nsh][i // nsh])
        # a panic on sizes the property quantifies over (1..256 bits, any length) is not the slot count of the layout rule
        if im[0] == 0 and s and all(0 < x <= 256 for x in s) and 2 not in codes:
            codes.append(2)
        out.append((s, im, codes))
    return out


def show_impl(im):
    f = lambda x, names: 'PANIC' if x == 0 else names(x)
    return {'storage_slots_used': f(im[0], lambda x: x - 1),
            'pack_storage_variables': f(im[1], lambda x: ['not reported', 'reported'][x - 1]),
            'pack_struct_variables': f(im[2], lambda x: ['not reported', 'reported'][x - 1])}


def layout_slots(s):
    n, used = 0, None
    for x in s:
        if used is None or used + x > 256:
            n, used = n + 1, x
        else:
            used += x
    return n


def report_seq_failures(rep, fails, where):
    """fails: list of (seq, impl, codes); one violation for the specification, else one for the model"""
    spec = [f for f in fails if SPEC_CODES & set(f[2])]
    pick = spec or fails
    pick.sort(key=lambda f: (len(f[0]), f[0]))
    s, im, codes = pick[0]
    is_spec = bool(spec)
    rep.violation('%s: member sizes %r: %s' % (where, s, '; '.join(CODES[c] for c in codes)),
                  {'kind': 'S' if is_spec else 'M', 'input': {'sizes': s}, 'implementation': show_impl(im),
                   'slots_by_layout_rule': layout_slots(s) if all(0 < x <= 256 for x in s) else None,
                   'failed_subchecks': codes, 'n_failing_sequences': len(fails),
                   'more_failing_sequences': [{'sizes': f[0], 'implementation': show_impl(f[1]), 'failed': f[2]} for f in pick[1:6]],
                   'theorem': 'slots_greedy_partition / pack_only_if / pack_if_both_sorts',
                   'model_function': 'Utils.storage_slots_used, Utils.can_be_packed',
                   'rust_function': 'utils::storage_slots_used, pack_storage_variables_optimization, pack_struct_variables_optimization'},
                  no_input=not is_spec)
    return is_spec


def block_seqs(prefix, length):
    def rec(n):
        if n == 0:
            yield []
            return
        for c in SIZES:
            for t in rec(n - 1):
                yield [c] + t
    return [[SIZES[i] for i in prefix] + t for t in rec(length - len(prefix))]


def exhaustive(rep, ctx, length, blocks, tag):
    impl = impl_digests(ctx, length, blocks)
    model = model_digests(length, blocks, tag)
    bad = []
    n = rep_n = 0
    for b in blocks:
        i, m = impl[b], model[b]
        if i[0] != m[0]:
            raise vlib.BuildError('enumerations of vh_digest and UtilCases.slot_block differ in block %r' % (b,))
        n += i[0]
        rep_n += i[3]
        if i[1] != m[1] or i[1] != m[2] or i[2] != m[3] or m[5] != 0:
            bad.append(b)
    found = False
    if bad:
        fails = []
        for b in bad[:2]:
            seqs = block_seqs(b, length)
            fails += [f for f in explicit_seqs(ctx, seqs, tag + '-block') if f[2]]
        if fails:
            found = report_seq_failures(rep, fails, 'exhaustive enumeration, length %d (%d of %d blocks differ)' % (length, len(bad), len(blocks)))
        else:
            rep.violation('digests differ in blocks %r of length %d but the explicit re-run agrees' % (bad[:5], length),
                          {'kind': 'M', 'blocks': [list(b) for b in bad], 'model_function': 'UtilCases.slot_block',
                           'rust_function': 'vh_digest slots'}, no_input=True)
    return n, rep_n, len(bad), found


# ------------------------------------------------------------------ type sizes
def statement_size(name):
    """the table in the statement of C10: bool=8, address=160, (u)intN=N, bytesN=8N, 256 otherwise"""
    import re
    if name == 'bool':
        return 8
    if name in ('address', 'address_payable'):
        return 160
    m = re.fullmatch(r'u?int(\d+)', name)
    if m:
        return int(m.group(1))
    m = re.fullmatch(r'bytes(\d+)', name)
    if m:
        return 8 * int(m.group(1))
    return 256


def type_table(rep, ctx):
    """get_type_size on 798 type expressions: implementation vs model (Coq) vs the statement's table"""
    lines = [l.split() for l in run_bin([digest_bin(ctx), 'types']).split('\n') if l]
    vals = vlib.coq_eval_plain([[('eval', 'type_size_answers')]], 'Lift Pt Walk Cases Utils Opt_pack PackCases', 'c10-types')[0][0]
    if len(vals) != len(lines):
        raise vlib.BuildError('type lists of vh_digest and PackCases.type_cases differ in length')
    found = False
    bad_s = [(n, v) for (n, v) in lines if v == 'PANIC' or int(v) != statement_size(n)]
    bad_m = [(n, v, m) for (n, v), m in zip(lines, vals) if v == 'PANIC' or int(v) != m]
    if bad_s:
        n, v = bad_s[0]
        rep.violation('get_type_size(%s) = %s, the statement says %d' % (n, v, statement_size(n)),
                      {'kind': 'S', 'input': {'type': n}, 'implementation': v, 'specified': statement_size(n),
                       'all_wrong': bad_s[:20], 'theorem': 'type_size_table', 'rust_function': 'utils::get_type_size'})
        found = True
    elif bad_m:
        n, v, m = bad_m[0]
        rep.violation('get_type_size(%s) = %s, model %d' % (n, v, m),
                      {'kind': 'M', 'input': {'type': n}, 'implementation': v, 'model': m, 'model_function': 'Opt_pack.get_type_size',
                       'rust_function': 'utils::get_type_size'}, no_input=True)
    return len(lines), found


# ------------------------------------------------------------------ random long sequences
def random_seqs(ctx, n):
    rng = random.Random(ctx.seed * 1000003 + 10)
    out = []
    kinds = {'byte_granular': 0, 'any_1_256': 0, 'small_mix': 0, 'boundary_and_overflow': 0, 'long_one_per_slot': 0}
    for k in range(n):
        ln = rng.choice([0, 1, 2, 3, 5, 6, 7, 8, 13, 21, 34, 55, 100, 200, 300])
        r = rng.random()
        if k % 40 == 7:
            # more than 256 slots: every member fills (most of) a slot of its own
            s = [rng.choice([256, 256, 248, 160, 136]) for _ in range(rng.choice([255, 256, 257, 300, 520, 700]))] + \
                [rng.choice([8, 256, 8]) for _ in range(rng.choice([0, 3]))]
            kinds['long_one_per_slot'] += 1
        elif r < 0.35:
            s = [rng.choice(SIZES) for _ in range(ln)]
            kinds['byte_granular'] += 1
        elif r < 0.6:
            s = [rng.randrange(1, 257) for _ in range(ln)]
            kinds['any_1_256'] += 1
        elif r < 0.85:
            s = [rng.choice([8, 8, 16, 32, 64, 128, 160, 256, 248, 96]) for _ in range(ln)]
            kinds['small_mix'] += 1
        else:
            s = [rng.choice([0, 1, 127, 128, 129, 255, 256, 257, 511, 512, 65279, 65280, 65281, 65534, 65535, 8, 256])
                 for _ in range(min(ln, 30))]
            kinds['boundary_and_overflow'] += 1
        out.append(s)
    return out, kinds


# ------------------------------------------------------------------ random programs
ELEM = (['bool', 'address', 'address payable', 'uint', 'int', 'string', 'bytes'] +
        ['uint%d' % (8 * k) for k in range(1, 33)] + ['int%d' % (8 * k) for k in range(1, 33)] +
        ['bytes%d' % k for k in range(1, 33)])
COMMON = ['bool', 'address', 'uint8', 'uint16', 'uint32', 'uint64', 'uint128', 'uint256', 'bytes32', 'bytes16', 'bytes4',
          'int24', 'uint96', 'uint160', 'bytes20', 'bytes31', 'uint248', 'bytes1', 'uint', 'string']
OTHER = ['mapping(address => uint256)', 'uint256[]', 'uint8[4]', 'T', 'function (uint256) external returns (bool)',
         'mapping(uint8 => mapping(address => bool))', 'bytes', 'address[]']


def rtype(rng, in_struct=False):
    r = rng.random()
    if r < 0.6:
        return rng.choice(COMMON)
    if r < 0.9:
        return rng.choice(ELEM)
    t = rng.choice(OTHER)
    return t


def gen_struct(rng, name, indent):
    n = rng.choice([1, 2, 3, 3, 4, 5, 6, 8])
    body = ''.join('%s    %s f%d;\n' % (indent, rtype(rng, True), i) for i in range(n))
    return '%sstruct %s {\n%s%s}\n' % (indent, name, body, indent)


def gen_contract(rng, name, uid):
    kind = rng.choice(['contract', 'contract', 'contract', 'abstract contract', 'library'])
    parts = []
    nv = rng.choice([0, 1, 2, 3, 4, 5, 6, 8, 12])
    for i in range(nv):
        t = rtype(rng)
        attr = rng.choice(['', '', ' public', ' private', ' internal', ' constant', ' immutable', ' public constant'])
        init = ''
        if 'constant' in attr:
            t = rng.choice(['uint256', 'uint8', 'bool', 'uint128', 'bytes32', 'address'])
            init = ' = %s' % {'bool': 'true', 'address': 'address(0)', 'bytes32': 'bytes32(0)'}.get(t, '1')
        elif 'immutable' in attr and (t in OTHER or t in ('string', 'bytes')):
            attr = ''
        parts.append('    %s%s v%d%s;\n' % (t, attr, i, init))
    for j in range(rng.choice([0, 0, 1, 2])):
        # half of the nested structs share their name with structs of the other contracts of the file
        parts.append(gen_struct(rng, ('S%d_%d' % (uid, j)) if rng.random() < 0.5 else 'Shared%d' % j, '    '))
    for j in range(rng.choice([0, 1, 2])):
        parts.append(rng.choice([
            '    function g%d(uint256 a) public pure returns (uint256) { uint8 l = 1; return a + l; }\n' % j,
            '    event Ev%d(address indexed who, uint8 small);\n' % j,
            '    enum En%d { A, B }\n' % j,
            '    // é comment with multi-byte characters: 漢字\n',
            '    error Er%d(uint8 code);\n' % j,
            '    constructor() {}\n' if kind != 'library' and j == 0 else '    uint8 tail%d;\n' % j]))
    rng.shuffle(parts)
    base = ''
    if uid > 0 and kind != 'library' and rng.random() < 0.35:
        base = ' is ' + ', '.join(rng.sample(['C%d' % b for b in range(uid)], rng.randint(1, min(2, uid))))
    return '%s %s%s {\n%s}\n' % (kind, name, base, ''.join(parts))


def gen_program(rng, k):
    items = ['pragma solidity ^0.8.%d;\n' % rng.randrange(0, 20)]
    items.append('type T is uint64;\n' if rng.random() < 0.5 else 'struct T { uint8 a; }\n')
    body = []
    for j in range(rng.choice([0, 0, 1, 2])):
        body.append(gen_struct(rng, 'F%d' % j, ''))
    for j in range(rng.choice([1, 1, 2, 3])):
        body.append(gen_contract(rng, 'C%d' % j, j))
    if rng.random() < 0.2:
        body.append('function freeFn(uint8 a) pure returns (uint8) { return a; }\n')
    if rng.random() < 0.2:
        body.append('uint8 constant FILE_LEVEL = 1;\n')
    rng.shuffle(body)
    sep = rng.choice(['\n', '\r\n', '\n\n'])
    return {'gen': 'c10-random:%d' % k, 'src': sep.join(items + body)}


FIXED_PROGRAMS = [
    # the shapes of /repo's own tests, plus boundary shapes
    'contract A { uint256 a; uint256 b; uint256 c; bool d; bool e; }',
    'contract A { bytes24 b0; uint256 n; bytes24 b1; }',
    'contract A { bytes28 b0; uint8 n0; uint8 n1; uint8 n2; bool bo0; bool bo1; }',
    'contract A { bool a; uint256 b; bool c; }',
    'contract A { uint128 a; uint256 b; uint128 c; }',
    'contract A { address a; uint256 b; bool c; }',
    'struct E { bool a; bytes32 s; bytes16 i; }\ncontract R { struct X { bool a; address f; bytes16 i; } struct Y { bool a; bytes32 s; bytes16 i; } }',
    'struct E { uint256 p; uint128 a; uint128 b; }',
    'library L { struct Z { uint8 a; uint256 b; uint8 c; } }',
    'interface I { struct Z { uint8 a; uint256 b; uint8 c; } function f() external; }',
    'abstract contract B { uint8 a; mapping(uint => uint) m; uint8 c; }',
    'contract A { uint8 a; string s; uint8 c; uint8[] arr; uint8 d; }',
    'contract A { uint8 constant a = 1; uint256 b; uint8 immutable c; constructor() { c = 1; } }',
    'contract A { } contract B { uint8 x; } struct S { uint8 only; }',
    'contract A { function f() public { uint8 a; uint256 b; uint8 c; } }',
    'contract A { uint8 a; uint256 b; uint8 c; } contract B { uint8 a; uint8 c; uint256 b; }',
    'contract A { address payable a; uint96 b; uint256 c; bytes12 d; address e; }',
    'contract A { uint248 a; uint8 b; uint8 c; uint248 d; }',
    'contract A { bytes31 a; bytes1 b; bytes1 c; bytes31 d; }',
    # several declarations with the same name but different member orders (a verdict must not be remembered by name)
    'contract A { struct Order { uint128 a; uint256 b; uint128 c; } }\ncontract B { struct Order { uint128 a; uint128 c; uint256 b; } }\n'
    'contract C { struct Order { uint128 a; uint256 b; uint128 c; } }\nstruct Order { uint256 b; uint128 a; uint128 c; }',
    'contract B { struct Order { uint128 a; uint128 c; uint256 b; } }\ncontract A { struct Order { uint128 a; uint256 b; uint128 c; } }',
    'contract Same { uint128 a; uint256 b; uint128 c; }\nlibrary Same { struct Same { uint128 a; uint128 c; uint256 b; } }\nabstract contract Same { uint128 a; uint128 c; uint256 b; }',
    # small contracts before a packable one / before an optimal one (state must not leak from one contract to the next)
    'contract Pausable { bool paused; }\ncontract Pool { uint128 a; uint256 b; uint128 c; }\ncontract Guarded { uint256 g1; bool g2; }\ncontract Registry { uint256 r1; address r2; bool r3; }',
    'interface I { struct S { uint128 a; uint256 b; uint128 c; } struct T2 { uint128 a; uint128 c; uint256 b; } }',
    # inheritance: the members of a base are not members of the derived contract's own declaration list
    'contract Base { uint128 a; uint256 b; }\ncontract Derived is Base { uint128 c; }\ncontract Owned { address owner; }\ncontract Vault is Owned, Base { uint256 total; uint64 t; bool open; }',
    'contract Derived is Base { uint128 c; uint256 d; }\ncontract Base { uint128 a; }\nabstract contract Mid is Base { uint128 e; uint256 f; uint128 g; }\ncontract Leaf is Mid(1) { uint8 h; }',
    'interface IB { }\ncontract Base { uint8 a; uint256 b; uint8 c; }\ncontract D1 is Base, IB { uint256 x; uint8 y; }\ncontract D2 is Base { uint8 y; }',
    # narrow fields whose widths do not tile a slot: no order beats the declared one although the bits would fit in fewer slots
    'struct Five96 { uint96 a; uint96 b; uint96 c; uint96 d; uint96 e; }\nstruct Five88 { uint88 a; uint88 b; uint88 c; uint88 d; uint88 e; }\n'
    'contract N { struct Mix { bytes12 a; uint96 b; int96 c; bytes12 d; uint96 e; uint96 f; uint96 g; } uint96 a; uint96 b; uint96 c; uint96 d; uint96 e; }',
    'struct S104 { uint104 a; uint104 b; uint104 c; uint104 d; uint104 e; uint104 f; uint104 g; }\ncontract T { uint120 a; uint120 b; uint120 c; uint72 d; uint72 e; uint72 f; uint72 g; }',
]


def programs(ctx, n):
    rng = random.Random(ctx.seed * 1000003 + 11)
    progs = [{'gen': 'c10-fixed:%d' % i, 'src': s} for i, s in enumerate(FIXED_PROGRAMS)]
    progs += [gen_program(rng, k) for k in range(n)]
    import gen_programs as gp
    progs += gp.special_programs()
    return progs


def opt_pairs(x):
    return 'None' if x == 'PANIC' or x is None else '(Some %s)' % coq_pairs(x)


def eval_programs(ctx, progs, name):
    ps = vlib.ProgSet(progs, name).ensure(ctx.harness)
    impl = ps.run_impl(ctx.harness)
    exprs = []
    for p, r in zip(ps.progs, impl):
        ic = r['det'].get('pack_storage_variables')
        it = r['det'].get('pack_struct_variables')
        exprs.append(['check_pack p%d %s %s' % (p['j'], opt_pairs(ic), opt_pairs(it)), 'stats_pack p%d' % p['j']])
    vals = ps.coq_eval(exprs, 'Lift Pt Walk Cases Utils Opt_pack PackCases', 'c10')
    out = []
    for p, r, v in zip(ps.progs, impl, vals):
        codes = list(v[0])
        # what the user of analyze_for_optimization sees: the lines on which the reported declarations begin (the detector
        # results above are obtained from the tree; the entry point parses the text itself and looks the lines up)
        b = p['src'].encode('utf-8')
        for k, n in ((5, 'pack_storage_variables'), (6, 'pack_struct_variables')):
            d, ls = r['det'].get(n), r['lines'].get(n)
            if d in (None, 'PANIC') or ls is None or r.get('hang') is not None:
                continue
            want = sorted(set(1 + b[:st].count(b'\n') for st, en in d))
            if ls == 'PANIC' or ls != want:
                codes.append(k)
        out.append((p, r, codes, v[1]))
    return ps, out


# ------------------------------------------------------------------ run
def run(rep, ctx):
    found = False
    quick = ctx.tier == 'quick'
    # (0) the size table
    n_types, f = type_table(rep, ctx)
    found = found or f
    log('type sizes: %d type expressions' % n_types)
    # (1) exhaustive by digest
    ex = {}
    for length in ([1, 2, 3, 4] if quick else [1, 2, 3, 4, 5]):
        blocks = [(i,) for i in range(32)] if length < 5 else [(i, j) for i in range(32) for j in range(32)]
        n, nrep, nbad, f = exhaustive(rep, ctx, length, blocks, 'c10-len%d' % length)
        ex[length] = {'sequences': n, 'reported_by_pack_storage_variables': nrep, 'blocks': len(blocks), 'blocks_differing': nbad}
        found = found or f
        log('exhaustive length %d: %d sequences, %d reported, %d differing blocks' % (length, n, nrep, nbad))
    # the empty sequence
    e0 = explicit_seqs(ctx, [[]], 'c10-empty')
    n_ex = sum(v['sequences'] for v in ex.values()) + 1
    # (2) random long sequences
    seqs, kinds = random_seqs(ctx, 3000 if quick else 30000)
    rs = explicit_seqs(ctx, seqs, 'c10-random')
    fails = [f for f in e0 + rs if f[2]]
    log('random sequences: %d, failing %d' % (len(rs), len(fails)))
    if fails:
        f = report_seq_failures(rep, fails, 'random sequences')
        found = found or f
    # (3) programs
    progs = programs(ctx, 300 if quick else 1500)
    ps, out = eval_programs(ctx, progs, 'c10-%s-%d' % (ctx.tier, ctx.seed))
    pf = [(p, r, c) for p, r, c, s in out if c]
    tot = [sum(s[k] for p, r, c, s in out) for k in range(6)]
    log('programs: %d parsed (%d rejected), failing %d; contracts %d (>=2 members %d, reported %d), structs %d (>=2: %d, reported %d)'
        % ((len(out), ps.rejected, len(pf)) + tuple(tot)))
    if pf:
        p, r, c = pf[0]

        def still(cands):
            _, o = eval_programs(ctx, [{'gen': 'shrink', 'src': x} for x in cands], 'c10-shrink')
            m = {pp['src']: cc for pp, rr, cc, ss in o}
            return [bool(m.get(x)) for x in cands]
        small = common.shrink(p['src'], still)
        _, o = eval_programs(ctx, [{'gen': 'min', 'src': small}], 'c10-shrink')
        pp, rr, cc, ss = o[0]
        is_spec = bool({3, 4, 5, 6} & set(cc))
        rep.violation('; '.join(PCODES[x] for x in cc),
                      {'kind': 'S' if is_spec else 'M', 'input': {'program': small}, 'original_gen': p['gen'], 'failed_subchecks': cc,
                       'impl_pack_storage_variables': rr['det'].get('pack_storage_variables'),
                       'impl_pack_struct_variables': rr['det'].get('pack_struct_variables'),
                       'n_failing_programs': len(pf), 'theorem': 'pack_storage_exact / pack_struct_exact',
                       'model_function': 'Opt_pack.pack_storage_variables_optimization / pack_struct_variables_optimization',
                       'rust_function': 'pack_storage_variables_optimization / pack_struct_variables_optimization'},
                      no_input=not is_spec)
        found = found or is_spec
    nontrivial_seq = sum(1 for s in seqs if len(s) >= 2 and all(0 < x <= 256 for x in s))
    rep.coverage['evaluations'] = n_types + n_ex + len(rs) + len(out)
    rep.coverage['type_expressions'] = n_types
    rep.coverage['distinct_nontrivial'] = (sum(v['sequences'] for l, v in ex.items() if l >= 2) + nontrivial_seq +
                                           len(set(p['src'] for p, r, c, s in out if s[1] + s[4] > 0)))
    rep.coverage['rule'] = ('inputs: (0) get_type_size on 798 type expressions (all uintN/intN for N <= 264 and 65535, all bytesN for N <= 255, '
                            'bool, address, address payable, the types without a size, a non-type expression) against the model and the table in '
                            'the statement; (a) every sequence of length <= %d over the 32 byte-granular sizes 8..256 (by digest, %s blocks: '
                            'implementation slot count and the verdicts of both detectors = model; slot count = layout rule; every verdict '
                            'satisfies the three clauses, all reorderings tried); (b) seeded random sequences up to 300 members incl. sizes '
                            'no type has and u16-overflow panics; (c) seeded random Solidity files + the shapes of /repo\'s own tests. '
                            'non-trivial = a sequence of >= 2 in-range sizes, or a file with a contract / struct of >= 2 sized members'
                            ) % (4 if quick else 5, 'first-element' if quick else 'first-element / first-two-element')
    rep.coverage['exhaustive'] = ex
    rep.coverage['random_sequences'] = dict(kinds, total=len(seqs), in_domain_len_ge_2=nontrivial_seq,
                                            implementation_panics=sum(1 for s, im, c in rs if im[0] == 0))
    rep.coverage['programs'] = {'parsed': len(out), 'rejected_by_parser': ps.rejected, 'contracts': tot[0],
                                'contracts_ge_2_members': tot[1], 'contracts_reported': tot[2], 'structs': tot[3],
                                'structs_ge_2_members': tot[4], 'structs_reported': tot[5]}
    n_fail = len(fails) + len(pf)
    rep.coverage['traces_validated_against_impl'] = (n_ex if not any(v['blocks_differing'] for v in ex.values()) else 0) + len(rs) + len(out) - n_fail
    rep.coverage['samples'] = ([{'sizes': s[:12], 'implementation': show_impl(im)} for s, im, c in rs[:: max(1, len(rs) // 3)][:3]] +
                               [{'program': p['src'][:300], 'pack_storage_variables': r['det'].get('pack_storage_variables'),
                                 'pack_struct_variables': r['det'].get('pack_struct_variables')} for p, r, c, s in out[20:22]])
    rep.assumptions = ['Vec<u16>::sort is modelled by a merge sort; the theorems use only that the result is a sorted permutation',
                       'member sizes satisfy 0 < s <= 256 (type_size_in_range: true for every type the lexer can produce: uintN/intN with N <= 256, bytesN with N <= 32); outside it the model panics exactly where the debug build does',
                       'fewer than 2^32 members (u32 slot counter)',
                       'HashSet<Loc> results are compared as sets; constants and immutables are counted as slot members by the code (DESIGN section 9: not a defect under the statement)']
    common.finish_proof_status(rep, ctx, found)


def replay(obj):
    ctx = common.Ctx()
    ctx.tier = 'quick'
    ctx.seed = 1
    ctx.harness = vlib.build_harness()
    inp = obj['input']
    if 'type' in inp:
        rep = vlib.Report('C10', 'quick', 1)
        n, f = type_table(rep, ctx)
        print('type table re-checked on %d type expressions:' % n, 'FAILS' if rep.violations else 'agrees')
        return 1 if rep.violations else 0
    if 'sizes' in inp:
        s, im, codes = explicit_seqs(ctx, [inp['sizes']], 'c10-replay')[0]
        print('member sizes:', s)
        print('implementation:', show_impl(im))
        if all(0 < x <= 256 for x in s):
            print('slots by the layout rule:', layout_slots(s))
        print('failed:', [CODES[c] for c in codes] or 'nothing')
        return 1 if codes else 0
    _, o = eval_programs(ctx, [{'gen': 'replay', 'src': inp['program']}], 'c10-replay')
    bad = 0
    for p, r, c, s in o:
        print('program:\n' + p['src'])
        print('implementation pack_storage_variables:', r['det'].get('pack_storage_variables'))
        print('implementation pack_struct_variables :', r['det'].get('pack_struct_variables'))
        print('failed:', [PCODES[x] for x in c] or 'nothing')
        bad += bool(c)
    return 1 if bad else 0
