"""Steps shared by all property checks."""
import os, re, random, json
import vlib
from vlib import log
import gen_programs as gp


class Ctx:
    pass


def prepare(rep):
    """harness build, translators, Coq build, source audit, props/<id>.v with Print Assumptions.
    Returns a context, or None when a violation was already reported and nothing more can run."""
    ctx = Ctx()
    ctx.tier = rep.tier
    ctx.seed = rep.seed
    ctx.rng = random.Random(rep.seed)
    ctx.harness = vlib.build_harness()
    log('harness built')
    ctx.gen_changed = vlib.regen()
    ok, out = vlib.build_coq()
    ctx.coq_ok = ok
    ctx.coq_log = out
    log('coq build', 'ok' if ok else 'FAILED')
    bad = vlib.audit_sources(rep.prop)
    pr = vlib.check_props(rep.prop)
    ctx.props = pr
    rep.coverage['obligations'] = max(pr['obligations'], 1)
    rep.coverage['discharged'] = pr['discharged'] if not bad else 0
    rep.coverage['theorems'] = pr['theorems']
    rep.coverage['axioms_reported_by_Print_Assumptions'] = pr['axioms']
    rep.coverage['checker_cmd'] = ('make -C coq (full .vo build) && coqc props/%s.v (Print Assumptions under every theorem)'
                                   % rep.prop)
    rep.coverage['trusted_base'] = list(vlib.TRUSTED_BASE)
    ctx.proof_broken = None
    import pin_statements
    pins = pin_statements.differences(rep.prop)
    rep.coverage['pinned_statements_unchanged'] = not pins
    ctx.coqchk = None
    if rep.tier == 'thorough' and pr['ok'] and not bad:
        # independent re-check of the compiled property file and everything it depends on
        ctx.coqchk = vlib.run_coqchk(rep.prop)
        rep.coverage['coqchk'] = ctx.coqchk
        rep.coverage['checker_cmd'] += ' && coqchk -o -silent Solstat.%s' % rep.prop
    # regenerated tables that could not be re-read from the current source
    gen_broken = []
    if vlib.GEN_ERRORS:
        deps = set()
        for f in pr.get('files', []):
            deps |= vlib.module_deps(os.path.basename(f)[:-2])
        gen_broken = ['%s (%s)' % (g, vlib.GEN_ERRORS[g]) for g in sorted(vlib.GEN_ERRORS) if g[:-2] in deps]
    rep.coverage['regenerated_tables_unreadable'] = gen_broken
    if gen_broken:
        ctx.proof_broken = ('the translator cannot read the current source, so the obligations over the regenerated table are not '
                            're-established: ' + '; '.join(gen_broken)[:800])
        rep.coverage['discharged'] = 0
    elif pins:
        ctx.proof_broken = 'pinned statement changed (tools/pin_statements.py): ' + '; '.join(pins[:5])
        rep.coverage['discharged'] = 0
    elif ctx.coqchk is not None and not ctx.coqchk['ok']:
        ctx.proof_broken = 'coqchk does not accept props/%s.vo: %s' % (rep.prop, ctx.coqchk['summary'][:600])
        rep.coverage['discharged'] = 0
    elif bad:
        ctx.proof_broken = 'forbidden construct in the development: ' + '; '.join(bad[:5])
    elif not pr['ok']:
        ctx.proof_broken = 'props/%s.v does not check (rc=%s, unprinted=%s, axioms=%s)' % (
            rep.prop, pr.get('rc'), pr.get('unprinted'), pr['axioms'])
    return ctx


def finish_proof_status(rep, ctx, found_input):
    """P signal: a proof obligation no longer checks.  If no concrete failing input was
    found by the searches of this check, report it with no-failing-input-found."""
    if ctx.proof_broken and not found_input:
        rep.violation('proof obligation broken: ' + ctx.proof_broken,
                      {'kind': 'proof', 'theorem_file': 'coq/props/%s.v' % rep.prop, 'detail': ctx.proof_broken,
                       'log': (ctx.props.get('log') or ctx.coq_log)[-3000:]}, no_input=True)


def standard_programs(ctx, n_random, n_per_carrier=2, full=False, streams=('corpus', 'slots', 'product', 'random', 'ood', 'special')):
    rng = random.Random(ctx.seed * 7919 + 13)
    progs = []
    if 'corpus' in streams:
        progs += gp.corpus()
    if 'slots' in streams:
        progs += gp.slots()
    if 'product' in streams:
        progs += gp.product(rng, n_per_carrier, full=full)
    if 'random' in streams:
        progs += gp.random_programs(rng, n_random)
    if 'ood' in streams:
        progs += gp.out_of_domain(rng)
    if 'special' in streams:
        progs += gp.special_programs()
    return progs


def shrink(src, still_fails, max_rounds=8, budget_s=120):
    """greedy line/segment deletion while the failure persists, within a time budget (a violation must be
    reported in bounded time: when the budget is used up the smallest failing input found so far is returned).
    still_fails(list_of_sources) -> list of bool (batch evaluation)"""
    import time
    t_end = time.time() + budget_s
    cur = src
    for _ in range(max_rounds):
        if time.time() > t_end:
            break
        lines = cur.split('\n')
        cands = []
        for i in range(len(lines)):
            c = '\n'.join(lines[:i] + lines[i + 1:])
            if c != cur:
                cands.append(c)
        # also try removing each balanced {...} body content and each ';'-terminated statement
        for m in re.finditer(r';', cur):
            j = m.start()
            k = max(cur.rfind(';', 0, j), cur.rfind('{', 0, j), cur.rfind('}', 0, j))
            if k >= 0 and j - k > 1:
                cands.append(cur[:k + 1] + cur[j + 1:])
        # large inputs: fewer candidates per round (the cost of a round is about candidates x size)
        cands = list(dict.fromkeys(cands))[:max(8, min(120, 300000 // max(len(cur), 1)))]
        if not cands:
            break
        res = still_fails(cands)
        nxt = None
        for c, r in zip(cands, res):
            if r and (nxt is None or len(c) < len(nxt)):
                nxt = c
        if nxt is None:
            break
        cur = nxt
    return cur
