"""Shared machinery of the report checks C11 / C12 / C13.

A *case* is a dict
   {'mode': 'opt'|'vul'|'qa'|'all', 'wf': bool, 'gen': str,
    'maps': {'vul': [[variant, [[file, [line, ...]], ...]], ...], 'opt': [...], 'qa': [...]}}
The list order of 'maps'[cat] is the HashMap insertion order, the order of the (file, lines)
pairs is the order of the vector; lines are strictly increasing (a BTreeSet<i32>).
wf = no empty vector, no empty line set, no LF in a file name (the hypotheses of the theorems);
cases that are not wf are only compared with the model (M), the specification is not evaluated.

For every case the real generators are run through harness/src/bin/vh_report.rs; the bytes
returned are rebuilt inside Coq (the constant section texts are referred to by the names of
gen/Sections.v, everything else is shipped literally; a digest computed on both sides proves
the transfer), and coq/model/ReportCases.v evaluates model = implementation and the
specification (spec/ReportReader.v) on the implementation's output."""
import os, sys, re, random, subprocess, json
import vlib
from vlib import log
import tables2coq, sections2coq

CATS = ['vul', 'opt', 'qa']
ENUM = {'vul': 'Vulnerability', 'opt': 'Optimization', 'qa': 'QualityAssurance'}
PRE = {'vul': 'Vul', 'opt': 'Opt', 'qa': 'Qa'}
CHECKFN = {'vul': 'check_vul', 'opt': 'check_opt', 'qa': 'check_qa'}

CODES = {
    99: 'tool: implementation output not transferred faithfully into Coq',
    1: 'model (coq/model/Report.v) differs from the implementation output',
    3: 'the implementation panicked',
    11: 'C11 report_entries_exact: entries read back from the report are not the findings',
    12: 'C11 section_iff_findings: key line of a pattern present without finding / absent with finding',
    13: 'C11: entries of one pattern are not contiguous under its section',
    21: 'C12 total_matches_entries: total printed in the overview differs from the number of entries listed',
    22: 'C12 heading_iff: a severity heading is printed without a finding of that severity (or missing with one)',
    23: 'C12 heading_iff: an entry is listed under the wrong severity heading',
    24: 'C12 category_iff: a category block is present without findings (or missing with findings)',
    31: 'C13: the same set of findings rendered to different bytes (different insertion order / process)',
}
SPEC_CODES = {3, 11, 12, 13, 21, 22, 23, 24, 31}

_T = None
_S = None


def tables():
    global _T, _S
    if _T is None:
        _S = sections2coq.collect()
        _T = _S['tables']
    return _T


def variants(cat):
    return tables()['cats'][cat]['variants']


def vh_report(ctx):
    return vlib.need_bin('vh_report')


# ----------------------------------------------------------------------------- generators
FILE_NAMES = [
    'a.sol', 'Token.sol', 'B.sol', 'a b.sol', 'a:b.sol', 'a.sol:12', '- a.sol', '- a.sol:7', '#x.sol', '### Lines',
    '## High Risk', '## Low Risk', 'é.sol', '日本語.sol', 'x - y: z.sol', ':', '::', 'a:', ':9', 'a:-3', ' ', '',
    'dir/sub/C.sol', 'tab\there.sol', 'a.sol ', '-', '- ', '-  :1', 'Z.sol', 'z.sol', 'A.sol', 'aa.sol', 'a.sol.sol',
    '# Gas Optimizations - (Total Optimizations 7)', '💥.sol', 'a\rb.sol', '0', '12', '-5', 'a:+1', 'a:1 ', 'a: 1',
    'Vault{line}.sol', '{file}.sol', '{}.sol', '{0}:{1}', '%s.sol', '%d', '{line}', '$1.sol', '\\1.sol',
]
BIG = [0, 1, 2, 9, 10, 11, 99, 100, 101, 999, 1000, 65535, 65536, 99999, 100000, 2 ** 31 - 1, 2 ** 31 - 2, 123456789,
       1000000007, -1, -2, -10, -2 ** 31, -2 ** 31 + 1]


NUMS = ['1', '2', '9', '10', '11', '99', '100', '007', '010', '0', '4294967295', '4294967296', '20230917101500', '18446744073709551616',
        '9223372036854775808', '-1', '1e3', '0x10']


def gen_family_name(rng):
    """names that a 'natural', numeric, case-insensitive or locale-aware order would arrange differently from the byte order"""
    r = rng.random()
    if r < 0.6:
        return rng.choice(NUMS) + rng.choice(['_', '-', '.', '']) + rng.choice(['Vault', 'Router', 'Migration', 'a', '']) + '.sol'
    if r < 0.8:
        return 'v%s.%s.sol' % (rng.choice(NUMS[:9]), rng.choice(NUMS[:9]))
    return rng.choice(['a.sol', 'A.sol', 'á.sol', 'Á.sol', 'ä.sol', 'b.sol', 'B.sol', 'ß.sol', 'ss.sol', 'İ.sol', 'i.sol', 'I.sol', 'ı.sol'])


def gen_name(rng):
    r = rng.random()
    if r < 0.7:
        return rng.choice(FILE_NAMES)
    n = rng.randint(0, 12)
    alphabet = 'ab.:- #/_Zé日0123456789\t'
    return ''.join(rng.choice(alphabet) for _ in range(n))


def gen_lines(rng, maxn=40):
    r = rng.random()
    n = 1 if r < 0.3 else rng.randint(1, 6) if r < 0.8 else rng.randint(7, maxn)
    if r > 0.985:
        n = rng.choice([99, 100, 101, 128, 255, 256, 257, 300])     # very many findings in one file (generated code)
    s = set()
    while len(s) < n:
        q = rng.random()
        if q < 0.75:
            s.add(rng.randint(1, 400 if n < 90 else 4000))
        elif q < 0.95:
            s.add(rng.choice(BIG))
        else:
            s.add(rng.randint(-2 ** 31, 2 ** 31 - 1))
    return sorted(s)


def gen_vector(rng, maxfiles=6, allow_empty=False):
    lo = 0 if allow_empty else 1
    n = rng.randint(lo, maxfiles)
    v = []
    family = rng.random() < 0.15
    if family:
        n = max(n, min(maxfiles, 4))
    for _ in range(n):
        if family and rng.random() < 0.85:
            v.append([gen_family_name(rng), gen_lines(rng)])
            continue
        if v and rng.random() < 0.25:
            prev = rng.choice(v)           # the same file name twice (two directories)
            name = prev[0]
            q = rng.random()
            if q < 0.5:
                # ... with line sets that agree on their first line(s) and differ later: an order that looks at a
                # prefix of the line set only cannot tell them apart
                k = rng.randint(1, len(prev[1]))
                top = prev[1][k - 1]
                tail = sorted(set(rng.randint(top + 1, top + 60) for _ in range(rng.randint(1, 3)))) if top < 2 ** 31 - 100 else []
                ls = prev[1][:k] + tail
                if ls == prev[1]:
                    ls = prev[1] + [prev[1][-1] + 1] if prev[1][-1] < 2 ** 31 - 1 else prev[1]
                v.append([name, ls])
                continue
            if q < 0.6:
                v.append([name, list(prev[1])])     # an identical entry (identical copies of a file)
                continue
        else:
            name = gen_name(rng)
        v.append([name, gen_lines(rng)])
    return v


def gen_map(rng, cat, subset, maxfiles=6):
    m = [[p, gen_vector(rng, maxfiles)] for p in subset]
    rng.shuffle(m)
    return m


def is_wf(case):
    for cat in CATS:
        for p, v in case['maps'].get(cat, []):
            if not v:
                return False
            for f, ls in v:
                if not ls or '\n' in f:
                    return False
    return True


def mk_case(mode, maps, gen):
    c = {'mode': mode, 'maps': {k: maps.get(k, []) for k in CATS}, 'gen': gen}
    c['wf'] = is_wf(c)
    return c


def all_subsets(items):
    out = []
    for mask in range(1 << len(items)):
        out.append([items[i] for i in range(len(items)) if mask >> i & 1])
    return out


def ood_cases(rng):
    """outside the hypotheses: empty vectors, empty line sets, LF in file names (model = implementation only)"""
    out = []
    for cat in CATS:
        vs = variants(cat)
        out.append(mk_case(cat, {cat: [[vs[0], []]]}, 'ood:empty-vector'))
        out.append(mk_case(cat, {cat: [[vs[0], [['a.sol', []]]]]}, 'ood:empty-line-set'))
        out.append(mk_case(cat, {cat: [[vs[-1], [['a\nb.sol', [1, 2]]]], [vs[0], []]]}, 'ood:lf-in-name'))
        out.append(mk_case(cat, {cat: [[vs[0], [['a.sol', [3]], ['b.sol', []]]], [vs[1], [['- x:1\n### Lines', [5]]]]]},
                           'ood:mixed'))
    out.append(mk_case('all', {'vul': [[variants('vul')[0], []]], 'opt': [], 'qa': [[variants('qa')[0], []]]}, 'ood:all-empty-vectors'))
    return out


def standard_cases(rng, n_opt_random, n_all, reps=1):
    cases = []
    for rep in range(reps):
        for sub in all_subsets(variants('vul')):
            cases.append(mk_case('vul', {'vul': gen_map(rng, 'vul', sub)}, 'vul:subset'))
        for sub in all_subsets(variants('qa')):
            cases.append(mk_case('qa', {'qa': gen_map(rng, 'qa', sub)}, 'qa:subset'))
    vs = variants('opt')
    cases.append(mk_case('opt', {'opt': []}, 'opt:empty'))
    for p in vs:
        cases.append(mk_case('opt', {'opt': gen_map(rng, 'opt', [p], maxfiles=3)}, 'opt:single'))
    cases.append(mk_case('opt', {'opt': gen_map(rng, 'opt', list(vs), maxfiles=2)}, 'opt:all'))
    for _ in range(n_opt_random):
        k = rng.choice([1, 2, 2, 3, 3, 4, 5, 7, 10])
        sub = rng.sample(vs, k)
        cases.append(mk_case('opt', {'opt': gen_map(rng, 'opt', sub)}, 'opt:random'))
    # whole report: every combination of empty / non-empty categories, then random
    for mask in range(8):
        maps = {}
        for i, cat in enumerate(CATS):
            if mask >> i & 1:
                k = rng.randint(1, min(3, len(variants(cat))))
                maps[cat] = gen_map(rng, cat, rng.sample(variants(cat), k), maxfiles=3)
        cases.append(mk_case('all', maps, 'all:categories'))
    for _ in range(n_all):
        maps = {}
        for cat in CATS:
            k = rng.randint(0, min(4, len(variants(cat))))
            maps[cat] = gen_map(rng, cat, rng.sample(variants(cat), k), maxfiles=3)
        cases.append(mk_case('all', maps, 'all:random'))
    return cases


def big_cases(rng):
    """very many entries: more than 100 files under one pattern, a thousand and more entries in one category"""
    out = []
    vs = variants('opt')
    vv = variants('vul')
    for nfiles in (100, 101, 150):
        files = [['F%03d.sol' % i, sorted(rng.sample(range(1, 500), rng.randint(1, 3)))] for i in range(nfiles)]
        rng.shuffle(files)
        out.append(mk_case('opt', {'opt': [[vs[nfiles % len(vs)], files]]}, 'opt:many-files'))
    for total in (999, 1000, 1005, 1234, 2050):
        per = 5
        files = [['G%04d.sol' % i, list(range(10 * i + 1, 10 * i + 1 + per))] for i in range(total // per)]
        rest = total - per * (total // per)
        if rest:
            files.append(['Rest.sol', list(range(1, rest + 1))])
        out.append(mk_case('opt', {'opt': [[vs[total % len(vs)], files]]}, 'opt:many-entries'))
        out.append(mk_case('vul', {'vul': [[vv[total % len(vv)], files]]}, 'vul:many-entries'))
    return out


def corpus_cases(prop):
    """minimised failing inputs recorded before the repairs (committed under /verif/corpus/report):
    replayed first on every run"""
    import glob
    out = []
    for f in sorted(glob.glob(os.path.join(vlib.VERIF, 'corpus', 'report', '%s-*.json' % prop))):
        try:
            c = json.load(open(f))['input']
        except Exception:
            continue
        if isinstance(c, dict) and 'maps' in c:
            out.append(mk_case(c['mode'], c['maps'], 'corpus:' + os.path.basename(f)))
    return out


def reorder(rng, case):
    """the same set of findings, inserted in another order (patterns and vectors shuffled)"""
    c = json.loads(json.dumps(case))
    for cat in CATS:
        m = c['maps'][cat]
        rng.shuffle(m)
        for p, v in m:
            rng.shuffle(v)
    return c


# ----------------------------------------------------------------------------- implementation
def protocol(case, allfile_dir=None):
    mode = case['mode']
    L = ['case %s%s' % (mode, (' ' + allfile_dir) if mode in ('allfile', 'allfilestale') else '')]
    for cat in CATS:
        if mode in ('all', 'allfile', 'allfilestale') or mode == cat:
            for p, v in case['maps'].get(cat, []):
                L.append('pat %s %s' % (cat, p))
                for f, ls in v:
                    L.append('file x%s %s' % (f.encode('utf-8').hex(), ' '.join(str(x) for x in ls)))
    L.append('end')
    return '\n'.join(L) + '\n'


def run_impl_batch(binary, cases):
    """all cases in ONE process -> list of bytes | 'PANIC'"""
    inp = ''.join(protocol(c, c.get('dir')) for c in cases)
    p = subprocess.run([binary], input=inp.encode(), stdout=subprocess.PIPE, stderr=subprocess.PIPE, timeout=1200)
    if p.returncode != 0:
        raise vlib.BuildError('vh_report failed (rc %d): %s' % (p.returncode, p.stderr.decode(errors='replace')[-2000:]))
    outs = []
    for line in p.stdout.decode().split('\n'):
        if line.startswith('out '):
            t = line[4:].strip()
            outs.append('PANIC' if t == 'PANIC' else bytes.fromhex(t))
    if len(outs) != len(cases):
        raise vlib.BuildError('vh_report: %d answers for %d cases' % (len(outs), len(cases)))
    return outs


def run_impl_fresh(binary, case):
    """one case in a fresh process (fresh hash seeds)"""
    return run_impl_batch(binary, [case])[0]


# ----------------------------------------------------------------------------- Coq side
def digest(b):
    a = 7
    for c in b:
        a = (a * 1000003 + c + 1) & 2305843009213693951
    return a


def coq_bytes(b):
    return sections2coq.coq_bytes(b)


def coq_z(n):
    return str(n) if n >= 0 else '(%d)' % n


def coq_findings(cat, m):
    items = []
    for p, v in m:
        vec = '; '.join('(%s, [%s]%%Z)' % (coq_bytes(f.encode('utf-8')), '; '.join(coq_z(x) for x in ls)) for f, ls in v)
        items.append('(%s_%s, [%s])' % (PRE[cat], p, vec))
    return '([%s] : findings %s)' % ('; '.join(items), ENUM[cat])


_CONST = None


def constants():
    """name in gen/Sections.v -> bytes, longest first"""
    global _CONST
    if _CONST is None:
        tables()
        c = []
        for cat in ['opt', 'vul', 'qa']:
            d = _S['cats'][cat]
            for mod, txt in d['texts'].items():
                c.append(('sec_%s_%s' % (cat, mod), txt))
            if d['overview'][0] == 'fmt':
                c.append(('%s_overview_prefix' % cat, d['overview'][1]))
                c.append(('%s_overview_suffix' % cat, d['overview'][2]))
        _CONST = sorted([x for x in c if len(x[1]) >= 40], key=lambda x: -len(x[1]))
    return _CONST


def coq_impl(b):
    """a Coq expression of type string whose value is exactly b"""
    occ = []
    for name, txt in constants():
        start = 0
        while True:
            i = b.find(txt, start)
            if i < 0:
                break
            occ.append((i, len(txt), name))
            start = i + len(txt)
    occ.sort(key=lambda o: (o[0], -o[1]))
    chunks = []
    pos = 0
    for i, n, name in occ:
        if i < pos:
            continue
        if i > pos:
            chunks.append(coq_bytes(b[pos:i]))
        chunks.append(name)
        pos = i + n
    if pos < len(b):
        chunks.append(coq_bytes(b[pos:]))
    return 'sconcat [%s]' % '; '.join(chunks)


def case_expr(case, out):
    wf = 'true' if case['wf'] else 'false'
    if case['mode'] in ('all', 'allfile', 'allfilestale'):
        return 'check_all %s %s %s %s (%s) %d' % (wf, coq_findings('vul', case['maps']['vul']), coq_findings('opt', case['maps']['opt']),
                                                  coq_findings('qa', case['maps']['qa']), coq_impl(out), digest(out))
    cat = case['mode']
    return '%s %s %s (%s) %d' % (CHECKFN[cat], wf, coq_findings(cat, case['maps'][cat]), coq_impl(out), digest(out))


IMPORTS = 'Bytes Tables Sections Report ReportReader ReportCases'


def coq_codes(cases, outs, tag):
    """-> list of lists of failed sub-check codes"""
    todo = [(i, c, o) for i, (c, o) in enumerate(zip(cases, outs)) if o != 'PANIC']
    # balance shards by output size
    nsh = max(1, min(vlib.NPROC, len(todo)))
    shards = [[] for _ in range(nsh)]
    load = [0] * nsh
    for i, c, o in sorted(todo, key=lambda t: -len(t[2])):
        k = load.index(min(load))
        shards[k].append((i, c, o))
        load[k] += len(o) + 2000
    texts = [[('eval', case_expr(c, o)) for i, c, o in sh] for sh in shards]
    vals = vlib.coq_eval_plain(texts, IMPORTS, tag)
    res = [None] * len(cases)
    for sh, vs in zip(shards, vals):
        if len(vs) != len(sh):
            raise vlib.BuildError('unexpected number of values from a report shard')
        for (i, c, o), v in zip(sh, vs):
            res[i] = list(v)
    for i, o in enumerate(outs):
        if o == 'PANIC':
            res[i] = [3]
    return res


def evaluate(ctx, cases, tag, fresh=False):
    binary = vh_report(ctx)
    if fresh:
        outs = [run_impl_fresh(binary, c) for c in cases]
    else:
        outs = run_impl_batch(binary, cases)
    codes = coq_codes(cases, outs, tag)
    for c in codes:
        if 99 in c:
            raise vlib.BuildError('implementation output was not transferred faithfully into Coq (digest mismatch)')
    return outs, codes


# ----------------------------------------------------------------------------- shrinking
def case_size(case):
    n = 0
    for cat in CATS:
        for p, v in case['maps'][cat]:
            n += 10
            for f, ls in v:
                n += 3 + len(f) + len(ls)
    return n


def shrink_candidates(case):
    out = []
    for cat in CATS:
        m = case['maps'][cat]
        npat = sum(len(case['maps'][k]) for k in CATS)
        for i in range(len(m)):
            if npat <= 1:
                break                      # keep at least one pattern: the empty map is a degenerate witness
            c = json.loads(json.dumps(case))
            del c['maps'][cat][i]
            out.append(c)
        for i, (p, v) in enumerate(m):
            for j in range(len(v)):
                if len(v) > 1:
                    c = json.loads(json.dumps(case))
                    del c['maps'][cat][i][1][j]
                    out.append(c)
                if len(v[j][1]) > 1:
                    c = json.loads(json.dumps(case))
                    c['maps'][cat][i][1][j][1] = v[j][1][:1]
                    out.append(c)
                if v[j][0] != 'a.sol':
                    c = json.loads(json.dumps(case))
                    c['maps'][cat][i][1][j][0] = 'a.sol'
                    out.append(c)
                if v[j][1] and v[j][1] != [1]:
                    c = json.loads(json.dumps(case))
                    c['maps'][cat][i][1][j][1] = [1]
                    out.append(c)
    for c in out:
        c['wf'] = is_wf(c)
    return [c for c in out if c['wf'] == case['wf']]


def shrink(ctx, case, fails, rounds=8):
    """fails(list of cases) -> list of bool"""
    cur = case
    for _ in range(rounds):
        cands = shrink_candidates(cur)
        if not cands:
            break
        res = fails(cands)
        best = None
        for c, r in zip(cands, res):
            if r and (best is None or case_size(c) < case_size(best)):
                best = c
        if best is None or case_size(best) >= case_size(cur):
            break
        cur = best
    return cur


def describe(case):
    return {cat: [[p, len(v), sum(len(ls) for f, ls in v)] for p, v in case['maps'][cat]] for cat in CATS if case['maps'][cat]}


def show(out, limit=1500):
    if out == 'PANIC':
        return 'PANIC'
    t = out.decode('utf-8', errors='replace')
    # abbreviate the long constant texts
    for name, txt in constants():
        t = t.replace(txt.decode('utf-8'), '<%s>' % name)
    return t if len(t) <= limit else t[:limit] + '...[%d bytes]' % len(out)


# ----------------------------------------------------------------------------- shared driver
def fill_coverage(rep, cases, outs, codes, s_codes, rule, extra=None):
    by_gen = {}
    nontrivial = set()
    n_entries = 0
    for c, o in zip(cases, outs):
        g = c['gen']
        by_gen[g] = by_gen.get(g, 0) + 1
        ne = sum(len(ls) for cat in CATS for p, v in c['maps'][cat] for f, ls in v)
        n_entries += ne
        if c['wf'] and ne >= 2:
            nontrivial.add(json.dumps([c['mode'], c['maps']], sort_keys=True))
    rep.coverage['evaluations'] = len(cases)
    rep.coverage['distinct_nontrivial'] = len(nontrivial)
    rep.coverage['rule'] = rule
    rep.coverage['cases_by_generator'] = by_gen
    rep.coverage['entries_total'] = n_entries
    rep.coverage['report_bytes_total'] = sum(len(o) for o in outs if o != 'PANIC')
    rep.coverage['traces_validated_against_impl'] = sum(1 for k in codes if not k)
    step = max(1, len(cases) // 4)
    rep.coverage['samples'] = [{'gen': c['gen'], 'mode': c['mode'], 'findings': describe(c), 'report_bytes': len(o),
                                'report_head': show(o, 300)} for c, o in list(zip(cases, outs))[::step][:4]]
    if extra:
        rep.coverage.update(extra)
    rep.assumptions = [
        'HashMap semantics: an association list with pairwise distinct keys, iterated in an arbitrary order (theorems quantify over all permutations)',
        'Vec::sort / sort_by_key: a stable sorting function (model: insertion sort); Ord of (String, BTreeSet<i32>) = lexicographic on bytes, then on the ascending element sequence',
        'i32::to_string / usize::to_string: decimal rendering (model: Coq DecimalString); the usize counter does not overflow',
        'hypotheses of the theorems: no empty vector, no empty line set, no LF in a file name (guaranteed by analyze_dir: a (file, lines) pair is pushed only when lines is non-empty)',
    ]


def report_failures(rep, ctx, prop, cases, outs, codes, s_codes, fails_spec, theorem_of):
    """S first (shrunk), then M.  Returns True when a concrete failing input was reported."""
    s_fail = [(c, o, k) for c, o, k in zip(cases, outs, codes) if set(k) & s_codes]
    m_fail = [(c, o, k) for c, o, k in zip(cases, outs, codes) if 1 in k and not (set(k) & s_codes)]
    if s_fail:
        # prefer a witness with at least one pattern over the (degenerate) empty map
        s_fail.sort(key=lambda t: sum(len(t[0]['maps'][k]) for k in CATS) == 0)
        seen = set()
        reported = 0
        for c, o, k in s_fail:
            key = tuple(sorted(set(k) & s_codes))
            if key in seen:
                continue
            seen.add(key)
            small = shrink(ctx, c, lambda cands, key=key: fails_spec(cands, set(key)))
            so, sk = evaluate(ctx, [small], 'min-%s' % prop)
            rep.violation('; '.join(CODES[x] for x in key),
                          {'kind': 'S', 'input': small, 'failed_subchecks': sk[0], 'original_gen': c['gen'],
                           'implementation_output': show(so[0]), 'theorem': theorem_of(key),
                           'n_failing_cases': len(s_fail), 'n_model_mismatches': len(m_fail),
                           'rust_function': 'report::%s' % {'vul': 'vulnerability_report::generate_vulnerability_report',
                                                            'opt': 'optimization_report::generate_optimization_report',
                                                            'qa': 'qa_report::generate_qa_report'}.get(small['mode'], 'generation::generate_report')})
            reported += 1
            if reported >= 3:
                break
        return True
    if m_fail:
        c, o, k = min(m_fail, key=lambda t: case_size(t[0]))
        small = shrink(ctx, c, lambda cands: [1 in kk for kk in evaluate(ctx, cands, 'shrinkM-%s' % prop)[1]])
        so, sk = evaluate(ctx, [small], 'minM-%s' % prop)
        rep.violation('model differs from the implementation on %d of %d cases; no violation of the specification found'
                      % (len(m_fail), len(cases)),
                      {'kind': 'M', 'input': small, 'failed_subchecks': sk[0], 'implementation_output': show(so[0]),
                       'model_function': 'Report.generate_%s_report' % small['mode'], 'rust_function': 'solstat::report::*::generate_*_report'},
                      no_input=True)
    return False


def replay_common(prop, obj, s_codes):
    from checks import common
    ctx = common.Ctx()
    ctx.tier = 'quick'
    ctx.seed = 1
    ctx.harness = vlib.build_harness()
    case = obj['input']
    outs, codes = evaluate(ctx, [case], 'replay-%s' % prop)
    print('input (mode %s, insertion order as listed):' % case['mode'])
    for cat in CATS:
        for p, v in case['maps'][cat]:
            print('  %s %s -> %s' % (cat, p, v))
    print('implementation output (constant texts abbreviated):')
    print(show(outs[0], 6000))
    print('model = implementation:', 1 not in codes[0])
    print('failed sub-checks (model / specification evaluated on the implementation output):', codes[0])
    for k in codes[0]:
        print('   %d: %s' % (k, CODES.get(k)))
    return ctx, case, outs[0], codes[0]
