"""C02 - every reported line is the line on which the flagged construct begins
(offset-to-line part: utils::get_line_number).

Decided by: theorem line_of_spec and its corollaries (props/C02.v) over the hand-written
model Utils.get_line_number + correspondence of that model with the implementation:
 (1) exhaustive: every valid UTF-8 string up to length 6 (quick) / 8 (thorough) over the
     alphabet {a, LF, CR, 0xC3, 0xA9} x every offset < length, compared by per-block digests
     that the harness (vh_digest line) and Coq (UtilCases.line_block) fold over the same
     enumeration order: implementation vs model on all offsets, implementation vs
     specification (line_spec) on the offsets that are not a line feed; a block whose
     digests differ is re-run with explicit cases to obtain the concrete failing input;
 (2) seeded random texts (CRLF / LF / lone CR line ends, blank lines, multi-byte characters,
     with and without a final newline) x token-start offsets plus a few arbitrary offsets;
     explicit cases: the model AND the specification are evaluated in Coq on the
     implementation's actual answer."""
import os, random, subprocess
import vlib
from vlib import log
from checks import common

IMPORTS = 'Res Utils LineSpec UtilCases'
ALPHA = [97, 10, 13, 0xC3, 0xA9]
KINDS = {1: 'model Utils.get_line_number differs from utils::get_line_number',
         2: 'answer is not 1 + number of line feeds before the offset (line_spec)'}


def digest_bin(ctx):
    return vlib.need_bin('vh_digest')


def impl_lines(ctx, cases):
    """cases: list of (offset, bytes) -> list of codes (answer + 1; 0 = panic)"""
    inp = ''.join('line %d %s\n' % (off, b.hex()) for off, b in cases)
    p = subprocess.run([ctx.harness, 'util'], input=inp, stdout=subprocess.PIPE, text=True, timeout=3600)
    if p.returncode != 0:
        raise vlib.BuildError('vharness util failed')
    out = p.stdout.split('\n')[:len(cases)]
    if len(out) != len(cases):
        raise vlib.BuildError('vharness util: %d answers for %d requests' % (len(out), len(cases)))
    return [0 if a == 'PANIC' else int(a) + 1 for a in out]


def coq_bytes(b):
    return '(bytes [%s])' % '; '.join(str(x) for x in b)


def check_explicit(ctx, texts, tag):
    """texts: list of (bytes, [offsets]).  Returns (failures, n_cases, n_in_domain) with
    failures = list of dict(text, off, kind, impl)."""
    flat = [(off, b) for b, offs in texts for off in offs]
    codes = impl_lines(ctx, flat)
    per_text = []
    k = 0
    for b, offs in texts:
        per_text.append(codes[k:k + len(offs)])
        k += len(offs)
    nsh = max(1, min(vlib.NPROC, (len(texts) + 49) // 50))
    shards = [[] for _ in range(nsh)]
    owner = [[] for _ in range(nsh)]
    for i, ((b, offs), cs) in enumerate(zip(texts, per_text)):
        e = 'check_lines %s %s' % (coq_bytes(b), vlib.coq_pairs(zip(offs, cs)))
        shards[i % nsh].append(('eval', e))
        owner[i % nsh].append(i)
    vals = vlib.coq_eval_plain(shards, IMPORTS, tag)
    fails = []
    for sh, own in zip(vals, owner):
        if len(sh) != len(own):
            raise vlib.BuildError('unexpected number of values from Coq')
        for v, i in zip(sh, own):
            b, offs = texts[i]
            for off, kind in v:
                fails.append({'text': b, 'off': off, 'kind': kind, 'impl': per_text[i][offs.index(off)] - 1})
    n_dom = sum(1 for b, offs in texts for off in offs if off < len(b) and b[off] != 10)
    return fails, len(flat), n_dom


def block_strings(maxlen, block):
    """the enumeration of vh_digest / UtilCases.line_block, valid UTF-8 strings only"""
    def valid(bs):
        try:
            bytes(bs).decode('utf-8')
            return True
        except UnicodeDecodeError:
            return False

    def of_len(n):
        if n == 0:
            yield []
            return
        for c in ALPHA:
            for t in of_len(n - 1):
                yield [c] + t
    out = []
    if block == 0:
        cands = [[]] + ([[c] for c in ALPHA] if maxlen >= 1 else [])
    else:
        i, j = ALPHA[(block - 1) // 5], ALPHA[(block - 1) % 5]
        cands = [[i, j] + t for tl in range(0, maxlen - 1) for t in of_len(tl)]
    for c in cands:
        if valid(c):
            out.append(bytes(c))
    return out


def describe(f):
    b = f['text']
    return {'text_hex': b.hex(), 'text_repr': repr(b.decode('utf-8', 'replace')), 'offset': f['off'],
            'implementation_answer': 'PANIC' if f['impl'] < 0 else f['impl'],
            'specified_line': 1 + b[:f['off']].count(b'\n'), 'failed': KINDS[f['kind']]}


def report_failures(rep, fails, where):
    """one violation per kind present; the smallest failing text is the replay input"""
    found_s = False
    for kind in (2, 1):
        fk = [f for f in fails if f['kind'] == kind]
        if not fk:
            continue
        if kind == 1 and found_s:
            continue        # the model describes the repaired code; the S finding explains the difference
        fk.sort(key=lambda f: (len(f['text']), sum(1 for c in f['text'] if c < 32 or c > 126), f['text'], f['off']))
        d = describe(fk[0])
        rep.violation('%s: get_line_number(%d, %s) = %s, %s' % (
            where, d['offset'], d['text_repr'], d['implementation_answer'],
            ('the line is %d' % d['specified_line']) if kind == 2 else 'the model says otherwise'),
            {'kind': 'S' if kind == 2 else 'M', 'input': {'text_hex': d['text_hex'], 'offset': d['offset']},
             'detail': d, 'more_failing_cases': [describe(f) for f in fk[1:6]], 'n_failing_cases': len(fk),
             'theorem': 'line_of_spec', 'model_function': 'Utils.get_line_number',
             'rust_function': 'utils::get_line_number'}, no_input=(kind == 1))
        if kind == 2:
            found_s = True
    return found_s


# ------------------------------------------------------------------ random texts
WORDS = ['contract', 'C', '{', '}', 'uint256', 'x', '=', '1', ';', 'function', 'f', '(', ')', 'public', '//', 'é', 'ü', '"ß"',
         '/*', '*/', 'return', 'a+b', '漢字', '😀', 'emit', 'E', '(', ')', 'if', 'else', '\t']


def random_text(rng):
    eol = rng.choice(['\n', '\n', '\r\n', '\r\n', rng.choice(['\n', '\r\n', '\r'])])
    nlines = rng.choice([1, 1, 2, 3, 5, 8, 13, 30])
    lines = []
    for _ in range(nlines):
        r = rng.random()
        if r < 0.2:
            lines.append('')
        elif r < 0.3:
            lines.append(' ' * rng.randrange(1, 6))
        else:
            # indentation: blanks, tabs, and now and then the other white-space bytes a lexer accepts (vertical tab, form
            # feed) - bytes next to the line feed in value, which a byte-wise counter must not take for one
            ind = ' ' * rng.choice([0, 0, 2, 4, 8]) if rng.random() < 0.85 else rng.choice(['\x0b', '\x0c', '\x0b\x0b', '\t\x0b', '\x0b '])
            lines.append(ind + ' '.join(rng.choice(WORDS) for _ in range(rng.randrange(1, 7))))
    mixed = rng.random() < 0.15
    txt = ''
    for i, l in enumerate(lines):
        txt += l
        if i + 1 < len(lines) or rng.random() < 0.5:        # half of the texts end without a newline
            txt += rng.choice(['\n', '\r\n']) if mixed else eol
    return txt


def token_starts(b):
    """byte offsets at which a token can start: first byte of a character that is not white
    space and follows white space or the beginning of the text"""
    offs = []
    prev_ws = True
    for i, c in enumerate(b):
        ws = c in (32, 9, 10, 11, 12, 13)
        if not ws and prev_ws and (c < 0x80 or c >= 0xC0):
            offs.append(i)
        prev_ws = ws
    return offs


def random_cases(ctx, n):
    rng = random.Random(ctx.seed * 1000003 + 2)
    texts = []
    seen = set()
    stats = {'texts': 0, 'crlf': 0, 'unterminated': 0, 'multibyte': 0, 'blank_lines': 0,
             'offsets_on_unterminated_last_line': 0, 'offsets_after_multibyte': 0, 'offsets_out_of_domain': 0}
    while len(texts) < n:
        t = random_text(rng)
        b = t.encode('utf-8')
        if b in seen or not b:
            continue
        seen.add(b)
        offs = token_starts(b)
        if len(offs) > 24:
            offs = sorted(rng.sample(offs, 24))
        extra = [rng.randrange(0, len(b) + 3) for _ in range(3)]      # arbitrary offsets (LF, CR, past the end ...)
        offs = sorted(set(offs + extra))
        texts.append((b, offs))
        stats['texts'] += 1
        stats['crlf'] += b'\r\n' in b
        stats['unterminated'] += not b.endswith(b'\n')
        stats['multibyte'] += any(c >= 0x80 for c in b)
        stats['blank_lines'] += (b'\n\n' in b or b'\n\r\n' in b or b.startswith(b'\n') or b.startswith(b'\r\n'))
        last_nl = b.rfind(b'\n')
        for o in offs:
            if o >= len(b) or b[o] == 10:
                stats['offsets_out_of_domain'] += 1
                continue
            if o > last_nl:
                stats['offsets_on_unterminated_last_line'] += 1
            if any(c >= 0x80 for c in b[:o]):
                stats['offsets_after_multibyte'] += 1
    return texts, stats


# ------------------------------------------------------------------ run
def run(rep, ctx):
    maxlen = 6 if ctx.tier == 'quick' else 8
    n_random = 2000 if ctx.tier == 'quick' else 50000
    found = False
    # (1) exhaustive, by digest
    p = subprocess.run([digest_bin(ctx), 'line', str(maxlen), '0', '26'], stdout=subprocess.PIPE, text=True, timeout=3600)
    if p.returncode != 0:
        raise vlib.BuildError('vh_digest line failed')
    impl = {}
    for line in p.stdout.split('\n'):
        w = line.split()
        if w and w[0] == 'line':
            impl[int(w[1])] = tuple(int(x) for x in w[2:])      # n_strings n_all d_all n_nonlf d_nonlf
    blocks = list(range(26))
    nsh = vlib.NPROC
    shards = [[('eval', 'line_block %d %d' % (maxlen, b)) for b in blocks[k::nsh]] for k in range(nsh)]
    shards = [s for s in shards if s]
    vals = vlib.coq_eval_plain(shards, IMPORTS, 'c02-digest')
    model = {}
    for k, sh in enumerate(vals):
        for b, v in zip(blocks[k::nsh], sh):
            model[b] = tuple(v)                                   # n_strings n_all d_model n_nonlf d_spec
    bad_blocks = []
    n_all = n_dom = n_strings = 0
    for b in blocks:
        i, m = impl[b], model[b]
        if (i[0], i[1], i[3]) != (m[0], m[1], m[3]):
            raise vlib.BuildError('enumerations of vh_digest and UtilCases.line_block differ in block %d: %r / %r' % (b, i, m))
        n_strings += i[0]
        n_all += i[1]
        n_dom += i[3]
        if i[2] != m[2] or i[4] != m[4]:
            bad_blocks.append(b)
    log('exhaustive: %d strings, %d (string, offset) cases, %d blocks with differing digests' % (n_strings, n_all, len(bad_blocks)))
    if bad_blocks:
        # explicit re-run of the first differing blocks: concrete failing inputs, classified S / M
        fails = []
        for b in bad_blocks[:2]:
            strs = block_strings(maxlen, b)
            f, _, _ = check_explicit(ctx, [(s, list(range(len(s)))) for s in strs if s], 'c02-block')
            fails += f
        if fails:
            s = report_failures(rep, fails, 'exhaustive enumeration (%d of 26 blocks differ)' % len(bad_blocks))
            found = found or s
        else:
            rep.violation('digests of implementation and model/specification differ in blocks %r but the explicit re-run agrees' % bad_blocks[:5],
                          {'kind': 'M', 'blocks': bad_blocks, 'model_function': 'UtilCases.line_block',
                           'rust_function': 'vh_digest line'}, no_input=True)
    # (2) random texts, explicit
    texts, stats = random_cases(ctx, n_random)
    fails, n_cases, n_rdom = check_explicit(ctx, texts, 'c02-random')
    log('random texts: %d texts, %d cases, %d failing' % (len(texts), n_cases, len(fails)))
    if fails:
        s = report_failures(rep, fails, 'random texts')
        found = found or s
    rep.coverage['evaluations'] = n_all + n_cases
    rep.coverage['distinct_nontrivial'] = n_dom + n_rdom
    rep.coverage['rule'] = ('(text, offset) pairs; non-trivial = the offset lies inside the text and is not a line feed (the hypothesis '
                            'of line_of_spec holds, so the specification line_spec constrains the answer). Exhaustive part: all valid '
                            'UTF-8 strings of length <= %d over {a, LF, CR, 0xC3, 0xA9} x all offsets < length, compared by digest in 26 '
                            'blocks (implementation = model on all offsets, implementation = line_spec on non-LF offsets). Random part: '
                            'seeded texts with LF / CRLF / lone CR / mixed line ends, blank lines, multi-byte characters, with and '
                            'without final newline x token-start offsets + 3 arbitrary offsets, explicit cases evaluated in Coq '
                            '(check_lines: model and specification against the implementation\'s answer)') % maxlen
    rep.coverage['exhaustive'] = {'max_length': maxlen, 'strings': n_strings, 'cases': n_all, 'cases_in_domain': n_dom,
                                  'blocks': 26, 'blocks_differing': len(bad_blocks)}
    rep.coverage['random'] = dict(stats, cases=n_cases, cases_in_domain=n_rdom)
    rep.coverage['traces_validated_against_impl'] = n_all + n_cases - len(fails) if not bad_blocks else n_cases - len(fails)
    rep.coverage['samples'] = [{'text': repr(b.decode('utf-8')), 'offsets': offs[:8]} for b, offs in texts[:: max(1, len(texts) // 4)][:4]]
    rep.assumptions = ['the matches of the regex `\\n` are the positions of the byte 0x0A (in UTF-8 that byte occurs only as LF)',
                       'lines_lt_i32: the file has fewer than 2^31 lines (i32 counter); beyond that the model panics as the debug build does',
                       'detector-level clause: props/C02_detectors.v (analyze_lines, reported_is_anchor_line) + line sets of all 30 detectors on programs and their re-layouts (CRLF, blank lines, no final newline, multi-byte prefix)']
    from checks import lines_common
    found = lines_common.run_part(rep, ctx) or found
    common.finish_proof_status(rep, ctx, found)


def replay(obj):
    if obj.get('detector_level'):
        from checks import det_check
        return det_check.replay('C05', obj)
    ctx = common.Ctx()
    ctx.tier = 'quick'
    ctx.seed = 1
    ctx.harness = vlib.build_harness()
    inp = obj['input']
    b = bytes.fromhex(inp['text_hex'])
    off = inp['offset']
    code = impl_lines(ctx, [(off, b)])[0]
    vals = vlib.coq_eval_plain([[('eval', 'line_answers %s %d' % (coq_bytes(b), off)),
                                 ('eval', 'check_lines %s [(%d, %d)]' % (coq_bytes(b), off, code))]], IMPORTS, 'c02-replay')
    (m, s, dom), fails = vals[0]
    print('text: %r  offset: %d' % (b.decode('utf-8', 'replace'), off))
    print('implementation get_line_number:', 'PANIC' if code == 0 else code - 1)
    print('model Utils.get_line_number   :', 'Panic' if m == 0 else m - 1)
    print('specification line_spec       : %d%s' % (s, '' if dom else '  (offset outside the hypothesis of line_of_spec: past the end or a line feed)'))
    print('failed:', [KINDS[k] for _, k in fails] or 'nothing')
    return 1 if fails else 0
