"""C19 - findings compose over the top-level items of a file.
Model part: props/C19.v (compose_all, compose_lines for the 28 detectors).  This check ties it to the code:
multi-item files are assembled from independent programs (identifiers renamed per source program, so
that the items do not mention each other's state variables); for every file
  * the implementation analyses the whole file and, for every item, the file with every OTHER item
    overwritten by blanks (line feeds kept; pragmas kept): "analysed on its own at its original position";
  * S: for each of the 28 detectors the location set / line set of the whole file must equal the union over
    the blanked files (only for files satisfying the theorem's hypotheses, evaluated in Coq on the parsed tree);
  * S: reordering the items must not change what is flagged inside an item (positions relative to the item);
  * M: the model detectors on `isolate parts k` of the parsed tree must equal the implementation on the k-th
    blanked file, and the model on the whole tree the implementation on the whole file;
  * the item splitter of this script must agree with the parser on the top-level parts."""
import os, re, random, shutil
import vlib
from vlib import log, coq_list
from checks import common, det_common
from checks.det_common import DETS
import gen_programs as gp
import sol_lexer as sl

EXCLUDED = ('safe_math_pre_080', 'safe_math_post_080')
C19_DETS = [n for n in DETS if n not in EXCLUDED]

KEYWORDS = set('''abstract address anonymous as assembly bool break byte bytes calldata case catch constant constructor
continue contract default delete do else emit enum error event external fallback false for from function global hex if immutable
import indexed interface internal is leave let library mapping memory modifier new override payable pragma private public pure
receive return returns revert storage string struct switch throw true try type unchecked unicode using view virtual while
wei gwei ether seconds minutes hours days weeks years fixed ufixed var final in inline match of relocatable static typeof
require assert keccak256 sha256 ripemd160 selfdestruct suicide msg block tx abi this super now gasleft blockhash ecrecover
addmod mulmod SafeMath _'''.split())
TYPE_RE = re.compile(r'^(u?int\d*|bytes\d+|u?fixed\d+x\d+)$')


def rename_identifiers(src, suffix):
    """append `suffix` to every identifier that is not a keyword / builtin / member name (after '.') and is not
    directly followed by '(' (function, modifier, event, error names and calls keep their names, so that different
    items DO share function names) and does not start with a capital letter (type, contract, struct, enum names keep their
    names, so that an item can refer to a type another item declares) - only variable-like names, hence the
    state-variable names of the generators, become item-specific"""
    toks = sl.lex(src)
    b = src.encode('utf-8')
    out = []
    pos = 0
    prev = None
    for i, (kind, text, s, e) in enumerate(toks):
        out.append(b[pos:s])
        t = text
        nxt = toks[i + 1][1] if i + 1 < len(toks) else None
        if kind == 'ident' and text not in KEYWORDS and not TYPE_RE.match(text) and prev != '.' and nxt != '(' \
                and not text[0].isupper() \
                and prev not in ('function', 'modifier', 'event', 'error', 'contract', 'library', 'interface', 'struct', 'enum'):
            t = text + suffix
        out.append(t.encode('utf-8'))
        pos = e
        prev = text
    out.append(b[pos:])
    return b''.join(out).decode('utf-8')


def item_pool(sources):
    """-> (pool, by_tag): every top-level item of every source program with the pragmas of its source and a
    tag naming the detector the source was written for (carriers, repo tests) or None"""
    pool = []
    by_tag = {}
    for p in sources:
        try:
            its = sl.top_level_items(p['src'])
        except sl.LexError:
            continue
        b = p['src'].encode('utf-8')
        pragmas = [b[s:e].decode('utf-8') for s, e, ip in its if ip]
        tag = p.get('det')
        if tag is None and p['gen'].startswith('corpus:'):
            tag = os.path.basename(p['gen']).split('.')[0]
        for s, e, ip in its:
            if ip:
                continue
            txt = b[s:e].decode('utf-8')
            big = len(txt) > 90
            it = {'txt': txt, 'pragmas': pragmas, 'tag': tag if big else None, 'gen': p['gen']}
            pool.append(it)
            if it['tag']:
                by_tag.setdefault(it['tag'], []).append(it)
    return pool, by_tag


def assemble(rng, pool, by_tag, n):
    """a file of n items, every item with its own identifier suffix (so that no item mentions a state variable of
    another one); with probability 0.6 two or three of the items come from programs written for the same detector"""
    chosen = []
    if rng.random() < 0.6 and by_tag:
        tag = rng.choice(sorted(by_tag))
        for _ in range(min(n, rng.choice([2, 2, 3]))):
            chosen.append(rng.choice(by_tag[tag]))
    while len(chosen) < n:
        chosen.append(rng.choice(pool))
    pragmas = list(chosen[0]['pragmas'])
    rng.shuffle(chosen)
    items = []
    for i, it in enumerate(chosen):
        try:
            items.append(rename_identifiers(it['txt'], '_%d' % i))
        except sl.LexError:
            return None
    body = list(items)
    if pragmas and rng.random() < 0.15:
        body.insert(rng.randrange(1, len(body)), pragmas.pop())
    sep = rng.choice(['\n', '\n\n', '\r\n', ' '])
    return {'gen': 'c19:' + '+'.join(it['gen'] for it in chosen)[:300], 'src': sep.join(pragmas + body) + '\n'}


def split(src):
    """[(start, end, is_pragma)] or None"""
    try:
        return sl.top_level_items(src)
    except sl.LexError:
        return None


def reorder(src, its, rng):
    """same pragmas first, items permuted; -> (new_src, [(old_item_index, new_start)])"""
    b = src.encode('utf-8')
    prag = [(s, e) for s, e, p in its if p]
    items = [(i, s, e) for i, (s, e, p) in enumerate(its) if not p]
    perm = items[:]
    rng.shuffle(perm)
    out = bytearray()
    for s, e in prag:
        out += b[s:e] + b'\n'
    where = []
    for i, s, e in perm:
        where.append((i, len(out)))
        out += b[s:e] + b'\n'
    return out.decode('utf-8'), where


def inside(locs, s, e):
    return sorted((a - s, c - s) for a, c in locs if s <= a < e)


def run_impl_dir(ctx, srcs, tag):
    wd = os.path.join(vlib.CACHE, 'c19', '%s-%d' % (tag, os.getpid()))
    shutil.rmtree(wd, ignore_errors=True)
    os.makedirs(wd)
    for i, s in enumerate(srcs):
        open(os.path.join(wd, '%06d.sol' % i), 'w', encoding='utf-8', newline='').write(s)
    rc, out = vlib.run_prog(ctx.harness, wd, ['nodump'])
    if rc != 0:
        raise vlib.BuildError('harness failed: ' + out[-1000:])
    res = [vlib.parse_res(open(os.path.join(wd, '%06d.res' % i), encoding='utf-8').read()) for i in range(len(srcs))]
    shutil.rmtree(wd, ignore_errors=True)
    return res


def build_files(ctx):
    rng = random.Random(ctx.seed * 4099 + 19)
    n_random = 60 if ctx.tier == 'quick' else 400
    n_files = 400 if ctx.tier == 'quick' else 3000
    sources = common.standard_programs(ctx, n_random, n_per_carrier=1, streams=('corpus', 'product', 'random', 'special'))
    sources = [p for p in sources if len(p['src']) < 6000]
    files = []
    # fixed cases first: the shapes behind the defects D6 / D9 and the corpus of minimised failures
    fixed = [
        'pragma solidity 0.8.10;\ncontract A { function f() public {} }\ncontract B { constructor() {} }\n',
        'pragma solidity 0.8.10;\ncontract A { function f() public {} constructor() {} }\ncontract B { uint w; constructor() { w = 1; } function g() public {} }\n',
        'pragma solidity 0.8.10;\ncontract A { uint x; uint z = (x = 3); }\ncontract B { uint w; constructor() { w = 1; } }\n',
        'pragma solidity 0.8.3;\nlibrary L { function f(uint a) internal pure returns (uint) { require(a > 0, "short"); return a * 2; } }\n'
        'function fr(uint q) pure returns (uint) { unchecked { ++q; } return q / 4; }\nstruct S { uint128 a; uint256 b; uint128 c; }\n'
        'contract C { uint y; address o; function k() external { selfdestruct(payable(msg.sender)); } function s(uint[] memory m) public { y = m.length; ++y; } }\n',
        'pragma solidity ^0.8.4;\ninterface I { function t(address a, uint v) external returns (bool); }\n'
        'contract T { uint total; I tok; function p(address a) public { tok.transfer(a, 1); total = total / 2 * 3; } }\n'
        'contract U { uint8 a1; uint256 b1; uint8 c1; uint public _pub; function _q() public {} }\n',
        'pragma solidity ^0.8.4;\ncontract P1 { uint128 a1; uint256 b1; uint128 c1; }\ncontract P2 { bool a2; uint256 b2; bool c2; }\n'
        'contract P3 { uint256 a3; uint256 b3; }\nstruct S4 { uint8 a4; uint256 b4; uint8 c4; }\n',
        'pragma solidity ^0.8.4;\ncontract E1 { function p(address t, address a) public { IERC20(t).transfer(a, 1); } }\n'
        'library E2 { function q(address t, address a) internal { IERC20(t).approve(a, 1); IERC20(t).transferFrom(a, a, 1); } }\n'
        'function e3(address t) { IERC20(t).transfer(t, 2); }\n',
        'pragma solidity ^0.8.4;\ncontract G1 { address o1; modifier onlyOwner() { require(msg.sender == o1); _; } function kill() external onlyOwner { selfdestruct(payable(o1)); } }\n'
        'contract G2 { function kill() external { selfdestruct(payable(address(0))); } fallback() external { selfdestruct(payable(address(0))); } }\n'
        'contract G3 { address o3; function kill() external { require(msg.sender == o3, "no"); selfdestruct(payable(o3)); } fallback() external { } }\n',
        'pragma solidity ^0.8.4;\ncontract Registry { address owner; modifier auth() { require(msg.sender == owner, "no"); _; } function kill() external auth { selfdestruct(payable(owner)); } }\n'
        'contract Timelock { uint delay; modifier auth() { require(delay > 0, "no"); _; } function kill() external auth { selfdestruct(payable(address(0))); } }\n',
        'pragma solidity ^0.8.4;\ncontract Timelock { uint delay; modifier auth() { require(delay > 0, "no"); _; } function kill() external auth { selfdestruct(payable(address(0))); } }\n'
        'contract Registry { address owner; modifier auth() { require(msg.sender == owner, "no"); _; } function kill() external auth { selfdestruct(payable(owner)); } }\n',
        'struct Point { uint128 x; uint256 y; uint128 z; }\npragma solidity 0.8.13;\ncontract Vault { function d(uint amount) public { require(amount > 0, "amount is zero"); } }\n'
        'library Late { function e(uint amount) internal { require(amount > 1, "this message is definitely longer than thirty-two bytes"); } }\n',
        'contract First { struct Order { uint128 a; uint256 b; uint128 c; } }\npragma solidity 0.7.6;\ncontract Second { struct Order { uint128 a; uint128 c; uint256 b; } '
        'function g(uint z) public { require(z > 0, "this message is definitely longer than thirty-two bytes"); } }\n',
        'pragma solidity ^0.8.4;\nenum Side { Buy, Sell }\nstruct Order { Side side; uint256 price; Side closing; }\n'
        'contract Book { enum Kind { A, B } struct Slot { Kind k; uint256 v; Kind j; } Side s; uint256 t; Side u; }\nstruct Late { Kind a; uint256 b; Kind c; }\n',
        'pragma solidity ^0.8.10;\nlibrary Doc {\n  // ' + '\u4ee3\u5e01\u5408\u7ea6' * 30 + '\n  // ' + '\u00e4\u00f6\u00fc\u00df' * 40 + '\n  function id(uint a) internal pure returns (uint) { return a; }\n}\n'
        'contract After {\n  uint x;\n  address o;\n  function f(uint a) public {\n    x = a + 1;\n    if (a >= 2) {\n      x = a * 4;\n    }\n    ++x;\n  }\n  function k() external {\n    selfdestruct(payable(o));\n  }\n}\n',
        'pragma solidity 0.7.6;\ncontract Base { using SafeMath for uint256; uint b0; }\ncontract Reg { address registrar; }\ncontract Vault { uint256 total; uint64 lastUpdate; }\n'
        'interface I { }\ncontract W { bool w1; }\ncontract V2 { uint256 t2; bool u2; }\n',
        'pragma solidity ^0.8.4;\ncontract G2 { function kill() external { selfdestruct(payable(address(0))); } }\n'
        'contract G1 { address o1; modifier onlyOwner() { require(msg.sender == o1); _; } function kill() external onlyOwner { selfdestruct(payable(o1)); } }\n',
    ]
    for i, s in enumerate(fixed):
        files.append({'gen': 'c19:fixed%d' % i, 'src': s})
    pool, by_tag = item_pool(sources)
    tries = 0
    while len(files) < n_files and tries < n_files * 4:
        tries += 1
        f = assemble(rng, pool, by_tag, rng.choice([2, 3, 3, 4, 5]))
        if f and len(f['src']) < 12000:
            files.append(f)
    return files, rng


def run(rep, ctx):
    files, rng = build_files(ctx)
    ps = vlib.ProgSet(files, 'c19').ensure(ctx.harness)
    progs = ps.progs
    log('files', len(files), 'parseable', len(progs))
    whole = ps.run_impl(ctx.harness, walk=False)
    # blanked and reordered variants
    variants = []         # sources
    vmeta = []            # (file index in progs, 'blank', part index k) | (file index, 'reorder', where)
    splits = []
    for fi, p in enumerate(progs):
        its = split(p['src'])
        splits.append(its)
        if not its:
            continue
        prag = [(s, e) for s, e, ip in its if ip]
        for k, (s, e, ip) in enumerate(its):
            if ip:
                continue
            variants.append(sl.blank_except(p['src'], prag + [(s, e)]))
            vmeta.append((fi, 'blank', k))
        s2, where = reorder(p['src'], its, rng)
        variants.append(s2)
        vmeta.append((fi, 'reorder', where))
    vres = run_impl_dir(ctx, variants, 'var')
    by_file = {}
    for (fi, kind, x), r in zip(vmeta, vres):
        by_file.setdefault(fi, {'blank': {}, 'reorder': None})
        if kind == 'blank':
            by_file[fi]['blank'][x] = r
        else:
            by_file[fi]['reorder'] = (x, r)
    # Coq side: shape, hypotheses, model on the whole tree and on every isolate
    exprs = []
    for fi, p in enumerate(progs):
        j = p['j']
        e = ['c19_shape p%d' % j, 'c19_hyps p%d' % j, 'c19_items p%d' % j,
             'check_dets p%d %s' % (j, det_common.impl_dets_expr(whole[fi]))]
        bl = by_file.get(fi, {'blank': {}})['blank']
        ks = sorted(bl)
        iso = []
        for k in ks:
            r = bl[k]
            if r['parse'] != 'ok':
                iso.append('(%d%%N, [999%%N])' % k)
            else:
                iso.append('(%d%%N, c19_iso_check p%d %d%%N %s)' % (k, j, k, det_common.impl_dets_expr(r)))
        e.append(coq_list(iso))
        exprs.append(e)
    vals = ps.coq_eval(exprs, det_common.IMPORTS + ' Patterns Compose Compose1 ComposeCases', 'c19')
    S = []
    M = []
    n_eval = 0
    n_nontrivial = 0
    n_hyp_ok = 0
    n_items_total = 0
    per_det_multi = {n: 0 for n in C19_DETS}
    split_disagree = []
    for fi, (p, v) in enumerate(zip(progs, vals)):
        shape, hyps, items, m_whole, m_iso = v
        its = splits[fi]
        w = whole[fi]
        if its is None:
            continue
        if [bool(x) for x in shape] != [ip for _, _, ip in its]:
            split_disagree.append(fi)
            continue
        if m_whole:
            M.append((fi, 'whole file', [DETS[i] for i in m_whole]))
        for k, mm in m_iso:
            mm = [i for i in mm if i == 999 or DETS[i] not in ()]
            if mm:
                M.append((fi, 'item %d isolated (model: isolate parts %d; implementation: every other item blanked out)' % (k, k),
                          ['blanked file rejected by the parser' if i == 999 else DETS[i] for i in mm]))
        hyp_ok = bool(hyps[0]) and bool(hyps[1]) and len(items) >= 2
        bl = by_file[fi]['blank']
        if any(r['parse'] != 'ok' for r in bl.values()):
            continue
        n_items_total += len(items)
        if not hyp_ok:
            continue
        n_hyp_ok += 1
        multi = False
        for n in C19_DETS:
            n_eval += 1
            a = w['det'][n]
            parts = [bl[k]['det'][n] for k in sorted(bl)]
            if a == 'PANIC' or any(x == 'PANIC' for x in parts):
                if a != 'PANIC':
                    S.append((fi, n, 'isolating an item makes %s panic' % n, None))
                continue
            union = sorted(set(x for q in parts for x in q))
            if sorted(set(a)) != union:
                S.append((fi, n, '%s flags %s in the whole file but the union over the items analysed on their own is %s'
                          % (n, sorted(set(a)), union), None))
                continue
            la = w['lines'][n]
            lparts = [bl[k]['lines'][n] for k in sorted(bl)]
            if la != 'PANIC' and all(x != 'PANIC' for x in lparts):
                lu = sorted(set(x for q in lparts for x in q))
                if la != lu:
                    S.append((fi, n, '%s reports lines %s for the whole file, the union over the items is %s' % (n, la, lu), None))
                    continue
            if sum(1 for q in parts if q) >= 2 and n != 'floating_pragma':
                per_det_multi[n] += 1
                multi = True
        if multi:
            n_nontrivial += 1
        # reordering
        where, rr = by_file[fi]['reorder']
        if rr['parse'] == 'ok':
            for n in C19_DETS:
                if n == 'floating_pragma':
                    continue
                a, b = w['det'][n], rr['det'][n]
                if a == 'PANIC' or b == 'PANIC':
                    if a != b:
                        S.append((fi, n, 'reordering the items makes %s panic' % n, 'reorder'))
                    continue
                for (k, ns) in where:
                    s, e, _ = its[k]
                    if inside(a, s, e) != inside(b, ns, ns + (e - s)):
                        S.append((fi, n, '%s: reordering the items changes what is flagged inside item %d: %s (offsets relative to the item) '
                                  'in the original order, %s after reordering' % (n, k, inside(a, s, e), inside(b, ns, ns + (e - s))), 'reorder'))
                        break
    rep.coverage['evaluations'] = n_eval
    rep.coverage['distinct_nontrivial'] = n_nontrivial
    rep.coverage['files'] = len(progs)
    rep.coverage['files_meeting_hypotheses'] = n_hyp_ok
    rep.coverage['items_isolated'] = n_items_total
    rep.coverage['splitter_disagrees_with_parser'] = len(split_disagree)
    rep.coverage['files_with_findings_in_two_or_more_items_per_detector'] = per_det_multi
    rep.coverage['rule'] = ('multi-item files assembled from 2-4 independent programs (repo test corpus, carriers x contexts, random grammar; identifiers '
                            'renamed per program) + fixed multi-contract shapes; per file and each of the 28 detectors: locations(whole) = union of '
                            'locations(file with every other item blanked, pragmas kept), same for line sets; relative positions of findings inside '
                            'each item unchanged by a random reordering of the items; model on isolate(tree, k) = implementation on the k-th blanked '
                            'file; hypotheses (no_cross_mentions_b, incdec_locs_separate_b) evaluated in Coq on the parsed tree; non-trivial = some '
                            'detector has findings in at least two different items of the file')
    rep.coverage['traces_validated_against_impl'] = len(progs) - len(set(x[0] for x in M))
    rep.coverage['samples'] = [{'file': progs[i]['src'][:400], 'items': [k for k in sorted(by_file[i]['blank'])]}
                               for i in range(0, min(len(progs), 3)) if i in by_file]
    rep.assumptions = ['the parse tree of the blanked file equals `isolate` of the parse tree of the whole file: checked indirectly (model on isolate = '
                       'implementation on the blanked file for all 28 detectors) on every file',
                       'incdec_locs_separate (constructs of different items have different locations) is a fact about parser output; its boolean '
                       'form is evaluated on every parsed file',
                       'the two SafeMath detectors are excluded by the property (file-wide `using` directive)']
    found = False
    seen = set()
    for fi, n, what, kind in S:
        if n in seen or len(seen) >= 4:
            continue
        seen.add(n)
        found = True
        src = progs[fi]['src']

        def still(cands, n=n, kind=kind):
            return fails_batch(ctx, cands, n, kind)
        try:
            small = common.shrink(src, still, max_rounds=6)
        except Exception:
            small = src
        rep.violation(what, {'kind': 'S', 'input': small, 'unshrunk_input': src, 'detector': n, 'mode': kind or 'union',
                             'n_failing': len([1 for x in S if x[1] == n])})
    if not found:
        seenm = set()
        for fi, where_, dets in M:
            key = tuple(dets)
            if key in seenm or len(seenm) >= 3:
                continue
            seenm.add(key)
            rep.violation('model and implementation disagree on %s for %s' % (', '.join(dets), where_),
                          {'kind': 'M', 'input': progs[fi]['src'], 'where': where_, 'detectors': dets,
                           'model_function': 'Detectors.* on Compose.isolate', 'rust_function': 'solstat::analyzer::*'}, no_input=True)
            found = True
        if split_disagree and len(split_disagree) > len(progs) // 10:
            rep.violation('the item splitter of the check disagrees with the parser on %d files' % len(split_disagree),
                          {'kind': 'M', 'input': progs[split_disagree[0]]['src']}, no_input=True)
            found = True
    common.finish_proof_status(rep, ctx, found)


def one_file_fails(ctx_harness, src, n, kind, rng):
    its = split(src)
    if not its or sum(1 for _, _, ip in its if not ip) < 2:
        return None
    prag = [(s, e) for s, e, ip in its if ip]
    vs = [src] + [sl.blank_except(src, prag + [(s, e)]) for (s, e, ip) in its if not ip]
    return vs, its


def fails_batch(ctx, cands, n, kind):
    """for the shrinker: does candidate still violate composition for detector n (union mode only)?"""
    out = []
    allsrc = []
    idx = []
    for c in cands:
        x = one_file_fails(ctx.harness, c, n, kind, None)
        if x is None:
            idx.append(None)
            continue
        vs, its = x
        idx.append((len(allsrc), len(vs)))
        allsrc += vs
    res = run_impl_dir(ctx, allsrc, 'shrink') if allsrc else []
    for c, ix in zip(cands, idx):
        if ix is None or kind == 'reorder':
            out.append(False)
            continue
        a, m = ix
        rs = res[a:a + m]
        if any(r['parse'] != 'ok' for r in rs):
            out.append(False)
            continue
        w = rs[0]['det'][n]
        parts = [r['det'][n] for r in rs[1:]]
        if w == 'PANIC' or any(q == 'PANIC' for q in parts):
            out.append(w != 'PANIC' and any(q == 'PANIC' for q in parts))
            continue
        out.append(sorted(set(w)) != sorted(set(x for q in parts for x in q)))
    return out


def replay(obj):
    ctx = common.Ctx()
    ctx.harness = vlib.build_harness()
    src = obj['input']
    its = split(src)
    print('file:\n' + src[:3000])
    if not its:
        print('cannot split')
        return 1
    prag = [(s, e) for s, e, ip in its if ip]
    ks = [k for k, (s, e, ip) in enumerate(its) if not ip]
    vs = [src] + [sl.blank_except(src, prag + [its[k][:2]]) for k in ks]
    res = run_impl_dir(ctx, vs, 'replay')
    dets = [obj['detector']] if obj.get('detector') else C19_DETS
    for n in dets:
        print(n, 'whole file:', res[0]['det'].get(n), 'lines', res[0]['lines'].get(n))
        for k, r in zip(ks, res[1:]):
            print('   item %d alone:' % k, r['det'].get(n), 'lines', r['lines'].get(n))
    return 0
