"""C11 - the report lists exactly the findings, each under its own pattern's section; reading the
entries back reproduces the findings.

Decided by: theorems report_roundtrip / report_entries_exact / section_iff_findings (props/C11.v) about
the model coq/model/Report.v and the independent reader coq/spec/ReportReader.v, with the finite side
conditions re-established by vm_compute over the regenerated section texts (gen/Sections.v);
correspondence: the real generate_*_report on generated findings maps, byte for byte against the model,
and the reader evaluated on the implementation's actual output."""
import random
import vlib
from vlib import log
from checks import common
from checks import report_common as rc

S_CODES = {3, 11, 12, 13}


def theorem_of(key):
    return {11: 'report_entries_exact / report_roundtrip', 12: 'section_iff_findings', 13: 'report_roundtrip'}.get(
        sorted(key)[0] if key else 0, 'report_roundtrip')


def build_cases(ctx):
    rng = random.Random(ctx.seed * 1000003 + 11)
    if ctx.tier == 'quick':
        cases = rc.standard_cases(rng, n_opt_random=40, n_all=12, reps=2)
    else:
        cases = rc.standard_cases(rng, n_opt_random=400, n_all=120, reps=12)
    return rc.corpus_cases('C11') + rc.corpus_cases('C12') + rc.corpus_cases('C13') + cases + rc.big_cases(rng) + rc.ood_cases(rng)


def run(rep, ctx):
    cases = build_cases(ctx)
    outs, codes = rc.evaluate(ctx, cases, 'c11')
    log('evaluated', len(cases), 'findings maps')
    # the real generate_report (writes solstat_report.md in a scratch cwd) against the concatenation used above
    import os, shutil
    d = os.path.join(vlib.CACHE, 'report-cwd', 'c11-%d' % os.getpid())
    alls = [c for c in cases if c['mode'] == 'all']
    filecases = []
    for c in alls:
        fc = dict(c)
        fc['mode'] = 'allfile'
        fc['dir'] = d
        filecases.append(fc)
    # the same with a long report of an earlier run already present in the working directory
    stalecases = []
    for c in alls:
        fc = dict(c)
        fc['mode'] = 'allfilestale'
        fc['dir'] = d
        stalecases.append(fc)
    fouts = rc.run_impl_batch(rc.vh_report(ctx), filecases) if filecases else []
    souts = rc.run_impl_batch(rc.vh_report(ctx), stalecases) if stalecases else []
    shutil.rmtree(d, ignore_errors=True)
    all_outs = [o for c, o in zip(cases, outs) if c['mode'] == 'all']
    file_mismatch = [c for c, a, b in zip(alls, all_outs, fouts) if a != b]
    stale_bad = [(c, b) for c, a, b in zip(alls, all_outs, souts) if a != b]
    rc.fill_coverage(rep, cases, outs, codes, S_CODES,
                     'findings maps: every subset of the 4 vulnerabilities and of the 3 QA patterns, every single optimization, all 23 '
                     'together, random subsets of the optimizations, whole reports for every combination of empty/non-empty categories; '
                     '0-6 files per pattern (names with ":", blanks, "- ", "#", "### Lines", headings, Unicode, repeated names), line sets of '
                     '1-40 numbers incl. 0, negatives and i32 extremes; plus out-of-hypothesis maps (empty vectors / line sets, LF in names) '
                     'for model = implementation only.  Non-trivial = well-formed map with >= 2 entries.  For each: implementation bytes = '
                     'model bytes, and on the implementation bytes: reader(report) = findings (multiset), key line present <-> pattern has a '
                     'finding, entries contiguous per pattern',
                     {'generate_report_file_vs_concatenation': {'cases': len(filecases), 'mismatches': len(file_mismatch)},
                      'report_file_over_stale_longer_report': {'cases': len(stalecases), 'mismatches': len(stale_bad)}})

    def fails_spec(cands, key):
        return [bool(set(k) & key) for k in rc.evaluate(ctx, cands, 'shrink-c11')[1]]
    found = rc.report_failures(rep, ctx, 'C11', cases, outs, codes, S_CODES, fails_spec, theorem_of)
    if stale_bad and not file_mismatch:
        # the file written over an older, longer report is not the report of this run: the reader is evaluated on it
        c, b = max(stale_bad, key=lambda cb: sum(len(v) for m in cb[0]['maps'].values() for p, v in m))
        fc = dict(c)
        fc['mode'] = 'allfilestale'
        fc['dir'] = d
        so, sc = rc.evaluate(ctx, [fc], 'stale-c11')
        shutil.rmtree(d, ignore_errors=True)
        is_s = bool(set(sc[0]) & S_CODES)
        found = found or is_s
        rep.violation('solstat_report.md written in a directory that already holds a longer report of an earlier run is not the report of '
                      'this run' + (': it does not list exactly the findings (entries of the earlier report remain)' if is_s else ''),
                      {'kind': 'S' if is_s else 'M', 'input': fc, 'failed_sub_checks': sc[0], 'stale_report': 'generate_report is first run in the same directory on a map with 60 files for every pattern', 'theorem': 'report_entries_exact',
                       'n_failing': len(stale_bad)}, no_input=not is_s)
    if file_mismatch and not found:
        # generate_report (the file written) is not the concatenation of the three generators: the reader is evaluated on the file
        c = max(file_mismatch, key=lambda c0: sum(len(v) for m in c0['maps'].values() for p, v in m))
        fc = dict(c)
        fc['mode'] = 'allfile'
        fc['dir'] = d
        so, sc = rc.evaluate(ctx, [fc], 'file-c11')
        shutil.rmtree(d, ignore_errors=True)
        is_s = bool(set(sc[0]) & S_CODES)
        found = found or is_s
        rep.violation('generate_report (file written) differs from the concatenation of the three generators that the model describes'
                      + (': the file does not list exactly the findings' if is_s else ''),
                      {'kind': 'S' if is_s else 'M', 'input': fc, 'failed_sub_checks': sc[0], 'model_function': 'Report.generate_report',
                       'rust_function': 'report::generation::generate_report', 'n_failing': len(file_mismatch)}, no_input=not is_s)
    common.finish_proof_status(rep, ctx, found)


def replay(obj):
    ctx, case, out, codes = rc.replay_common('C11', obj, S_CODES)
    return 1 if codes else 0
