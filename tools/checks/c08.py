import random
from checks import det_check
import gen_programs as gp


def run(rep, ctx):
    rng = random.Random(ctx.seed * 811 + 8)
    extra = gp.c08_scenarios(rng, 250 if ctx.tier == 'quick' else 2500)
    det_check.run(rep, ctx, 'C08', extra_progs=extra,
                  rule_extra=', write scenarios (state variables of 12 types x constructor assignment x 15 write forms x place of the '
                             'write: same / derived / other contract, function / constructor / modifier / fallback / library / free function, '
                             'direct or nested)')


def replay(obj):
    return det_check.replay('C08', obj)
