from checks import det_check


def run(rep, ctx):
    det_check.run(rep, ctx, 'C08')


def replay(obj):
    return det_check.replay('C08', obj)
