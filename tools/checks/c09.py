from checks import det_check, common
import vlib
from vlib import log

BODY = ('library SafeMath { function add(uint a, uint b) internal pure returns (uint) { return a + b; } }\n'
        'contract A {\n  %s\n  uint total;\n  function f(uint z) public returns (uint) {\n'
        '    require(z > 0, "short");\n    require(z < 100, "this message is exactly 32 bytes");\n'
        '    require(z != 7, "this message is longer than thirty-two bytes for sure");\n    require(z != 8);\n'
        '    total = total.add(z).sub(1);\n    return z.mul(2).div(3) + z.mod(5);\n  }\n}\n')


def version_programs(ctx):
    import random
    rng = random.Random(ctx.seed * 101 + 3)
    triples = [(0, 0, 0), (0, 4, 26), (0, 5, 17), (0, 6, 12), (0, 7, 6), (0, 7, 99), (0, 8, 0), (0, 8, 1), (0, 8, 3), (0, 8, 4),
               (0, 8, 5), (0, 8, 10), (0, 8, 40), (0, 9, 0), (0, 9, 3), (0, 10, 0), (0, 12, 4), (1, 0, 0), (1, 0, 4), (1, 2, 40), (1, 8, 3),
               (2, 0, 0), (0, 8, 2147483647), (2147483647, 0, 0)]
    if ctx.tier != 'quick':
        triples = [(a, b, c) for a in (0, 1) for b in range(0, 13) for c in (0, 3, 4, 5, 40)] + triples
    ops = ['', '^', '~', '=', '>=', '>', '>= ', '^ ']
    places = [('', ''), ('pragma abicoder v2;\n', ''), ('', 'pragma experimental ABIEncoderV2;\n'),
              ('pragma experimental ABIEncoderV2;\npragma abicoder v2;\n', 'pragma abicoder v1;\n')]
    usings = ['using SafeMath for uint;', 'using SafeMath for uint256;', '', 'using Other for uint;']
    out = []
    for (a, b, c) in triples:
        for op in (ops if ctx.tier != 'quick' else rng.sample(ops, 3)):
            before, after = rng.choice(places)
            u = rng.choice(usings)
            out.append({'gen': 'version:%d.%d.%d:%s' % (a, b, c, op),
                        'src': '%spragma solidity %s%d.%d.%d;\n%s%s' % (before, op, a, b, c, after, BODY % u)})
    # out of hypothesis (no S check, model = implementation still required)
    for v in ['>=0.7.0 <0.9.0', '0.8', '*', '0.8.x', '^0.8.4 || ^0.7.0', '0.8..4', '0.8.99999999999', '00.08.004']:
        out.append({'gen': 'version-ood:' + v, 'src': 'pragma solidity %s;\n%s' % (v, BODY % usings[0])})
    out.append({'gen': 'version-ood:two', 'src': 'pragma solidity 0.7.0;\npragma solidity 0.8.10;\n' + BODY % usings[0]})
    out.append({'gen': 'version-ood:none', 'src': BODY % usings[0]})
    return out


def run(rep, ctx):
    # version strings: scanner + i32 parsing, implementation vs model (builder-utils' stream)
    from checks import version_common as vc
    gaps = []
    mism = vc.check_version_strings(ctx, vc.standard_strings() + vc.scanner_strings(6 if ctx.tier == 'quick' else 7), gaps_out=gaps)
    rep.coverage['version_strings'] = {'compared': len(vc.standard_strings()) + len(vc.scanner_strings(6 if ctx.tier == 'quick' else 7)),
                                       'mismatches': len(mism), 'unicode_digit_gap_strings': len(gaps)}
    for m in mism[:2]:
        rep.violation('get_solidity_major_minor_patch_version / parse::<i32> differ from the model on %r' % m.get('string'),
                      {'kind': 'M', 'input': m, 'correspondence': {'model_function': 'Utils.get_solidity_major_minor_patch_version',
                                                                   'rust_function': 'utils::get_solidity_major_minor_patch_version'}},
                      no_input=True)
    det_check.run(rep, ctx, 'C09', extra_progs=version_programs(ctx),
                  rule_extra='; plus version triples (boundaries around 0.8.0 / 0.8.4, 0.9.0, 1.0.0, i32 max) x operator spellings x '
                             'placements of abicoder/experimental pragmas x SafeMath usings, and version strings for the scanner')


def replay(obj):
    return det_check.replay('C09', obj)
