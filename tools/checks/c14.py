"""C14 - configuration selects exactly the named patterns and the named directory.

Decided by: the theorems of coq/props/C14.v over the name tables regenerated from the source
(gen/Names.v) and the model of str_to_* / Opts::new (model/Opts.v).  This check ties model and
implementation:
  1. names    every documented / sample-toml / table name x many letter casings, and 200+ unknown
              spellings, through the real str_to_* (vharness util name) and through the model
              (vm_compute); the specification clauses (accepted, case-insensitive, injective,
              defaults selectable, unknown rejected) are evaluated on the implementation's answers;
  2. link     what a NAME selects is the detector of that name: analyze_for_*(src, str_to_*(name))
              against the detector function of the module of that name, on the corpus;
  3. runs     the real solstat binary in scratch directories: --path present/absent x --toml
              (valid / unknown name / unreadable / unparsable / absent) x ./contracts present/absent;
              exit status, stderr, whether solstat_report.md was written, which directory was read
              (a differently named file in each candidate directory) and which patterns ran
              (report sections), against Opts.resolve and against the statement's clauses."""
import os, sys, re, json, random, shutil, subprocess, hashlib
import vlib
from vlib import log
from checks import common
import names2coq
import gen_programs as gp

CATS = ['opt', 'vul', 'qa']
TOML_KEY = {'opt': 'optimizations', 'vul': 'vulnerabilities', 'qa': 'qa'}
SITES = ['Could not', 'Unrecgonized optimization', 'Unrecgonized vulnerability', 'Unrecgonized qa']
SCRATCH = os.path.join(vlib.CACHE, 'opts')
PRELUDE = 'pragma solidity ^0.8.10;\n'
TRIVIAL = PRELUDE + 'contract C { }\n'


def hexs(s):
    return s.encode('utf-8').hex()


def coq_s(s):
    b = s.encode('utf-8')
    if all(32 <= x < 127 for x in b):
        return '"' + s.replace('"', '""') + '"'
    return '(bytes_to_string [%s])' % '; '.join(str(x) for x in b)


def ascii_lower(s):
    return ''.join(chr(ord(c) + 32) if 'A' <= c <= 'Z' else c for c in s)


GAP = {}      # non-ASCII character -> its all-ASCII lower-case form (exhaustive over Unicode, from the implementation)


def load_gap(ctx):
    if not GAP:
        line = [l for l in vnames(ctx, ['lowercheck']) if l.startswith('lowercheck')][0]
        for item in line.split(' ')[1:]:
            cp, low = item.split(':')
            GAP[chr(int(cp, 16))] = bytes.fromhex(low).decode('ascii')
    return GAP


def in_unicode_gap(s, known_lower):
    """the stated gap of the model: a spelling with a non-ASCII character whose lower-case form (str::to_lowercase)
    is made of ASCII characters - U+212A KELVIN SIGN -> k is the only one, established exhaustively by `vnames lowercheck` -
    and which lower-cases to a table name"""
    if not any(c in GAP for c in s):
        return False
    return ascii_lower(''.join(GAP.get(c, c) for c in s)) in known_lower


# ----------------------------------------------------------------------------- spellings
def casings(name, rng):
    out = [('lower', name.lower()), ('upper', name.upper()), ('title', name.title()),
           ('alternating', ''.join(c.upper() if i % 2 else c.lower() for i, c in enumerate(name))),
           ('alternating2', ''.join(c.lower() if i % 2 else c.upper() for i, c in enumerate(name))),
           ('as-written', name)]
    for k in range(64):
        mask = rng.getrandbits(len(name) + 1)
        out.append(('mask%d' % k, ''.join(c.upper() if (mask >> i) & 1 else c.lower() for i, c in enumerate(name))))
    # only ASCII letters change case in these names; keep it that way for exotic doc names
    return [(k, s) for k, s in out if ascii_lower(s) == ascii_lower(name)]


LOOKALIKE = {'a': '\u0430', 'e': '\u0435', 'o': '\u043e', 'c': '\u0441', 'p': '\u0440', 's': '\u017f', 'i': '\u0131',
             'k': '\u212a', 'x': '\u0445', 'y': '\u0443'}


def unknown_spellings(T, rng, n_total):
    """near misses of the known names; (category, tag, spelling)"""
    out = []
    for cat in CATS:
        known = sorted(set(T[cat]['doc']) | set(T[cat]['toml']) | set(n for n, _ in T[cat]['table']))
        other = [n for c2 in CATS if c2 != cat for n, _ in T[c2]['table']]
        out += [(cat, 'empty', ''), (cat, 'space', ' '), (cat, 'underscore', '_'), (cat, 'star', '*'), (cat, 'all', 'all'),
                (cat, 'enum-name', T[cat]['enum']), (cat, 'nul', '\0')]
        for v in T[cat]['variants'][:6]:
            out.append((cat, 'variant-name', v))          # "AddressBalance" is not "address_balance"
        for n in other[:8]:
            out.append((cat, 'other-category', n))
        for n in known:
            i = rng.randrange(len(n))
            cands = [('missing-char', n[:i] + n[i + 1:]), ('extra-char', n[:i] + rng.choice('abcxyz_0') + n[i:]),
                     ('trailing-space', n + ' '), ('leading-space', ' ' + n), ('trailing-newline', n + '\n'),
                     ('swap', n[:i] + n[i + 1:i + 2] + n[i:i + 1] + n[i + 2:]), ('dash', n.replace('_', '-')),
                     ('no-underscore', n.replace('_', '')), ('plural', n + 's'), ('singular', n[:-1]),
                     ('doubled', n + n), ('trailing-underscore', n + '_'), ('dot-rs', n + '.rs'),
                     ('upper+space', n.upper() + ' ')]
            letters = [j for j, ch in enumerate(n) if ch in LOOKALIKE]
            if letters:
                j = rng.choice(letters)
                cands.append(('look-alike', n[:j] + LOOKALIKE[n[j]] + n[j + 1:]))
            if 'k' in n:
                j = n.index('k')
                cands.append(('kelvin-sign', n[:j] + '\u212a' + n[j + 1:]))
            if 'i' in n:
                j = n.index('i')
                cands.append(('dotted-capital-I', n[:j] + '\u0130' + n[j + 1:]))
            if 's' in n:
                j = n.index('s')
                cands.append(('long-s', n[:j] + '\u017f' + n[j + 1:]))
            for tag, s in cands:
                out.append((cat, tag, s))
    # drop those that are (a casing of) a known name after all
    res = []
    seen = set()
    for cat, tag, s in out:
        known_lower = set(n for n, _ in T[cat]['table']) | set(ascii_lower(x) for x in T[cat]['doc'] + T[cat]['toml'])
        if ascii_lower(s) in known_lower or (cat, s) in seen:
            continue
        seen.add((cat, s))
        res.append((cat, tag, s))
    # keep every tag represented: stable shuffle inside, then cut
    rng.shuffle(res)
    res.sort(key=lambda x: 0 if x[1] in ('kelvin-sign', 'dotted-capital-I', 'long-s', 'look-alike', 'empty',
                                         'trailing-space', 'missing-char', 'extra-char') else 1)
    return res[:max(n_total, 200)]


# ----------------------------------------------------------------------------- implementation / model
def impl_names(harness, items):
    """items: (cat, spelling) -> 'PANIC' | variant name"""
    inp = ''.join('name %s %s\n' % (c, hexs(s)) for c, s in items)
    p = subprocess.run([harness, 'util'], input=inp, stdout=subprocess.PIPE, stderr=subprocess.DEVNULL, text=True,
                       timeout=600)
    lines = p.stdout.split('\n')
    if p.returncode != 0 or len(lines) < len(items):
        raise vlib.BuildError('vharness util name failed (rc=%s)' % p.returncode)
    out = []
    for l in lines[:len(items)]:
        out.append('PANIC' if l == 'PANIC' else l.split(' ', 1)[1])
    return out


def model_names(T, items, tag='c14n'):
    """items: (cat, spelling) -> None | variant name, by vm_compute of Opts.str_to over gen/Names.v"""
    shards = []
    per = max(1, (len(items) + vlib.NPROC - 1) // vlib.NPROC)
    for k in range(0, len(items), per):
        sh = []
        chunk = items[k:k + per]
        for j in range(0, len(chunk), 50):
            sh.append(('eval', '[%s]' % '; '.join('opt_code (str_to cat_%s %s)' % (c, coq_s(s)) for c, s in chunk[j:j + 50])))
        shards.append(sh)
    vals = vlib.coq_eval_plain(shards, 'Res Names Opts', tag)
    flat = [x for sh in vals for lst in sh for x in lst]
    if len(flat) != len(items):
        raise vlib.BuildError('model_names: %d values for %d items' % (len(flat), len(items)))
    out = []
    for (c, s), v in zip(items, flat):
        out.append(None if v == 0 else T[c]['variants'][v - 1])
    return out


def vnames_bin(ctx):
    return vlib.need_bin('vnames')


def vnames(ctx, lines):
    p = subprocess.run([vnames_bin(ctx)], input='\n'.join(lines) + '\n', stdout=subprocess.PIPE,
                       stderr=subprocess.DEVNULL, text=True, timeout=900)
    if p.returncode != 0:
        raise vlib.BuildError('vnames failed rc=%s' % p.returncode)
    return p.stdout.split('\n')


def select_all(ctx, T, srcs):
    """for every table name and every source: (variant, lines via str_to+analyze_for, lines via the detector
    of that name called directly, first line of the report section).  dict (cat, name) -> list per source"""
    reqs = []
    keys = []
    for cat in CATS:
        for n, _ in T[cat]['table']:
            for s in srcs:
                reqs.append('sel %s %s %s' % (cat, hexs(n), hexs(s)))
                keys.append((cat, n))
    out = vnames(ctx, reqs)
    res = {}
    for (cat, n), l in zip(keys, out):
        f = l.split(' ')
        res.setdefault((cat, n), []).append(None if f[0] != 'ok' else
                                            {'variant': f[1], 'lines': f[2], 'direct': f[3],
                                             'section': bytes.fromhex(f[4]).decode('utf-8') if f[4] != 'PANIC' else 'PANIC'})
    return res


# ----------------------------------------------------------------------------- part 1: names
def part_names(rep, ctx, T):
    rng = random.Random(ctx.seed * 1000003 + 14)
    found = False
    load_gap(ctx)
    items = []      # (cat, origin-name, tag, spelling, documented?)
    for cat in CATS:
        documented = list(dict.fromkeys(T[cat]['doc'] + T[cat]['toml']))
        names = list(dict.fromkeys(documented + [n for n, _ in T[cat]['table']]))
        for n in names:
            for tag, s in casings(n, rng):
                items.append((cat, n, tag, s, n in documented))
    unknown = unknown_spellings(T, rng, 200 if ctx.tier == 'quick' else 600)
    q = [(c, s) for c, n, t, s, d in items] + [(c, s) for c, t, s in unknown]
    impl = impl_names(ctx.harness, q)
    try:
        model = model_names(T, q)
    except vlib.BuildError as e:      # gen/Names.v or model/Opts.v does not compile: the spec clauses below still run
        log('model evaluation unavailable:', str(e)[:300])
        model = None
    n_known = len(items)
    # --- specification on the implementation's answers
    by_name = {}
    for (c, n, t, s, d), a in zip(items, impl[:n_known]):
        by_name.setdefault((c, n), []).append((t, s, a, d))
    reported = set()
    for (c, n), lst in by_name.items():
        documented = lst[0][3]
        rejected = [(t, s) for t, s, a, d in lst if a == 'PANIC']
        if documented and rejected and (c, n, 'rej') not in reported:
            reported.add((c, n, 'rej'))
            t, s = rejected[0]
            found = True
            src = 'docs/identified-*.md' if n in T[c]['doc'] else 'Solstat.toml'
            rep.violation('the documented %s name %r (%s) is rejected by %s (spelling %r; %d of %d casings rejected)'
                          % (c, n, src, T[c]['fns'][1], s, len(rejected), len(lst)),
                          {'kind': 'S', 'sub': 'name', 'category': c, 'input': s, 'documented_name': n, 'casing': t,
                           'impl': 'PANIC', 'spec': 'every documented name is accepted in every letter casing',
                           'theorem': 'doc_names_accepted'})
        answers = sorted(set(a for t, s, a, d in lst))
        if len(answers) > 1 and not (documented and rejected):
            found = True
            t1, s1, a1, _ = lst[0]
            t2, s2, a2, _ = [x for x in lst if x[2] != a1][0]
            rep.violation('letter case changes what the %s name %r selects: %r -> %s, %r -> %s' % (c, n, s1, a1, s2, a2),
                          {'kind': 'S', 'sub': 'name-pair', 'category': c, 'input': s2, 'input2': s1, 'impl': a2, 'impl2': a1,
                           'spec': 'names are accepted regardless of letter case', 'theorem': 'case_insensitive'})
    # injectivity over the documented names
    for c in CATS:
        sel = {}
        for (c2, n), lst in by_name.items():
            if c2 == c and lst[0][3] and lst[0][2] != 'PANIC':
                sel.setdefault(lst[0][2], set()).add(ascii_lower(n))
        for v, ns in sel.items():
            if len(ns) > 1:
                found = True
                a, b = sorted(ns)[:2]
                rep.violation('distinct documented %s names %r and %r select the same pattern %s' % (c, a, b, v),
                              {'kind': 'S', 'sub': 'name-pair', 'category': c, 'input': a, 'input2': b, 'impl': v, 'impl2': v,
                               'spec': 'distinct documented names select distinct patterns', 'theorem': 'doc_names_injective'})
    # defaults selectable / all patterns are defaults
    allv = {}
    for l in vnames(ctx, ['all'])[:3]:
        f = l.split(' ')
        allv[f[1]] = f[2:]
    for c in CATS:
        selectable = set(lst[0][2] for (c2, n), lst in by_name.items() if c2 == c and lst[0][3])
        for v in allv[c]:
            if v not in selectable:
                found = True
                rep.violation('the default %s pattern %s cannot be selected by any documented name' % (c, v),
                              {'kind': 'S', 'sub': 'default', 'category': c, 'input': v, 'spec': 'every pattern that runs by default can be selected by name',
                               'theorem': 'defaults_selectable'})
        if [T[c]['variants'][i] for i in T[c]['get_all']] != allv[c]:
            found = True
            rep.violation('%s() returns %s, the regenerated table says %s' % (T[c]['fns'][0], allv[c], [T[c]['variants'][i] for i in T[c]['get_all']]),
                          {'kind': 'M', 'sub': 'default', 'category': c, 'model_function': 'Names.get_all', 'rust_function': T[c]['fns'][0]},
                          no_input=True)
        missing = [v for v in T[c]['variants'] if v not in allv[c]]
        if missing:
            found = True
            rep.violation('%s patterns %s do not run by default' % (c, missing),
                          {'kind': 'S', 'sub': 'default', 'category': c, 'input': missing[0], 'spec': 'without a configuration file all patterns are analysed',
                           'theorem': 'defaults_all'})
    # unknown names
    gap = 0
    n_unknown_rejected = 0
    for (c, t, s), a in zip(unknown, impl[n_known:]):
        known_lower = set(n for n, _ in T[c]['table'])
        if in_unicode_gap(s, known_lower):
            gap += 1
            continue
        if a != 'PANIC':
            found = True
            rep.violation('the unknown %s name %r (%s) is accepted as %s' % (c, s, t, a),
                          {'kind': 'S', 'sub': 'name', 'category': c, 'input': s, 'impl': a, 'spec': 'an unknown name makes the run fail',
                           'theorem': 'unknown_fails_early'})
        else:
            n_unknown_rejected += 1
    # --- model = implementation
    mism = 0
    if model is not None:
        allq = [(c, s) for c, n, t, s, d in items] + [(c, s) for c, t, s in unknown]
        for (c, s), a, m in zip(allq, impl, model):
            if in_unicode_gap(s, set(n for n, _ in T[c]['table'])):
                continue
            if (a == 'PANIC') != (m is None) or (m is not None and a != m):
                mism += 1
                if mism <= 2 and not found:
                    rep.violation('%s(%r) = %s but the model says %s' % (T[c]['fns'][1], s, a, m),
                                  {'kind': 'M', 'sub': 'name', 'category': c, 'input': s, 'impl': a, 'model': m,
                                   'model_function': 'Opts.str_to', 'rust_function': T[c]['fns'][1]}, no_input=True)
        if mism:
            found = True
    stats = {'name_spellings_known': n_known, 'unknown_spellings': len(unknown), 'unknown_rejected': n_unknown_rejected,
             'unicode_gap_spellings_skipped': gap, 'model_vs_impl_mismatches': mism,
             'model_evaluated': model is not None,
             'non_ascii_characters_with_ascii_lowercase': ['U+%04X -> %s' % (ord(k), v) for k, v in sorted(GAP.items())],
             'unknown_tags': sorted(set(t for c, t, s in unknown))}
    return found, stats, len(q), [{'category': c, 'name': n, 'casing': t, 'spelling': s, 'impl': a}
                                  for (c, n, t, s, d), a in list(zip(items, impl))[:: max(1, n_known // 3)][:3]] + \
        [{'category': c, 'unknown': s, 'tag': t, 'impl': a} for (c, t, s), a in list(zip(unknown, impl[n_known:]))[:2]]


# ----------------------------------------------------------------------------- part 2: a name selects the detector of that name
def pick_sources(ctx, T):
    """corpus sources (with a pragma put in front when they have none) on which no pattern panics,
    with what every pattern reports on them"""
    cands = [TRIVIAL]
    for p in gp.corpus():
        s = p['src']
        cands.append(s)
        if 'pragma solidity' not in s:
            cands.append(PRELUDE + s)
    cands = list(dict.fromkeys(cands))
    sel = select_all(ctx, T, cands)
    return cands, sel


def part_link(rep, ctx, T, cands, sel):
    found = False
    n = 0
    nontrivial = 0
    for (cat, name), lst in sel.items():
        for src, r in zip(cands, lst):
            if r is None:
                continue      # table name rejected: reported by part 1
            n += 1
            if src == TRIVIAL and (r['lines'] == 'PANIC' or r['section'] == 'PANIC') and not found:
                found = True
                rep.violation('the %s name %r selects %s, for which %s panics on a trivial contract'
                              % (cat, name, r['variant'], 'analyze_for_*' if r['lines'] == 'PANIC' else 'get_*_report_section'),
                              {'kind': 'S', 'sub': 'link', 'category': cat, 'input': name, 'source': src, 'impl': 'PANIC',
                               'spec': 'every selectable pattern is dispatched (no reachable `_ => panic!`)', 'theorem': 'dispatch_total'})
            if r['direct'] == 'nodet':
                continue
            if r['direct'] not in ('-', 'PANIC'):
                nontrivial += 1
            if r['lines'] != r['direct'] and not found:
                found = True
                rep.violation('the %s name %r selects %s, which reports lines %s; the detector of that name reports %s'
                              % (cat, name, r['variant'], r['lines'], r['direct']),
                              {'kind': 'S', 'sub': 'link', 'category': cat, 'input': name, 'source': src, 'impl': r['lines'],
                               'spec_expected': r['direct'], 'spec': 'with a configuration file exactly the listed patterns are analysed',
                               'theorem': 'selection_exact'})
    return found, n, nontrivial


# ----------------------------------------------------------------------------- part 3: the binary
def cover_files(T, cands, sel, max_files=6):
    """greedy choice of sources that together trigger as many patterns as possible; no pattern may panic on them"""
    ok = []
    for i, s in enumerate(cands):
        rs = [lst[i] for lst in sel.values()]
        if all(r is not None and r['lines'] != 'PANIC' and r['direct'] != 'PANIC' for r in rs):
            ok.append(i)
    trig = {i: set(k for k, lst in sel.items() if lst[i]['direct'] not in ('-', 'nodet')) for i in ok}
    chosen = []
    covered = set()
    while len(chosen) < max_files:
        best = max(ok, key=lambda i: (len(trig[i] - covered), -i), default=None)
        if best is None or not (trig[best] - covered):
            break
        chosen.append(best)
        covered |= trig[best]
    return chosen, covered


class Scenario:
    def __init__(self, k):
        self.k = k
        self.flag = None          # None | 'pa' | 'missing'
        self.toml = None          # None | dict(kind=..., path=..., lists={cat: [names]})
        self.contracts = True
        self.stale = False        # a report left by a previous run
        self.toml_dir = ''        # directory (relative to the working directory) in which the configuration file lies
        self.stray = False        # a file named Solstat.toml lies in the working directory although --toml is not passed

    def describe(self):
        return {'flag_path': self.flag, 'toml': self.toml, 'contracts_dir_present': self.contracts, 'stale_report': self.stale,
                'toml_dir': self.toml_dir, 'stray_Solstat_toml_in_cwd': self.stray}


def toml_text(t):
    def arr(xs):
        return '[' + ', '.join(json.dumps(x, ensure_ascii=False) for x in xs) + ']'
    if t['kind'] == 'syntax':
        return 'path = "./tb"\noptimizations = ["sstore"\nvulnerabilities = []\nqa = []\n'
    lines = ['# generated by tools/checks/c14.py']
    if t['kind'] != 'nopath':
        lines.append('path = %s' % json.dumps(t['path']))
    lines.append('optimizations = %s' % arr(t['lists']['opt']))
    lines.append('vulnerabilities = %s' % arr(t['lists']['vul']))
    if t['kind'] != 'missingkey':
        lines.append('qa = %s' % arr(t['lists']['qa']))
    return '\n'.join(lines) + '\n'


def oracle_toml(t):
    """what serde/toml make of the file: None = cannot be read / is not a SolstatToml"""
    if t is None or t['kind'] in ('syntax', 'missingkey', 'nofile', 'nopath'):
        return None
    import tomllib
    d = tomllib.loads(toml_text(t))
    assert d['path'] == t['path'] and d['optimizations'] == t['lists']['opt']
    return t


def random_lists(T, rng, unknown_in=None, empty=False):
    lists = {}
    for c in CATS:
        names = [n for n, _ in T[c]['table']]
        if empty:
            lists[c] = []
            continue
        k = rng.choice([0, 1, 2, len(names) // 2, len(names)]) if len(names) > 2 else rng.randrange(len(names) + 1)
        pick = rng.sample(names, min(k, len(names)))
        if pick and rng.random() < 0.15:
            pick.insert(rng.randrange(len(pick) + 1), rng.choice(pick))     # a repeated name
        lists[c] = [''.join(ch.upper() if rng.random() < 0.3 else ch for ch in n) for n in pick]
    if unknown_in:
        bad = rng.choice(['sstor', 'not_a_pattern', '', 'sstore ', 'floating-pragma', 'string_error_'])
        lists[unknown_in].insert(rng.randrange(len(lists[unknown_in]) + 1), bad)
    return lists


def scenarios(T, rng, n_random):
    out = []

    def add(flag, toml, contracts, stale=False):
        s = Scenario(len(out))
        s.flag, s.toml, s.contracts, s.stale = flag, toml, contracts, stale
        out.append(s)
    tomls = [None,
             {'kind': 'valid', 'path': './tb', 'lists': random_lists(T, rng)},
             {'kind': 'valid', 'path': 'tb', 'lists': random_lists(T, rng)},
             {'kind': 'valid', 'path': '@ABS@/tb', 'lists': random_lists(T, rng)},
             {'kind': 'valid', 'path': './contracts', 'lists': random_lists(T, rng)},
             {'kind': 'valid', 'path': './nowhere', 'lists': random_lists(T, rng)},
             {'kind': 'valid', 'path': './TB', 'lists': random_lists(T, rng)},
             {'kind': 'valid', 'path': './Src/Core', 'lists': random_lists(T, rng)},
             {'kind': 'valid', 'path': './tb', 'lists': random_lists(T, rng, empty=True)},
             {'kind': 'valid', 'path': './tb', 'lists': {c: [n for n, _ in T[c]['table']] for c in CATS}},
             {'kind': 'valid', 'path': './tb', 'lists': {c: [n.upper() for n, _ in reversed(T[c]['table'])] for c in CATS}},
             {'kind': 'valid', 'path': './tb', 'lists': {c: list(dict.fromkeys(T[c]['doc'] + T[c]['toml'])) for c in CATS}},
             {'kind': 'valid', 'path': './tb', 'lists': random_lists(T, rng, unknown_in='opt')},
             {'kind': 'valid', 'path': './tb', 'lists': random_lists(T, rng, unknown_in='vul')},
             {'kind': 'valid', 'path': './tb', 'lists': random_lists(T, rng, unknown_in='qa')},
             # words a configuration language might give a meaning to, next to an unknown name: neither is a documented name
             {'kind': 'valid', 'path': './tb', 'lists': {'opt': ['all', 'no_such_optimization'], 'vul': [], 'qa': []}},
             {'kind': 'valid', 'path': './tb', 'lists': {'opt': ['sstore'], 'vul': ['bogus', 'ALL'], 'qa': ['*', 'none']}},
             {'kind': 'valid', 'path': './tb', 'lists': {'opt': ['default', 'sstore', 'not_a_name'], 'vul': ['floating_pragma'], 'qa': ['everything', 'nope']}},
             # very many unknown names (a count is not an exit status: only its low 8 bits reach the parent process)
             {'kind': 'valid', 'path': './tb', 'lists': {'opt': ['bogus_%d' % i for i in range(256)], 'vul': [], 'qa': []}},
             {'kind': 'valid', 'path': './tb', 'lists': {'opt': ['nope%d' % i for i in range(100)] + ['sstore'], 'vul': ['x%d' % i for i in range(100)],
                                                         'qa': ['y%d' % i for i in range(56)] + ['constructor_order']}},
             {'kind': 'valid', 'path': './tb', 'lists': {'opt': [], 'vul': [], 'qa': ['q_%d' % i for i in range(512)]}},
             {'kind': 'valid', 'path': './tb', 'lists': {'opt': ['sstore'] * 256 + ['bogus'] * 255, 'vul': [], 'qa': []}},
             {'kind': 'syntax', 'path': './tb', 'lists': random_lists(T, rng)},
             {'kind': 'missingkey', 'path': './tb', 'lists': random_lists(T, rng)},
             {'kind': 'nopath', 'path': './tb', 'lists': random_lists(T, rng)},
             {'kind': 'nofile', 'path': './tb', 'lists': random_lists(T, rng)}]
    for flag in [None, 'pa', 'missing']:
        for t in tomls:
            for contracts in [True, False]:
                if flag == 'missing' and t is not None and t['kind'] != 'valid':
                    continue
                add(flag, t, contracts, stale=(len(out) % 3 == 0))
    # the configuration file lies in another directory: its `path` is still relative to the working directory
    for flag in [None, 'pa']:
        for t in tomls[1:4] + tomls[12:13]:
            add(flag, t, True)
            out[-1].toml_dir = 'conf'
    # a file named Solstat.toml in the working directory is not a configuration unless --toml names it
    for flag in [None, 'pa']:
        for contracts in [True, False]:
            add(flag, None, contracts)
            out[-1].stray = True
    for _ in range(n_random):
        r = rng.random()
        t = {'kind': 'valid', 'path': rng.choice(['./tb', 'tb', '@ABS@/tb', 'tb/']),
             'lists': random_lists(T, rng, unknown_in=rng.choice(CATS) if r < 0.2 else None)}
        add(rng.choice([None, None, 'pa']), t, rng.random() < 0.5, stale=rng.random() < 0.3)
    return out


MARK = {'pa': 'Aflag', 'tb': 'Btoml', 'contracts': 'Cdefault', 'TB': 'Dupper', 'Src/Core': 'Emixed', 'conf/tb': 'Fbeside',
        'conf/contracts': 'Gbeside'}
STALE = 'STALE REPORT left by an earlier run\n'


def run_scenario(binpath, sc, files, root):
    """-> observation dict"""
    wd = os.path.join(root, 's%d' % sc.k)
    shutil.rmtree(wd, ignore_errors=True)
    os.makedirs(wd)
    for d, mark in MARK.items():
        if d == 'contracts' and not sc.contracts:
            continue
        os.makedirs(os.path.join(wd, d), exist_ok=True)
        for j, src in enumerate(files):
            open(os.path.join(wd, d, '%s_%d.sol' % (mark, j)), 'w', encoding='utf-8', newline='').write(src)
    args = [binpath]
    if sc.flag == 'pa':
        args += ['--path', './pa']
    elif sc.flag == 'missing':
        args += ['--path', './does_not_exist']
    if sc.toml is not None:
        tp = os.path.join(sc.toml_dir, 'cfg.toml') if sc.toml_dir else 'cfg.toml'
        args += ['--toml', tp]
        if sc.toml['kind'] != 'nofile':
            os.makedirs(os.path.join(wd, sc.toml_dir), exist_ok=True)
            open(os.path.join(wd, tp), 'w', encoding='utf-8').write(toml_text(sc.toml).replace('@ABS@', wd))
    if sc.stray:
        open(os.path.join(wd, 'Solstat.toml'), 'w', encoding='utf-8').write(
            'path = "./tb"\noptimizations = ["sstore"]\nvulnerabilities = []\nqa = []\n')
    if sc.stale:
        open(os.path.join(wd, 'solstat_report.md'), 'w').write(STALE)
    env = dict(os.environ)
    env['RUST_BACKTRACE'] = '0'
    p = subprocess.run(args, cwd=wd, env=env, stdout=subprocess.PIPE, stderr=subprocess.PIPE, timeout=300)
    rp = os.path.join(wd, 'solstat_report.md')
    report = open(rp, encoding='utf-8', errors='replace').read() if os.path.exists(rp) else None
    obs = {'exit': p.returncode, 'stderr': p.stderr.decode('utf-8', 'replace')[:600],
           'report_written': report is not None and report != STALE,
           'report': report if report != STALE else None, 'argv': args[1:], 'cwd': wd}
    return obs


def dirs_in_report(report):
    return sorted(d for d, mark in MARK.items() if re.search(r'\b%s_\d+\.sol' % mark, report))


def spec_expect(T, sc, trig_by_name):
    """the statement, clause by clause, independent of the model: -> dict(fail=bool, dir=..., sections=set of (cat,name))"""
    e = {}
    t = sc.toml
    lists = None
    if t is not None:
        if oracle_toml(t) is None:
            return {'fail': True, 'why': 'the configuration file cannot be read as a SolstatToml'}
        lists = {}
        for c in CATS:
            known = set(n for n, _ in T[c]['table'])
            for n in t['lists'][c]:
                if ascii_lower(n) not in known:
                    return {'fail': True, 'why': 'unknown %s name %r' % (c, n)}
            lists[c] = [ascii_lower(n) for n in t['lists'][c]]
    else:
        lists = {c: [n for n, _ in T[c]['table']] for c in CATS}      # all patterns
    if sc.flag == 'pa':
        d = 'pa'
    elif sc.flag == 'missing':
        return {'fail': True, 'why': '--path names a directory that does not exist'}
    elif t is not None:
        d = {'./tb': 'tb', 'tb': 'tb', 'tb/': 'tb', '@ABS@/tb': 'tb', './contracts': 'contracts', './nowhere': None,
             './TB': 'TB', './Src/Core': 'Src/Core'}[t['path']]
        if d is None or (d == 'contracts' and not sc.contracts):
            return {'fail': True, 'why': 'the configured path does not exist'}
    else:
        if not sc.contracts:
            return {'fail': True, 'why': 'no --path, no configuration file, no ./contracts', 'exit': 1}
        d = 'contracts'
    e['fail'] = False
    e['dir'] = d
    e['sections'] = set((c, n) for c in CATS for n in lists[c] if (c, n) in trig_by_name)
    return e


def model_expect(T, scs):
    """Opts.resolve by vm_compute -> list of (kind, path index, opts, vulns, qa, site)"""
    cands = ['./pa', './does_not_exist', './tb', 'tb', 'tb/', '@ABS@/tb', './contracts', './nowhere', './TB', './Src/Core']
    shards = []
    per = max(1, (len(scs) + vlib.NPROC - 1) // vlib.NPROC)
    for k in range(0, len(scs), per):
        sh = []
        for sc in scs[k:k + per]:
            a = '{| arg_path := %s; arg_toml := %s |}' % (
                {'pa': '(Some "./pa")', 'missing': '(Some "./does_not_exist")', None: 'None'}[sc.flag],
                'None' if sc.toml is None else '(Some "cfg.toml")')
            o = oracle_toml(sc.toml)
            if o is None:
                t = 'None'
            else:
                t = ('(Some {| t_path := %s; t_optimizations := [%s]; t_vulnerabilities := [%s]; t_qa := [%s] |})'
                     % (coq_s(o['path']), '; '.join(coq_s(x) for x in o['lists']['opt']),
                        '; '.join(coq_s(x) for x in o['lists']['vul']), '; '.join(coq_s(x) for x in o['lists']['qa'])))
            sh.append(('eval', 'encode_result [%s] [%s] (resolve %s %s %s)' % (
                '; '.join(coq_s(c) for c in cands), '; '.join(coq_s(c) for c in SITES), a, t,
                'true' if sc.contracts else 'false')))
        shards.append(sh)
    vals = vlib.coq_eval_plain(shards, 'Res Names Opts', 'c14r')
    return [v for sh in vals for v in sh], cands


def part_runs(rep, ctx, T, cands, sel, only=None):
    rng = random.Random(ctx.seed * 7777 + 1414)
    binpath = vlib.build_solstat_bin()
    chosen, covered = cover_files(T, cands, sel, max_files=10)
    files = [cands[i] for i in chosen]
    # what each name triggers on the chosen files (through the detector of that name), and its section heading
    trig_by_name = {}
    heading = {}
    for (c, n), lst in sel.items():
        if any(lst[i]['direct'] not in ('-', 'nodet') for i in chosen):
            trig_by_name[(c, n)] = True
        heading[(c, n)] = lst[chosen[0]]['section'] if chosen else None
    heads = [h for h in heading.values()]
    distinct_headings = len(set(heads)) == len(heads) and all(h and h != 'PANIC' for h in heads)
    scs = scenarios(T, rng, 24 if ctx.tier == 'quick' else 300)
    if only is not None:
        scs = [only]
    root = os.path.join(SCRATCH, str(os.getpid()))
    shutil.rmtree(root, ignore_errors=True)
    os.makedirs(root)
    found = False
    stats = {'runs': 0, 'runs_ok': 0, 'runs_failed_as_demanded': 0, 'stderr_site_differs': 0, 'files_per_directory': len(files),
             'patterns_triggered_by_the_files': len(trig_by_name), 'section_headings_distinct': distinct_headings}
    try:
        try:
            model, mcands = model_expect(T, scs)
        except vlib.BuildError as e:
            log('model evaluation unavailable:', str(e)[:300])
            model, mcands = None, None
        samples = []
        n_viol = 0
        pending_s, pending_m = [], []     # specification failures are reported first (they come with a failing input)
        for idx, sc in enumerate(scs):
            obs = run_scenario(binpath, sc, files, root)
            stats['runs'] += 1
            exp = spec_expect(T, sc, trig_by_name)
            problems = []
            got_dirs = dirs_in_report(obs['report']) if obs['report'] is not None else None
            got_sections = None
            if obs['report'] is not None and distinct_headings:
                got_sections = set(k for k, h in heading.items() if any(l.strip() == h for l in obs['report'].split('\n')))
            if exp['fail']:
                if obs['exit'] == 0:
                    problems.append('exit status 0 although %s' % exp['why'])
                if obs['report_written']:
                    problems.append('a report was written although %s' % exp['why'])
                if not problems:
                    stats['runs_failed_as_demanded'] += 1
            else:
                if obs['exit'] != 0:
                    problems.append('exit status %d on a valid configuration' % obs['exit'])
                elif not obs['report_written']:
                    problems.append('no report written')
                else:
                    want_dirs = [exp['dir']] if exp['sections'] else []
                    if got_dirs != want_dirs:
                        problems.append('the report lists files of the director%s %s; the directory to analyse is %r'
                                        % ('y' if len(got_dirs) == 1 else 'ies', got_dirs, exp['dir']))
                    elif got_sections is not None and got_sections != exp['sections']:
                        extra = sorted(got_sections - exp['sections'])
                        miss = sorted(exp['sections'] - got_sections)
                        problems.append('patterns reported but not selected: %s; selected, triggered but not reported: %s' % (extra, miss))
                    if not problems:
                        stats['runs_ok'] += 1
            # model
            mproblem = None
            if model is not None:
                kind, pidx, mo, mv, mq, site = model[idx]
                if kind == 0:
                    mpath = mcands[pidx] if pidx < len(mcands) else None
                    mdir = {'./pa': 'pa', './tb': 'tb', 'tb': 'tb', 'tb/': 'tb', '@ABS@/tb': 'tb', './contracts': 'contracts',
                            './TB': 'TB', './Src/Core': 'Src/Core'}.get(mpath)
                    exists = mdir is not None and (mdir != 'contracts' or sc.contracts)
                    msel = set()
                    for c, lst in (('opt', mo), ('vul', mv), ('qa', mq)):
                        byidx = {}
                        for n, i in T[c]['table']:
                            byidx.setdefault(i, n)
                        for i in lst:
                            if (c, byidx.get(i)) in trig_by_name:
                                msel.add((c, byidx[i]))
                    if not exists:
                        if obs['exit'] == 0 or obs['report_written']:
                            mproblem = 'model: analysis of the non-existent %r fails; implementation exit %d' % (mpath, obs['exit'])
                    elif obs['exit'] != 0:
                        mproblem = 'model: Run %r; implementation exit %d' % (mpath, obs['exit'])
                    elif got_dirs is not None and got_dirs != ([mdir] if msel else []):
                        mproblem = 'model: directory %r; implementation read %s' % (mpath, got_dirs)
                    elif got_sections is not None and got_sections != msel:
                        mproblem = 'model selects %s; report shows %s' % (sorted(msel), sorted(got_sections))
                elif kind == 1:
                    if obs['exit'] != 101 or obs['report_written']:
                        mproblem = 'model: panic (%s); implementation exit %d, report written: %s' % (SITES[site] if site < len(SITES) else '?', obs['exit'], obs['report_written'])
                    elif site < len(SITES) and SITES[site] not in obs['stderr']:
                        stats['stderr_site_differs'] += 1
                else:
                    if obs['exit'] != 1 or obs['report_written']:
                        mproblem = 'model: exit(1); implementation exit %d, report written: %s' % (obs['exit'], obs['report_written'])
            if problems:
                found = True
                n_viol += 1
                if only is None:
                    pending_s.append(('; '.join(problems) + '  [argv: %s]' % ' '.join(obs['argv']),
                                  {'kind': 'S', 'sub': 'scenario', 'input': sc.describe(), 'k': sc.k, 'argv': obs['argv'], 'exit': obs['exit'],
                                   'stderr': obs['stderr'], 'report_written': obs['report_written'],
                                   'directories_in_report': got_dirs, 'sections_in_report': sorted(got_sections) if got_sections else None,
                                   'spec_expected': {k: (sorted(v) if isinstance(v, set) else v) for k, v in exp.items()},
                                   'files': files, 'theorem': 'path_precedence' if 'director' in problems[0] or 'exit status' in problems[0] else 'selection_exact'}))
            elif mproblem:
                found = True
                n_viol += 1
                if only is None:
                    pending_m.append((mproblem + '  [argv: %s]' % ' '.join(obs['argv']),
                                  {'kind': 'M', 'sub': 'scenario', 'input': sc.describe(), 'k': sc.k, 'argv': obs['argv'], 'exit': obs['exit'],
                                   'stderr': obs['stderr'], 'files': files, 'model_function': 'Opts.resolve', 'rust_function': 'opts::Opts::new'}))
            if len(samples) < 3 and idx % 17 == 5:
                samples.append({'argv': obs['argv'], 'toml': sc.toml, 'contracts': sc.contracts, 'exit': obs['exit'],
                                'directories_in_report': got_dirs, 'sections': len(got_sections) if got_sections is not None else None})
            if only is not None:
                print('argv:', obs['argv'], '\nconfiguration:', json.dumps(sc.describe(), ensure_ascii=False))
                print('implementation: exit', obs['exit'], 'report written:', obs['report_written'], 'directories in report:', got_dirs,
                      '\n  stderr:', obs['stderr'].strip()[:300])
                print('specification :', {k: (sorted(v) if isinstance(v, set) else v) for k, v in exp.items()})
                print('model         :', model[idx] if model is not None else 'unavailable')
                print('problems      :', problems or mproblem or 'none')
        stats['model_evaluated'] = model is not None
        for what, payload in pending_s[:3]:
            rep.violation(what, payload)
        for what, payload in pending_m[:max(0, 3 - len(pending_s))]:
            rep.violation(what, payload, no_input=True)
    finally:
        shutil.rmtree(root, ignore_errors=True)
    return found, stats, samples


# ----------------------------------------------------------------------------- entry points
def run(rep, ctx):
    T = names2coq.tables()
    f1, st1, n1, samples1 = part_names(rep, ctx, T)
    cands, sel = pick_sources(ctx, T)
    f2, n2, nt2 = part_link(rep, ctx, T, cands, sel)
    f3, st3, samples3 = part_runs(rep, ctx, T, cands, sel)
    rep.coverage['evaluations'] = n1 + n2 + st3['runs']
    rep.coverage['distinct_nontrivial'] = st1['name_spellings_known'] + st1['unknown_rejected'] + nt2 + st3['runs_ok'] + st3['runs_failed_as_demanded']
    rep.coverage['rule'] = ('names: every documented / sample-toml / table name in 70 letter casings (lower, upper, title, alternating, '
                            '64 seeded masks) and >= 200 near-miss unknown spellings through str_to_* and Opts.str_to, with the statement '
                            'clauses evaluated on the implementation answers; link: analyze_for_*(src, str_to_*(name)) = the detector of that name, '
                            'on the corpus (non-trivial = the detector reports something); runs: the real binary with --path x --toml x ./contracts, '
                            'a differently named file per candidate directory, report sections against the listed names, exit status and report '
                            'presence against Opts.resolve (non-trivial = the run behaved as the statement demands and was compared with the model)')
    rep.coverage['names'] = st1
    rep.coverage['link_evaluations'] = n2
    rep.coverage['link_nontrivial'] = nt2
    rep.coverage['runs'] = st3
    rep.coverage['samples'] = samples1 + samples3
    rep.coverage['traces_validated_against_impl'] = (n1 - st1['model_vs_impl_mismatches'] if st1['model_evaluated'] else 0) + \
        (st3['runs_ok'] + st3['runs_failed_as_demanded'] if st3.get('model_evaluated') else 0)
    rep.assumptions = ['clap (command line -> Args) and toml/serde (file -> SolstatToml) are oracles: the theorems quantify over all Args and all '
                       'parsed configuration records; the binary runs sample them',
                       "str::to_lowercase is modelled as ASCII lower-casing; they differ for table membership only on spellings containing "
                       "U+212A KELVIN SIGN (lower-cases to 'k'); such spellings are sent through the implementation and counted, not compared",
                       'which patterns ran is observed through the report: a pattern is visible only when it has a finding in the analysed files '
                       '(the files are chosen from the corpus to trigger as many patterns as possible)',
                       'the name -> detector link uses the table of harness/src/bin/vnames.rs (documented name -> function of the module of that name)']
    common.finish_proof_status(rep, ctx, f1 or f2 or f3)


def replay(obj):
    rep = vlib.Report('C14', 'quick', obj.get('seed', 1))
    ctx = common.Ctx()
    ctx.tier = 'quick'
    ctx.seed = obj.get('seed', 1)
    ctx.harness = vlib.build_harness()
    T = names2coq.tables()
    sub = obj.get('sub')
    if sub in ('name', 'name-pair'):
        q = [(obj['category'], obj['input'])] + ([(obj['category'], obj['input2'])] if 'input2' in obj else [])
        impl = impl_names(ctx.harness, q)
        try:
            model = model_names(T, q, 'c14replay')
        except vlib.BuildError:
            model = ['unavailable'] * len(q)
        bad = False
        for (c, s), a, m in zip(q, impl, model):
            documented = ascii_lower(s) in set(ascii_lower(x) for x in T[c]['doc'] + T[c]['toml'])
            print('%s(%r): implementation %s, model %s, documented name: %s' % (T[c]['fns'][1], s, a, m, documented))
            if documented and a == 'PANIC':
                bad = True
            if not documented and a != 'PANIC' and ascii_lower(s) not in set(n for n, _ in T[c]['table']):
                bad = True
            if m != 'unavailable' and ((a == 'PANIC') != (m is None) or (m is not None and a != m)):
                bad = True
        if len(q) == 2:
            same_name = ascii_lower(q[0][1]) == ascii_lower(q[1][1])
            if same_name != (impl[0] == impl[1]) and 'PANIC' not in impl:
                bad = True
            if same_name and impl[0] != impl[1]:
                bad = True
        return 1 if bad else 0
    if sub == 'scenario':
        cands, sel = pick_sources(ctx, T)
        sc = Scenario(obj.get('k', 0))
        d = obj['input']
        sc.flag, sc.toml, sc.contracts, sc.stale = d['flag_path'], d['toml'], d['contracts_dir_present'], d['stale_report']
        f, st, _ = part_runs(rep, ctx, T, cands, sel, only=sc)
        return 1 if f else 0
    if sub == 'link':
        r = select_all(ctx, T, [obj['source']])[(obj['category'], obj['input'])][0]
        print('name %r -> %s' % (obj['input'], r))
        return 1 if r is None or r['lines'] != r['direct'] else 0
    if sub == 'default':
        c = obj['category']
        allv = {}
        for l in vnames(ctx, ['all'])[:3]:
            f = l.split(' ')
            allv[f[1]] = f[2:]
        documented = list(dict.fromkeys(T[c]['doc'] + T[c]['toml']))
        ans = impl_names(ctx.harness, [(c, n) for n in documented])
        print('%s() = %s' % (T[c]['fns'][0], allv[c]))
        print('selected by the documented names:', sorted(set(ans)))
        bad = [v for v in allv[c] if v not in ans] + [v for v in T[c]['variants'] if v not in allv[c]]
        print('default patterns without a documented name / patterns that are not defaults:', bad or 'none')
        return 1 if bad else 0
    print('nothing to replay for', obj.get('kind'), obj.get('what'))
    return 1
