"""C18 - a run only reads its inputs and writes one report file.

Three parts (only the first is a proof):
  * the logic of a run is PROVED on the model (coq/props/C18.v over model/Run.v): frame, overwrite,
    failed runs write nothing, an old report is inert, repeated runs are a fixed point;
  * the effect inventory is REGENERATED from the source on every run (tools/effects2coq.py ->
    gen/Effects.v) and `effects_match_model` / `no_shared_state` are recompiled against it;
  * the operating-system level effects are SAMPLED here: the real binary on seeded random trees, with
    the working directory outside / equal to / inside / above the analysed directory, a stale
    solstat_report.md absent / short / much longer than the new report / elsewhere in the tree,
    1-3 repetitions, and failing runs; a full snapshot (relative path, type, bytes, mode, mtime) of
    the whole scenario directory before and after every run.  The only difference allowed is
    cwd/solstat_report.md created or replaced (and the mtime of cwd when the file is created).
    Every run is also compared with Run.run evaluated in Coq (exit status, what happened to the
    report path)."""
import os, sys, json, random, shutil, subprocess, hashlib, stat, time
import vlib
from vlib import log
from checks import common
from checks import c14
import names2coq

SCRATCH = os.path.join(vlib.CACHE, 'run18')
REPORT = 'solstat_report.md'


# ----------------------------------------------------------------------------- snapshots
def snapshot(root):
    """relative path -> (type, mode, mtime_ns, sha256 of the bytes | None for directories)"""
    snap = {}
    for dp, dn, fn in os.walk(root):
        for name in dn + fn:
            p = os.path.join(dp, name)
            st = os.lstat(p)
            rel = os.path.relpath(p, root)
            if stat.S_ISDIR(st.st_mode):
                snap[rel] = ('dir', stat.S_IMODE(st.st_mode), st.st_mtime_ns, None)
            elif stat.S_ISLNK(st.st_mode):
                snap[rel] = ('link', stat.S_IMODE(st.st_mode), st.st_mtime_ns, os.readlink(p))
            else:
                snap[rel] = ('file', stat.S_IMODE(st.st_mode), st.st_mtime_ns, hashlib.sha256(open(p, 'rb').read()).hexdigest())
    st = os.lstat(root)
    snap['.'] = ('dir', stat.S_IMODE(st.st_mode), st.st_mtime_ns, None)
    return snap


def diff_snap(a, b):
    out = []
    for k in sorted(set(a) | set(b)):
        if k not in a:
            out.append(('created', k))
        elif k not in b:
            out.append(('removed', k))
        elif a[k] != b[k]:
            what = [n for n, x, y in zip(('type', 'mode', 'mtime', 'content'), a[k], b[k]) if x != y]
            out.append(('changed:' + '+'.join(what), k))
    return out


# ----------------------------------------------------------------------------- scenarios
CWD_MODES = ['outside', 'equal', 'inside', 'above']
STALE_MODES = ['absent', 'short', 'long', 'looks-like-report']
FAIL_MODES = [None, None, None, None, 'unknown-name', 'missing-dir', 'no-contracts', 'bad-utf8', 'unparsable-file', 'bad-toml',
              'report-is-a-directory']


_T = []


def make_scenario(k, rng, sources):
    if not _T:
        _T.append(names2coq.tables())
    sc = {'k': k, 'cwd_mode': CWD_MODES[k % 4], 'stale': STALE_MODES[(k // 4) % 4], 'repeat': 1 + (k % 3),
          'fail': FAIL_MODES[k % len(FAIL_MODES)] if k >= 16 else None, 'use_toml': rng.random() < 0.4,
          'stale_elsewhere': rng.random() < 0.3, 'files': []}
    names = ['A.sol', 'Token.sol', 'lib.sol', 'x.y.sol', 'Thing.t.sol', 'README.md', 'notes.txt', 'a.SOL', 'blob.bin', 'Weird Name.sol',
             'solstat_report.md.sol']
    n = rng.randrange(1, 6)
    for j in range(n):
        d = rng.choice(['', '', 'sub', 'sub/deep', 'other'])
        name = rng.choice(names)
        src = rng.randrange(len(sources))
        sc['files'].append({'rel': os.path.join(d, '%d_%s' % (j, name)), 'src': src,
                            'binary': name.endswith('.bin')})
    if sc['fail'] == 'no-contracts':
        sc['use_toml'] = False      # otherwise the configured path is used (C14)
    sc['toml_lists'] = c14.random_lists(_T[0], rng) if sc['use_toml'] else None
    # the analysed directory named by the configuration file (no --path), the file itself lying in another directory
    sc['path_from_toml'] = bool(sc['use_toml'] and sc['fail'] is None and rng.random() < 0.6)
    sc['then_other'] = bool(sc['fail'] is None and rng.random() < 0.5)
    sc['stale_seed'] = rng.getrandbits(32)
    return sc


def stale_bytes(sc):
    r = random.Random(sc['stale_seed'])
    if sc['stale'] == 'short':
        return bytes(r.getrandbits(8) for _ in range(r.randrange(0, 40)))
    if sc['stale'] == 'long':
        return b''.join(b'STALE LINE %d ' % i + bytes(r.choice(b'abcdefghij \n#-') for _ in range(60)) + b'\n' for i in range(4000))
    if sc['stale'] == 'looks-like-report':
        return (b'# Solstat report (stale)\n\n## Gas Optimizations\n\n### Lines\n- Old.sol:1\n- Old.sol:999\n' * 40)
    return None


def build(sc, sources, root):
    """lay the scenario out under root; -> (cwd, argv, tree_dir, expectation)"""
    shutil.rmtree(root, ignore_errors=True)
    os.makedirs(root)
    mode = sc['cwd_mode']
    tree = os.path.join(root, 'proj', 'tree')
    os.makedirs(tree)
    os.makedirs(os.path.join(root, 'elsewhere'))
    for f in sc['files']:
        p = os.path.join(tree, f['rel'])
        os.makedirs(os.path.dirname(p), exist_ok=True)
        if f['binary']:
            open(p, 'wb').write(bytes(range(256)) * 3)
        else:
            open(p, 'w', encoding='utf-8', newline='').write(sources[f['src']])
    os.makedirs(os.path.join(tree, 'sub'), exist_ok=True)
    if sc['fail'] == 'bad-utf8':
        open(os.path.join(tree, 'zz_bad.sol'), 'wb').write(b'pragma solidity 0.8.0;\n// \xff\xfe\ncontract B {}\n')
    if sc['fail'] == 'unparsable-file':
        open(os.path.join(tree, 'zz_broken.sol'), 'w').write('contract { this is not solidity\n')
    if sc['stale_elsewhere']:
        os.makedirs(os.path.join(tree, 'older'), exist_ok=True)
        open(os.path.join(tree, 'older', REPORT), 'wb').write(b'a report of some other run, inside the tree\n' * 3)
    if mode == 'outside':
        cwd, path_arg = os.path.join(root, 'elsewhere'), tree
    elif mode == 'equal':
        cwd, path_arg = tree, '.'
    elif mode == 'inside':
        cwd, path_arg = os.path.join(tree, 'sub'), '..'
    else:
        cwd, path_arg = os.path.join(root, 'proj'), './tree'
    argv = []
    if sc['fail'] == 'missing-dir':
        argv += ['--path', os.path.join(path_arg, 'does_not_exist')]
    elif sc['fail'] == 'no-contracts':
        pass
    elif sc.get('path_from_toml'):
        pass
    else:
        argv += ['--path', path_arg]
    toml_rec = None
    if sc['use_toml'] or sc['fail'] in ('unknown-name', 'bad-toml'):
        lists = sc['toml_lists'] or {'opt': ['sstore'], 'vul': [], 'qa': []}
        lists = {k: list(v) for k, v in lists.items()}
        if sc['fail'] == 'unknown-name':
            lists['vul'] = lists['vul'] + ['no_such_pattern']
        t = {'kind': 'valid', 'path': path_arg if sc.get('path_from_toml') else './nowhere', 'lists': lists}
        txt = c14.toml_text(t)
        if sc['fail'] == 'bad-toml':
            txt = 'this is = not [ toml\n'
        else:
            toml_rec = t
        open(os.path.join(root, 'elsewhere', 'cfg.toml'), 'w', encoding='utf-8').write(txt)
        argv += ['--toml', os.path.join(root, 'elsewhere', 'cfg.toml')]
    # files next to the place of the report whose names a careless writer might use for itself (temporary file, backup, lock):
    # they belong to the user and must be found unchanged
    if sc['k'] % 2 == 1:
        for nm in (REPORT + '.tmp', REPORT + '.bak', REPORT + '.orig', REPORT + '.new', REPORT + '~', '.' + REPORT + '.swp', REPORT + '.lock',
                   'solstat_report.tmp', '.solstat_report.md.tmp', 'solstat_report.md.part'):
            pth = os.path.join(cwd, nm)
            if not os.path.exists(pth):
                open(pth, 'wb').write(b'kept by the user: ' + nm.encode() + b'\n')
    sb = stale_bytes(sc)
    if sc['fail'] == 'report-is-a-directory':
        os.makedirs(os.path.join(cwd, REPORT))
    elif sb is not None:
        open(os.path.join(cwd, REPORT), 'wb').write(sb)
        os.chmod(os.path.join(cwd, REPORT), 0o640)
    # give everything an old mtime so that any touch is visible
    old = time.time() - 86400 * 3
    for dp, dn, fn in os.walk(root):
        for name in dn + fn:
            os.utime(os.path.join(dp, name), (old, old), follow_symlinks=False)
    os.utime(root, (old, old))
    return cwd, argv, tree, toml_rec


def run_bin(binpath, cwd, argv):
    env = dict(os.environ)
    env['RUST_BACKTRACE'] = '0'
    p = subprocess.run([binpath] + argv, cwd=cwd, env=env, stdout=subprocess.PIPE, stderr=subprocess.PIPE, timeout=300)
    return p.returncode, p.stderr.decode('utf-8', 'replace')[:400]


def reference_report(binpath, sc, sources, root):
    """the same tree and arguments, working directory outside the tree, no stale report anywhere"""
    sc2 = dict(sc)
    sc2.update({'cwd_mode': 'outside', 'stale': 'absent', 'stale_elsewhere': False})
    cwd, argv, tree, _ = build(sc2, sources, root)
    rc, err = run_bin(binpath, cwd, argv)
    rp = os.path.join(cwd, REPORT)
    return rc, (open(rp, 'rb').read() if os.path.isfile(rp) else None)


# ----------------------------------------------------------------------------- model
def model_runs(cases):
    """cases: dict(args=(path|None, toml|None), toml_rec, contracts_exists, analysis_ok, old: 'none'|'file'|'dir')
    -> (exit code, 0 = report path unchanged | 1 = report path now holds the rendered text)"""
    defs = ['Definition enc (old : option fnode) (r : fs * N) : N * N :=',
            '  (snd r, match fst r "/cwd/solstat_report.md" with',
            '          | Some (FileN c) => if String.eqb c "RENDERED" then 1 else 0 | _ => 0 end).',
            'Definition mkfs (old : option fnode) (contracts toml : bool) : fs := fun q =>',
            '  if String.eqb q "/cwd/solstat_report.md" then old',
            '  else if String.eqb q "/cwd/./contracts" then (if contracts then Some DirN else None)',
            '  else if String.eqb q "/cfg.toml" then (if toml then Some (FileN "toml text") else None)',
            '  else if String.eqb q "/cwd" then Some DirN else None.']
    shards = []
    per = max(1, (len(cases) + vlib.NPROC - 1) // vlib.NPROC)
    for k in range(0, len(cases), per):
        sh = list(defs)
        for c in cases[k:k + per]:
            a = '{| arg_path := %s; arg_toml := %s |}' % ('(Some "dir")' if c['path'] else 'None',
                                                        '(Some "/cfg.toml")' if c['toml'] else 'None')
            if c['toml_rec'] is None:
                t = 'None'
            else:
                o = c['toml_rec']
                t = ('(Some {| t_path := %s; t_optimizations := [%s]; t_vulnerabilities := [%s]; t_qa := [%s] |})'
                     % (c14.coq_s(o['path']), '; '.join(c14.coq_s(x) for x in o['lists']['opt']),
                        '; '.join(c14.coq_s(x) for x in o['lists']['vul']), '; '.join(c14.coq_s(x) for x in o['lists']['qa'])))
            old = {'none': 'None', 'file': '(Some (FileN "old contents"))', 'dir': '(Some DirN)'}[c['old']]
            an = '(fun _ _ _ _ _ _ => %s)' % ('Ok "RENDERED"' if c['analysis_ok'] else 'Panic "analysis"')
            sh.append(('eval', 'enc %s (run (fun _ => %s) %s (mkfs %s %s %s) "/cwd" %s)' % (
                old, t, an, old, 'true' if c['contracts'] else 'false', 'true' if c['toml_file'] else 'false', a)))
        shards.append(sh)
    vals = vlib.coq_eval_plain(shards, 'Res Names Opts Run', 'c18m')
    return [v for sh in vals for v in sh]


# ----------------------------------------------------------------------------- the check
def one_scenario(binpath, sc, sources, root, verbose=False):
    """-> (problems, facts)"""
    problems = []
    ref_rc, ref = reference_report(binpath, sc, sources, os.path.join(root, 'ref'))
    cwd, argv, tree, toml_rec = build(sc, sources, os.path.join(root, 'run'))
    top = os.path.join(root, 'run')
    rp_rel = os.path.relpath(os.path.join(cwd, REPORT), top)
    cwd_rel = os.path.relpath(cwd, top)
    had_report = os.path.isfile(os.path.join(cwd, REPORT))
    facts = {'argv': argv, 'cwd': cwd_rel, 'exits': [], 'created': False, 'replaced': False, 'bytes_identical_to_reference': None,
             'order_only_difference': False, 'reference_exit': ref_rc, 'had_report': had_report}
    prev_bytes = None
    for rnd in range(sc['repeat']):
        before = snapshot(top)
        rc, err = run_bin(binpath, cwd, argv)
        after = snapshot(top)
        facts['exits'].append(rc)
        facts['stderr'] = err
        d = diff_snap(before, after)
        allowed = []
        if rc == 0:
            for kind, path in d:
                if path == rp_rel and (kind == 'created' or kind.startswith('changed:')) and 'type' not in kind:
                    allowed.append((kind, path))
                    facts['created' if kind == 'created' else 'replaced'] = True
                elif path == cwd_rel and kind == 'changed:mtime':
                    allowed.append((kind, path))       # creating (or atomically replacing) the file updates the directory that holds it
        other = [x for x in d if x not in allowed]
        if other:
            problems.append('run %d (exit %d) changed the file system beyond %s: %s' % (rnd + 1, rc, rp_rel, other[:6]))
        if rc == 0:
            p = os.path.join(cwd, REPORT)
            if not os.path.isfile(p):
                problems.append('run %d exited 0 without a report file' % (rnd + 1))
                continue
            now = open(p, 'rb').read()
            if ref is None:
                problems.append('run %d succeeded, the reference run (cwd outside, no stale report) did not (exit %d)' % (rnd + 1, ref_rc))
            elif now != ref:
                if sorted(now.split(b'\n')) == sorted(ref.split(b'\n')):
                    facts['order_only_difference'] = True       # same lines in another order: C13's business, not C18's
                else:
                    sb = stale_bytes(sc)
                    why = 'the report differs from the report of the same tree produced with no stale report and cwd outside the tree'
                    if sb and sb[-200:] in now:
                        why += ' (it still contains the tail of the stale report: appended / partially overwritten)'
                    problems.append('run %d: %s; %d bytes vs %d bytes' % (rnd + 1, why, len(now), len(ref)))
            else:
                facts['bytes_identical_to_reference'] = True
            if prev_bytes is not None and prev_bytes != now and sorted(prev_bytes.split(b'\n')) != sorted(now.split(b'\n')):
                problems.append('run %d produced a different report than run %d' % (rnd + 1, rnd))
            prev_bytes = now
        else:
            if ref_rc == 0 and sc['fail'] != 'report-is-a-directory':
                problems.append('run %d failed with exit %d, the reference run of the same tree succeeded' % (rnd + 1, rc))
    # a further run from the same working directory on ANOTHER directory (older files, other contents): the report left
    # by the runs above is in the way and must be replaced by exactly the report of that directory
    if sc['fail'] is None and sc.get('then_other') and not problems and prev_bytes is not None:
        tree2 = os.path.join(top, 'proj', 'tree2')
        os.makedirs(os.path.join(tree2, 'inner'))
        k2 = (sc['k'] * 7 + 3) % len(sources)
        open(os.path.join(tree2, 'Other.sol'), 'w', encoding='utf-8', newline='').write(sources[k2])
        open(os.path.join(tree2, 'inner', 'More.sol'), 'w', encoding='utf-8', newline='').write(sources[(k2 + 1) % len(sources)])
        old = time.time() - 86400 * 30
        for dp, dn, fn in os.walk(tree2):
            for name in dn + fn:
                os.utime(os.path.join(dp, name), (old, old))
        os.utime(tree2, (old, old))
        refdir = os.path.join(root, 'ref2')
        shutil.rmtree(refdir, ignore_errors=True)
        os.makedirs(refdir)
        rc_ref, _ = run_bin(binpath, refdir, ['--path', tree2])
        ref2 = open(os.path.join(refdir, REPORT), 'rb').read() if os.path.isfile(os.path.join(refdir, REPORT)) else None
        before = snapshot(top)
        rc2, err2 = run_bin(binpath, cwd, ['--path', tree2])
        after = snapshot(top)
        facts['exits'].append(rc2)
        d2 = [x for x in diff_snap(before, after) if not (x[1] == rp_rel or (x[1] == cwd_rel and x[0] == 'changed:mtime'))]
        if d2:
            problems.append('the run on a second directory changed the file system beyond %s: %s' % (rp_rel, d2[:6]))
        now2 = open(os.path.join(cwd, REPORT), 'rb').read() if os.path.isfile(os.path.join(cwd, REPORT)) else None
        if rc2 != rc_ref:
            problems.append('the run on a second directory exits %d, the same run from a fresh working directory %d' % (rc2, rc_ref))
        elif rc2 == 0 and now2 != ref2 and sorted((now2 or b'').split(b'\n')) != sorted((ref2 or b'').split(b'\n')):
            problems.append('after a run on one directory, the run on a second directory (argv --path %s) leaves a report that is not the '
                            'report of that directory produced from a fresh working directory (%d vs %d bytes): the report of the earlier run '
                            'influenced the result' % (os.path.relpath(tree2, top), len(now2 or b''), len(ref2 or b'')))
        facts['second_directory_run'] = True
    return problems, facts, toml_rec


def panic_free_sources(ctx):
    T = names2coq.tables()
    cands, sel = c14.pick_sources(ctx, T)
    ok = []
    for i, s in enumerate(cands):
        rs = [lst[i] for lst in sel.values()]
        if all(r is not None and r['lines'] != 'PANIC' for r in rs):
            ok.append(s)
    return ok


def run(rep, ctx):
    rng = random.Random(ctx.seed * 18181 + 18)
    binpath = vlib.build_solstat_bin()
    sources = panic_free_sources(ctx)
    n = 44 if ctx.tier == 'quick' else 400
    root = os.path.join(SCRATCH, str(os.getpid()))
    shutil.rmtree(root, ignore_errors=True)
    os.makedirs(root)
    found = False
    stats = {'scenarios': 0, 'runs': 0, 'successful_runs': 0, 'failing_runs': 0, 'report_created': 0, 'report_replaced': 0,
             'bytes_identical_to_reference': 0, 'order_only_difference': 0, 'by_cwd_mode': {}, 'by_stale': {}, 'by_fail': {},
             'sources': len(sources)}
    cases = []
    observed = []
    samples = []
    try:
        for k in range(n):
            sc = make_scenario(k, rng, sources)
            problems, facts, toml_rec = one_scenario(binpath, sc, sources, root)
            stats['scenarios'] += 1
            stats['runs'] += len(facts['exits'])
            stats['successful_runs'] += sum(1 for e in facts['exits'] if e == 0)
            stats['failing_runs'] += sum(1 for e in facts['exits'] if e != 0)
            stats['report_created'] += 1 if facts['created'] else 0
            stats['report_replaced'] += 1 if facts['replaced'] else 0
            stats['bytes_identical_to_reference'] += 1 if facts['bytes_identical_to_reference'] else 0
            stats['order_only_difference'] += 1 if facts['order_only_difference'] else 0
            for key, v in (('by_cwd_mode', sc['cwd_mode']), ('by_stale', sc['stale']), ('by_fail', str(sc['fail']))):
                stats[key][v] = stats[key].get(v, 0) + 1
            if sc['fail'] in ('unknown-name', 'missing-dir', 'no-contracts', 'bad-utf8', 'unparsable-file', 'bad-toml') and 0 in facts['exits']:
                problems.append('the run was expected to fail (%s) but exited 0' % sc['fail'])
            if problems:
                found = True
                if len(rep.violations) < 3:
                    rep.violation('; '.join(problems)[:1500],
                                  {'kind': 'S', 'input': sc, 'argv': facts['argv'], 'cwd': facts['cwd'], 'exits': facts['exits'],
                                   'stderr': facts.get('stderr'), 'sources': [sources[f['src']] for f in sc['files']],
                                   'theorem': 'run_frame / run_overwrites / failed_run_writes_nothing / old_report_inert'})
            # the model's view of the first run of this scenario
            analysis_ok = sc['fail'] not in ('missing-dir', 'bad-utf8', 'unparsable-file')
            cases.append({'path': sc['fail'] != 'no-contracts' and not sc.get('path_from_toml'), 'toml': toml_rec is not None or sc['fail'] == 'bad-toml',
                          'toml_file': True, 'toml_rec': toml_rec, 'contracts': False, 'analysis_ok': analysis_ok,
                          'old': 'dir' if sc['fail'] == 'report-is-a-directory' else ('file' if facts['had_report'] else 'none')})
            observed.append((facts['exits'][0], 1 if (facts['created'] or facts['replaced']) else 0, sc))
            if len(samples) < 4 and k % 11 == 3:
                samples.append({'cwd_mode': sc['cwd_mode'], 'stale': sc['stale'], 'fail': sc['fail'], 'repeat': sc['repeat'],
                                'files': [f['rel'] for f in sc['files']], 'argv': facts['argv'], 'exits': facts['exits'],
                                'report_created': facts['created'], 'report_replaced': facts['replaced']})
        # model = implementation on exit status and on what happened at the report path
        mism = 0
        try:
            model = model_runs(cases)
        except vlib.BuildError as e:
            log('model evaluation unavailable:', str(e)[:300])
            model = None
        if model is not None:
            for (mcode, mwrote), (code, wrote, sc) in zip(model, observed):
                if mcode != code or mwrote != wrote:
                    mism += 1
                    if not found and mism <= 2:
                        rep.violation('Run.run gives exit %d / report written %d, the binary exit %d / report written %d (scenario %d: cwd %s, stale %s, fail %s)'
                                      % (mcode, mwrote, code, wrote, sc['k'], sc['cwd_mode'], sc['stale'], sc['fail']),
                                      {'kind': 'M', 'input': sc, 'model_function': 'Run.run', 'rust_function': 'main'}, no_input=True)
            if mism:
                found = True
        stats['model_evaluated'] = model is not None
        stats['model_vs_impl_mismatches'] = mism
    finally:
        shutil.rmtree(root, ignore_errors=True)
        try:
            os.rmdir(SCRATCH)
        except OSError:
            pass
    rep.coverage['evaluations'] = stats['runs']
    rep.coverage['distinct_nontrivial'] = stats['report_created'] + stats['report_replaced'] + stats['failing_runs']
    rep.coverage['rule'] = ('seeded random trees of corpus sources (sub-directories, .t.sol, non-Solidity and binary files, a stale report '
                            'elsewhere in the tree) x cwd outside/equal/inside/above the analysed directory x stale report '
                            'absent/short/long/report-like x 1-3 repetitions x failure modes; full before/after snapshot of the scenario '
                            'directory (path, type, mode, mtime, sha256) around every run; new report compared with the report of the same '
                            'tree produced with no stale report and cwd outside; non-trivial = the report was created or replaced, or the run failed '
                            'and was shown to change nothing')
    rep.coverage['runs'] = stats
    rep.coverage['samples'] = samples
    rep.coverage['traces_validated_against_impl'] = (len(observed) - stats['model_vs_impl_mismatches']) if stats['model_evaluated'] else 0
    rep.coverage['label'] = 'proof on the model + regenerated effect inventory + sampled OS-level effects'
    rep.assumptions = ['OS-level effects are SAMPLED (before/after snapshots of real runs of the binary), not proved: no Gallina model can '
                       'speak for the operating system',
                       'the logic of the run (frame, overwrite, failed run writes nothing, old report inert, idempotence) is PROVED on the model '
                       'model/Run.v, with the parser, the three analyze_dir and the report rendering as universally quantified oracles',
                       'old_report_inert / run_idempotent assume the analysis never opens a file whose name is not eligible (this is C16 inert_files, '
                       'proved of the analyze_dir model); report_name_not_eligible instantiates it for solstat_report.md',
                       'the effect inventory (gen/Effects.v) is REGENERATED by a token scan of src/**/*.rs on every run; effects inside dependencies '
                       'or behind macros defined elsewhere are not seen by it (the snapshots are the backstop)',
                       'not modelled: permissions, I/O errors other than "the report path is a directory", symbolic links, other processes '
                       'changing the tree during the run, stdout/stderr']
    common.finish_proof_status(rep, ctx, found)


def replay(obj):
    ctx = common.Ctx()
    ctx.tier = 'quick'
    ctx.seed = obj.get('seed', 1)
    ctx.harness = vlib.build_harness()
    binpath = vlib.build_solstat_bin()
    sc = obj['input']
    sources = obj.get('sources')
    if sources is None:
        sources = panic_free_sources(ctx)
    else:
        sc = dict(sc)
        sc['files'] = [dict(f, src=i) for i, f in enumerate(sc['files'])]
    root = os.path.join(SCRATCH, 'replay-%d' % os.getpid())
    try:
        problems, facts, _ = one_scenario(binpath, sc, sources, root)
    finally:
        shutil.rmtree(root, ignore_errors=True)
    print('scenario:', json.dumps({k: v for k, v in sc.items() if k != 'toml_lists'}))
    print('argv:', facts['argv'], 'cwd:', facts['cwd'], 'exits:', facts['exits'])
    print('report created:', facts['created'], 'replaced:', facts['replaced'])
    print('problems:', problems or 'none')
    return 1 if problems else 0
