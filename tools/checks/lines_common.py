"""Detector-level clause of C02: analyze_for_* line sets versus model (check_lines) and versus
the specification evaluated on the implementation's own location sets (spec_lines)."""
import vlib
from vlib import log
from checks import common, det_common
from checks.det_common import DETS


def relayouts(rng, src, n=2):
    """token-preserving-ish re-layouts that change line structure only: CRLF, blank lines, no final newline"""
    out = []
    out.append(src.replace('\n', '\r\n'))
    out.append(src.replace('\n', '\n\n'))
    out.append(src.rstrip('\n'))
    out.append('\n\n' + src)
    out.append('// héllo wörld\n' + src)
    rng.shuffle(out)
    out = out[:n]
    # one token per line / random line breaks between tokens: the line of a finding now identifies the token that
    # starts the flagged construct, so a detector that anchors a finding at the wrong node shows up
    try:
        import sol_lexer as sl
        out.append(sl.relayout(src, rng, 'lines')[0])
        out.append(sl.relayout(src, rng, 'crlf')[0])
    except Exception:
        pass
    return out


def run_part(rep, ctx):
    """returns found_S"""
    import random
    rng = random.Random(ctx.seed * 31 + 7)
    base = common.standard_programs(ctx, 150 if ctx.tier == 'quick' else 1500, n_per_carrier=1,
                                    streams=('corpus', 'product', 'random', 'ood', 'special'))
    progs = []
    for p in base:
        progs.append(p)
        if p['gen'].startswith(('corpus', 'random', 'ood')):
            for s in relayouts(rng, p['src'], 2):
                progs.append({'gen': 'relayout:' + p['gen'], 'src': s})

    def extra(p, r):
        return ['spec_lines s%d %s %s' % (p['j'], det_common.impl_dets_expr(r), det_common.impl_lines_expr(r)),
                'spec_anchor_lines p%d s%d %s' % (p['j'], p['j'], det_common.impl_lines_expr(r))]
    ctx.extra_imports = 'Patterns Patterns2 SpecCases AnchorCases'
    ps, out = det_common.evaluate(ctx, progs, 'c02det-%s-%d' % (ctx.tier, ctx.seed), extra=extra)
    found = False
    n_lines = 0
    n_multi = 0
    bad_s = []
    bad_m = []
    bad_a = []
    for p, r, dm, lm, ex in out:
        spec_fail = ex[0]
        if ex[1]:
            bad_a.append((p, r, [k - 100 for k in ex[1]]))
        for n in DETS:
            v = r['lines'][n]
            if v != 'PANIC':
                n_lines += len(v)
        if '\r\n' in p['src'] or not p['src'].endswith('\n') or any(ord(c) > 127 for c in p['src']):
            n_multi += 1
        if spec_fail:
            bad_s.append((p, r, spec_fail))
        elif lm:
            bad_m.append((p, r, lm))
    rep.coverage['detector_level'] = {'programs': len(out), 'reported_lines_compared': n_lines,
                                      'programs_with_crlf_or_unterminated_or_multibyte': n_multi,
                                      'spec_failures': len(bad_s), 'model_mismatches': len(bad_m)}
    rep.coverage['evaluations'] = rep.coverage.get('evaluations', 0) + len(out)
    rep.coverage['distinct_nontrivial'] = rep.coverage.get('distinct_nontrivial', 0) + \
        len(set(p['src'] for p, r, dm, lm, ex in out if any(r['lines'][n] not in ('PANIC', []) for n in DETS)))
    rep.coverage['traces_validated_against_impl'] = rep.coverage.get('traces_validated_against_impl', 0) + \
        len(out) - len(bad_s) - len(bad_m)
    rep.coverage['detector_level']['anchor_line_failures'] = len(bad_a)
    seen_a = set()
    for p, r, f in bad_a:
        key = tuple(f)
        if key in seen_a or len(seen_a) >= 2:
            continue
        seen_a.add(key)
        found = True
        rep.violation('%s reports a line on which no construct matching its documented pattern begins'
                      % ', '.join(DETS[k] for k in f),
                      {'kind': 'S', 'input': p['src'], 'original_gen': p['gen'],
                       'impl_locations': {DETS[k]: r['det'][DETS[k]] for k in f},
                       'impl_lines': {DETS[k]: r['lines'][DETS[k]] for k in f}, 'n_failing_programs': len(bad_a),
                       'detector_level': True})
    for p, r, f in bad_s[:2]:
        found = True
        rep.violation('the lines reported by %s are not the lines on which its flagged constructs begin'
                      % ', '.join(DETS[k] for k in f),
                      {'kind': 'S', 'input': p['src'], 'original_gen': p['gen'],
                       'impl_locations': {DETS[k]: r['det'][DETS[k]] for k in f},
                       'impl_lines': {DETS[k]: r['lines'][DETS[k]] for k in f}, 'n_failing_programs': len(bad_s),
                       'detector_level': True})
    for p, r, lm in bad_m[:2]:
        rep.violation('analyze_for_* line sets differ from the model for ' + ', '.join(DETS[k] for k in lm),
                      {'kind': 'M', 'input': p['src'], 'original_gen': p['gen'],
                       'correspondence': {'model_function': 'DetCases.analyze_lines', 'rust_function': 'analyze_for_*'},
                       'impl_lines': {DETS[k]: r['lines'][DETS[k]] for k in lm}, 'detector_level': True}, no_input=True)
    found = dir_level(rep, ctx, out) or found
    return found


def dir_compare(ctx, files, tag='cmpdir'):
    """files: [(source text, {detector: lines of analyze_for_* on that text})].  The files are written into a directory
    (every second one into a sub-directory) and analysed by the real analyze_dir of each category.
    -> (number of comparisons, [(index | None, detector or category, lines recorded by analyze_dir, lines expected)])"""
    import os, shutil
    from checks import dir_common as dc
    root = os.path.join(dc.FSROOT, '%s-%d' % (tag, os.getpid()))
    shutil.rmtree(root, ignore_errors=True)
    os.makedirs(os.path.join(root, 'sub'))
    for i, (src, lines) in enumerate(files):
        d = root if i % 2 == 0 else os.path.join(root, 'sub')
        open(os.path.join(d, 'f%04d.sol' % i), 'w', encoding='utf-8', newline='').write(src)
    hz = dc.Harness(ctx.harness)
    bad = []
    n_cmp = 0
    cats = {'opt': DETS[:23], 'vul': DETS[23:27], 'qa': DETS[27:]}
    try:
        for cat, names in cats.items():
            o = hz.req('dir %s %s %s' % (dc.hx(root), cat, ','.join(names)))
            listing, impl = dc.parse_dir_output(o)
            if impl == 'PANIC':
                bad.append((None, cat, 'PANIC', None))
                continue
            got = {}
            for pat, entries in impl:
                for fname, ls in entries:
                    got[(pat, fname.decode())] = ls
            for i, (src, lines) in enumerate(files):
                for n in names:
                    want = lines[n]
                    have = got.get((n, 'f%04d.sol' % i), [])
                    n_cmp += 1
                    if want != have:
                        bad.append((i, n, have, want))
    finally:
        hz.close()
        shutil.rmtree(root, ignore_errors=True)
    return n_cmp, bad


def dir_level(rep, ctx, out):
    """C02 at the level of a directory run: the lines analyze_dir records for a file are the lines analyze_for_* reports
    for that file alone (which the part above has compared with the specification) - whatever white space the file
    begins or ends with, whatever its line ends are"""
    import os, shutil
    from checks import dir_common as dc
    sel = [(p, r) for p, r, dm, lm, ex in out
           if r.get('hang') is None and all(r['lines'][n] != 'PANIC' for n in DETS) and len(p['src']) < 5000]
    # leading blank lines / trailing blanks / CRLF in front: what a trimming or re-encoding reader would change
    chosen = []
    for p, r in sel:
        s = p['src']
        if s[:1] in ('\n', '\r', ' ', '\t') or s != s.rstrip() or '\r\n' in s or p['gen'].startswith(('relayout:', 'special:')):
            chosen.append((p, r))
    chosen = chosen[:150]
    if not chosen:
        return False
    root = os.path.join(dc.FSROOT, 'c02dir-%d' % os.getpid())
    shutil.rmtree(root, ignore_errors=True)
    os.makedirs(os.path.join(root, 'sub'))
    for i, (p, r) in enumerate(chosen):
        d = root if i % 2 == 0 else os.path.join(root, 'sub')
        open(os.path.join(d, 'f%04d.sol' % i), 'w', encoding='utf-8', newline='').write(p['src'])
    hz = dc.Harness(ctx.harness)
    bad = []
    n_cmp = 0
    try:
        from checks.c03 import CAT_PATTERNS
    except Exception:
        CAT_PATTERNS = None
    cats = {'opt': DETS[:23], 'vul': DETS[23:27], 'qa': DETS[27:]}
    for cat, names in cats.items():
        o = hz.req('dir %s %s %s' % (dc.hx(root), cat, ','.join(names)))
        listing, impl = dc.parse_dir_output(o)
        if impl == 'PANIC':
            bad.append((None, cat, 'analyze_dir panicked', None, None))
            continue
        got = {}
        for pat, entries in impl:
            for fname, lines in entries:
                got[(pat, fname.decode())] = lines
        for i, (p, r) in enumerate(chosen):
            for n in names:
                want = r['lines'][n]
                have = got.get((n, 'f%04d.sol' % i), [])
                n_cmp += 1
                if want != have:
                    bad.append((p, n, 'analyze_dir records lines %s for the file, analyze_for_* reports %s for the same text' % (have, want), have, want))
    hz.close()
    shutil.rmtree(root, ignore_errors=True)
    rep.coverage['detector_level']['directory_run_comparisons'] = n_cmp
    rep.coverage['detector_level']['directory_run_files'] = len(chosen)
    rep.coverage['detector_level']['directory_run_mismatches'] = len(bad)
    for p, n, what, have, want in bad[:2]:
        rep.violation('%s: %s' % (n, what),
                      {'kind': 'S', 'input': p['src'] if p else None, 'detector': n, 'lines_in_directory_run': have, 'lines_alone': want,
                       'mode': 'directory', 'detector_level': True, 'n_failing': len(bad)})
    return bool(bad)
