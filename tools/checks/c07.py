from checks import det_check


def run(rep, ctx):
    det_check.run(rep, ctx, 'C07')


def replay(obj):
    return det_check.replay('C07', obj)
