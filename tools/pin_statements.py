#!/usr/bin/env python3
"""Pins the statements of the property theorems and the specification files.
   tools/pin_statements.py           verify: prints the theorems / spec files whose text differs from coq/props/PINNED.json
   tools/pin_statements.py --update  rewrite coq/props/PINNED.json (to be committed together with the statement change)
A theorem in coq/props/*.v is identified by file + name; its statement is the text between the name and `Proof.`,
comments removed, white space normalised.  Every check refuses to report success when a statement it serves, or a
file under coq/spec/, differs from the pinned hash: a property can then not be weakened silently."""
import os, re, sys, json, hashlib, glob
VERIF = os.path.dirname(os.path.dirname(os.path.abspath(__file__)))
COQ = os.path.join(VERIF, 'coq')
PIN = os.path.join(COQ, 'props', 'PINNED.json')


def strip_comments(s):
    out = []
    depth = 0
    i = 0
    while i < len(s):
        if s.startswith('(*', i):
            depth += 1
            i += 2
        elif s.startswith('*)', i) and depth:
            depth -= 1
            i += 2
        else:
            if not depth:
                out.append(s[i])
            i += 1
    return ''.join(out)


def statements(path):
    src = strip_comments(open(path).read())
    out = {}
    for m in re.finditer(r'^\s*(Theorem|Example|Corollary|Lemma)\s+([A-Za-z0-9_\']+)(.*?)\bProof\.', src, flags=re.M | re.S):
        stmt = ' '.join(m.group(3).split())
        out[m.group(2)] = hashlib.sha256(stmt.encode()).hexdigest()[:24]
    return out


def current():
    cur = {'props': {}, 'spec': {}}
    for f in sorted(glob.glob(os.path.join(COQ, 'props', '*.v'))):
        cur['props'][os.path.basename(f)] = statements(f)
    for f in sorted(glob.glob(os.path.join(COQ, 'spec', '*.v'))):
        txt = ' '.join(strip_comments(open(f).read()).split())
        cur['spec'][os.path.basename(f)] = hashlib.sha256(txt.encode()).hexdigest()[:24]
    return cur


def differences(prop=None):
    """-> list of human-readable differences (restricted to props/<prop>*.v when prop is given; spec files always)"""
    if not os.path.exists(PIN):
        return ['coq/props/PINNED.json is missing']
    pinned = json.load(open(PIN))
    cur = current()
    diffs = []
    for f, ths in cur['props'].items():
        if prop and not (f == prop + '.v' or f.startswith(prop + '_')):
            continue
        p = pinned['props'].get(f)
        if p is None:
            diffs.append('props/%s is not pinned' % f)
            continue
        for name, h in ths.items():
            if p.get(name) != h:
                diffs.append('statement of %s in props/%s differs from the pinned one' % (name, f))
        for name in p:
            if name not in ths:
                diffs.append('pinned theorem %s is gone from props/%s' % (name, f))
    for f, p in pinned['props'].items():
        if prop and not (f == prop + '.v' or f.startswith(prop + '_')):
            continue
        if f not in cur['props']:
            diffs.append('pinned file props/%s is gone' % f)
    for f, h in cur['spec'].items():
        if pinned['spec'].get(f) != h:
            diffs.append('specification file spec/%s differs from the pinned one' % f)
    for f in pinned['spec']:
        if f not in cur['spec']:
            diffs.append('pinned specification file spec/%s is gone' % f)
    return diffs


if __name__ == '__main__':
    if '--update' in sys.argv:
        json.dump(current(), open(PIN, 'w'), indent=1, sort_keys=True)
        print('pinned %d property files, %d specification files' % (len(current()['props']), len(current()['spec'])))
    else:
        d = differences()
        print('\n'.join(d) if d else 'all pinned statements unchanged')
        sys.exit(1 if d else 0)
