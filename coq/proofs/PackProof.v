(* C10, detector part: the size table and the exact characterisation of what
   pack_storage_variables / pack_struct_variables report. *)
From Coq Require Import List NArith Bool Lia.
Import ListNotations.
From Solstat Require Import Res Lift Pt Walk WalkProof Utils SlotSpec SlotProof Opt_pack.
Local Open Scope N_scope.
Local Open Scope list_scope.

(* ------------------------------------------------------------------ type_size_table *)
Definition is_sized (e : Expression) : Prop :=
  match e with
  | Expression_Type _ ty =>
      match ty with
      | Ty_Bool | Ty_Address | Ty_AddressPayable | Ty_Int _ | Ty_Uint _ | Ty_Bytes _ => True
      | _ => False
      end
  | _ => False
  end.

Theorem type_size_table_lemma :
  (forall l, get_type_size (Expression_Type l Ty_Bool) = 8) /\
  (forall l, get_type_size (Expression_Type l Ty_Address) = 160) /\
  (forall l, get_type_size (Expression_Type l Ty_AddressPayable) = 160) /\
  (forall l n, get_type_size (Expression_Type l (Ty_Uint n)) = n) /\
  (forall l n, get_type_size (Expression_Type l (Ty_Int n)) = n) /\
  (forall l n, get_type_size (Expression_Type l (Ty_Bytes n)) = 8 * n) /\
  (forall e, ~ is_sized e -> get_type_size e = 256).
Proof.
  repeat split; try reflexivity.
  - intros l n. cbn [get_type_size]. lia.
  - intros e H. destruct e; try reflexivity.
    match goal with |- get_type_size (Expression_Type _ ?t) = _ => destruct t end;
      try reflexivity; exfalso; apply H; exact I.
Qed.

(* the sizes of the types the lexer can produce (uintN / intN with 8 <= N <= 256, bytesN with
   1 <= N <= 32) are sizes of the layout rule *)
Definition lexer_type (e : Expression) : Prop :=
  match e with
  | Expression_Type _ ty =>
      match ty with
      | Ty_Int n | Ty_Uint n => 0 < n <= 256
      | Ty_Bytes n => 0 < n <= 32
      | _ => True
      end
  | _ => True
  end.

Theorem type_size_in_range_lemma : forall e, lexer_type e -> size_ok (get_type_size e).
Proof.
  intros e H. unfold size_ok. destruct e; try (cbn; lia).
  match goal with |- context [Expression_Type _ ?t] => destruct t end; cbn in *; lia.
Qed.

(* ------------------------------------------------------------------ where definitions can occur
   Below an expression, statement, type, parameter ... only expression and statement nodes
   occur: contracts, structs and the other definitions are found at file level or directly
   inside a contract, nowhere else. *)
Definition low (m : node) : Prop :=
  match m with N_Statement _ | N_Expression _ => True | _ => False end.

Lemma Forall_flat_map {A B} (P : B -> Prop) (f : A -> list B) l :
  Forall (fun x => Forall P (f x)) l -> Forall P (flat_map f l).
Proof.
  induction 1 as [|x l Hx _ IH]; cbn [flat_map]; [constructor|].
  apply Forall_app. split; assumption.
Qed.

Ltac lleaf :=
  cbv beta iota;
  lazymatch goal with
  | |- Forall _ (_ :: _) => apply Forall_cons; [exact I | lleaf]
  | |- Forall _ (_ ++ _) => apply Forall_app; split; lleaf
  | |- Forall _ [] => apply Forall_nil
  | |- Forall _ (flat_map _ ?l) =>
      match goal with
      | H : Forall _ l |- _ =>
          apply Forall_flat_map; eapply Forall_impl; [| exact H];
          let x := fresh "x" in let Hx := fresh "Hx" in
          intros x Hx; cbv beta in Hx |- *; prep; lleaf
      end
  | |- _ => assumption
  end.

Ltac larm := intros; unf; prep; lleaf.

Theorem pre_low_mut :
  (forall x, Forall low (pre_Ty x)) /\
  (forall x, Forall low (pre_VariableDeclaration x)) /\
  (forall x, Forall low (pre_Base x)) /\
  (forall x, Forall low (pre_NamedArgument x)) /\
  (forall x, Forall low (pre_Expression x)) /\
  (forall x, Forall low (pre_Param x)) /\
  (forall x, Forall low (pre_FunctionAttribute x)) /\
  (forall x, Forall low (pre_Statement x)) /\
  (forall x, Forall low (pre_CatchClause x)).
Proof. apply Pt_mutind; larm. Qed.

Definition pre_low_VariableDeclaration := proj1 (proj2 pre_low_mut).
Definition pre_low_Base := proj1 (proj2 (proj2 pre_low_mut)).
Definition pre_low_Expression := proj1 (proj2 (proj2 (proj2 (proj2 pre_low_mut)))).
Definition pre_low_Param := proj1 (proj2 (proj2 (proj2 (proj2 (proj2 pre_low_mut))))).
Definition pre_low_FunctionAttribute := proj1 (proj2 (proj2 (proj2 (proj2 (proj2 (proj2 pre_low_mut)))))).
Definition pre_low_Statement := proj1 (proj2 (proj2 (proj2 (proj2 (proj2 (proj2 (proj2 pre_low_mut))))))).

Lemma only_low_below_lemma :
  (forall x, Forall low (pre_Expression x)) /\ (forall x, Forall low (pre_Statement x)).
Proof. split; [exact pre_low_Expression | exact pre_low_Statement]. Qed.

Lemma Forall_flat_map_all {A B} (P : B -> Prop) (f : A -> list B) l :
  (forall x, Forall P (f x)) -> Forall P (flat_map f l).
Proof. intros H. apply Forall_flat_map. apply Forall_forall. intros x _. apply H. Qed.

Lemma low_params ps :
  Forall low (flat_map (fun p : Loc * option Param =>
                          match p with (_, op) => match op with Some q => pre_Param q | None => [] end end) ps).
Proof. apply Forall_flat_map_all. intros [l [q|]]; [apply pre_low_Param | constructor]. Qed.

Lemma pre_low_FunctionDefinition f : Forall low (pre_FunctionDefinition f).
Proof.
  destruct f as [l ty nm nl params attrs rnr rets body]. unfold pre_FunctionDefinition.
  repeat (apply Forall_app; split).
  - apply low_params.
  - apply Forall_flat_map_all. apply pre_low_FunctionAttribute.
  - apply low_params.
  - destruct body; [apply pre_low_Statement | constructor].
Qed.

Lemma pre_low_VariableDefinition v : Forall low (pre_VariableDefinition v).
Proof.
  destruct v as [l ty attrs nm oi]. unfold pre_VariableDefinition.
  apply Forall_app. split; [apply pre_low_Expression|].
  destruct oi; [apply pre_low_Expression | constructor].
Qed.

Lemma pre_low_StructDefinition d : Forall low (pre_StructDefinition d).
Proof. destruct d. unfold pre_StructDefinition. apply Forall_flat_map_all. apply pre_low_VariableDeclaration. Qed.

Lemma pre_low_EventDefinition d : Forall low (pre_EventDefinition d).
Proof.
  destruct d. unfold pre_EventDefinition. apply Forall_flat_map_all.
  intros [ty l i n]. unfold pre_EventParameter. apply pre_low_Expression.
Qed.

Lemma pre_low_ErrorDefinition d : Forall low (pre_ErrorDefinition d).
Proof.
  destruct d. unfold pre_ErrorDefinition. apply Forall_flat_map_all.
  intros [ty l n]. unfold pre_ErrorParameter. apply pre_low_Expression.
Qed.

Lemma pre_low_TypeDefinition d : Forall low (pre_TypeDefinition d).
Proof. destruct d. unfold pre_TypeDefinition. apply pre_low_Expression. Qed.

Lemma pre_low_Using d : Forall low (pre_Using d).
Proof. destruct d as [l li oty g]. unfold pre_Using. destruct oty; [apply pre_low_Expression | constructor]. Qed.

(* a contract part: the node itself, then only expression / statement nodes *)
Lemma pre_ContractPart_shape q :
  exists inner, pre_ContractPart q = N_ContractPart q :: inner /\ Forall low inner.
Proof.
  unfold pre_ContractPart. eexists. split; [reflexivity|].
  destruct q; first
    [ apply pre_low_StructDefinition | apply pre_low_EventDefinition | apply pre_low_ErrorDefinition
    | apply pre_low_VariableDefinition | apply pre_low_FunctionDefinition | apply pre_low_TypeDefinition
    | apply pre_low_Using | constructor ].
Qed.

Lemma in_pre_ContractDefinition c m :
  In m (pre_ContractDefinition c) ->
  low m \/ exists q, In q (ContractDefinition_parts c) /\ m = N_ContractPart q.
Proof.
  destruct c as [l ty nm bases parts]. unfold pre_ContractDefinition. cbn [ContractDefinition_parts].
  intros H. apply in_app_or in H. destruct H as [H|H].
  - left. assert (F : Forall low (flat_map (fun y => pre_Base y) bases))
      by (apply Forall_flat_map_all; apply pre_low_Base).
    rewrite Forall_forall in F. apply F. exact H.
  - apply in_flat_map in H. destruct H as (q & Hq & Hm).
    destruct (pre_ContractPart_shape q) as (inner & E & F). rewrite E in Hm.
    destruct Hm as [Hm|Hm].
    + right. exists q. split; [exact Hq | symmetry; exact Hm].
    + left. rewrite Forall_forall in F. apply F. exact Hm.
Qed.

Lemma in_pre_ContractDefinition_part c q :
  In q (ContractDefinition_parts c) -> In (N_ContractPart q) (pre_ContractDefinition c).
Proof.
  destruct c as [l ty nm bases parts]. unfold pre_ContractDefinition. cbn [ContractDefinition_parts].
  intros H. apply in_or_app. right. apply in_flat_map. exists q. split; [exact H|].
  unfold pre_ContractPart. left. reflexivity.
Qed.

(* the nodes below a file-level item other than the item itself *)
Lemma in_pre_SourceUnitPart p m :
  In m (pre_SourceUnitPart p) ->
  m = N_SourceUnitPart p \/ low m \/
  exists c q, p = SourceUnitPart_ContractDefinition c /\ In q (ContractDefinition_parts c) /\ m = N_ContractPart q.
Proof.
  unfold pre_SourceUnitPart. intros [H|H]; [left; symmetry; exact H|]. right.
  assert (L : forall l, Forall low l -> In m l -> low m)
    by (intros l F Hin; rewrite Forall_forall in F; apply F; exact Hin).
  destruct p; try (left; first
    [ apply (L _ (pre_low_StructDefinition _) H) | apply (L _ (pre_low_EventDefinition _) H)
    | apply (L _ (pre_low_ErrorDefinition _) H) | apply (L _ (pre_low_VariableDefinition _) H)
    | apply (L _ (pre_low_FunctionDefinition _) H) | apply (L _ (pre_low_TypeDefinition _) H)
    | apply (L _ (pre_low_Using _) H) | contradiction ]).
  apply in_pre_ContractDefinition in H. destruct H as [H|(q & Hq & Hm)].
  - left. exact H.
  - right. exists a0, q. repeat split; assumption.
Qed.

Lemma in_pre_SourceUnit parts m :
  In m (pre (N_SourceUnit (Mk_SourceUnit parts))) <->
  m = N_SourceUnit (Mk_SourceUnit parts) \/ exists p, In p parts /\ In m (pre_SourceUnitPart p).
Proof.
  cbn [pre pre_SourceUnit]. split.
  - intros [H|H]; [left; symmetry; exact H|]. right. apply in_flat_map in H. exact H.
  - intros [H|H]; [left; symmetry; exact H|]. right. apply in_flat_map. exact H.
Qed.

(* ------------------------------------------------------------------ kinds *)
Lemma kind_ContractDefinition m :
  kind_of m = Target_ContractDefinition ->
  exists c, m = N_SourceUnitPart (SourceUnitPart_ContractDefinition c).
Proof.
  destruct m as [s|e|su|p|q]; [destruct s|destruct e|idtac|destruct p|destruct q];
    cbn [kind_of]; intros H; try discriminate H. eexists. reflexivity.
Qed.

Lemma kind_StructDefinition m :
  kind_of m = Target_StructDefinition ->
  (exists s, m = N_SourceUnitPart (SourceUnitPart_StructDefinition s)) \/
  (exists s, m = N_ContractPart (ContractPart_StructDefinition s)).
Proof.
  destruct m as [s|e|su|p|q]; [destruct s|destruct e|idtac|destruct p|destruct q];
    cbn [kind_of]; intros H; try discriminate H; [left | right]; eexists; reflexivity.
Qed.

(* the nodes visited by the two detectors *)
Lemma extract_contracts_in parts m :
  In m (extract_target_from_node Target_ContractDefinition (N_SourceUnit (Mk_SourceUnit parts))) <->
  exists c, m = N_SourceUnitPart (SourceUnitPart_ContractDefinition c) /\
            In (SourceUnitPart_ContractDefinition c) parts.
Proof.
  rewrite extract_single_lemma. rewrite filter_In. rewrite Target_eqb_eq. rewrite in_pre_SourceUnit. split.
  - intros [Hin Hk]. destruct (kind_ContractDefinition m Hk) as (c & ->).
    exists c. split; [reflexivity|].
    destruct Hin as [Hin|(p & Hp & Hin)]; [discriminate Hin|].
    apply in_pre_SourceUnitPart in Hin. destruct Hin as [E|[L|(c' & q & _ & _ & E)]].
    + injection E as <-. exact Hp.
    + contradiction L.
    + discriminate E.
  - intros (c & -> & Hin). split; [|reflexivity].
    right. exists (SourceUnitPart_ContractDefinition c). split; [exact Hin|].
    unfold pre_SourceUnitPart. left. reflexivity.
Qed.

Lemma extract_structs_in parts m :
  In m (extract_target_from_node Target_StructDefinition (N_SourceUnit (Mk_SourceUnit parts))) <->
  (exists s, m = N_SourceUnitPart (SourceUnitPart_StructDefinition s) /\
             In (SourceUnitPart_StructDefinition s) parts) \/
  (exists c s, m = N_ContractPart (ContractPart_StructDefinition s) /\
               In (SourceUnitPart_ContractDefinition c) parts /\
               In (ContractPart_StructDefinition s) (ContractDefinition_parts c)).
Proof.
  rewrite extract_single_lemma. rewrite filter_In. rewrite Target_eqb_eq. rewrite in_pre_SourceUnit. split.
  - intros [Hin Hk]. destruct (kind_StructDefinition m Hk) as [(s & ->)|(s & ->)].
    + left. exists s. split; [reflexivity|].
      destruct Hin as [Hin|(p & Hp & Hin)]; [discriminate Hin|].
      apply in_pre_SourceUnitPart in Hin. destruct Hin as [E|[L|(c' & q & _ & _ & E)]].
      * injection E as <-. exact Hp.
      * contradiction L.
      * discriminate E.
    + right. destruct Hin as [Hin|(p & Hp & Hin)]; [discriminate Hin|].
      apply in_pre_SourceUnitPart in Hin. destruct Hin as [E|[L|(c' & q & Ep & Hq & E)]].
      * discriminate E.
      * contradiction L.
      * injection E as <-. subst p. exists c', s. repeat split; assumption.
  - intros [(s & -> & Hin)|(c & s & -> & Hc & Hs)]; (split; [|reflexivity]); right.
    + exists (SourceUnitPart_StructDefinition s). split; [exact Hin|].
      unfold pre_SourceUnitPart. left. reflexivity.
    + exists (SourceUnitPart_ContractDefinition c). split; [exact Hc|].
      unfold pre_SourceUnitPart. right. apply in_pre_ContractDefinition_part. exact Hs.
Qed.

(* ------------------------------------------------------------------ mapM *)
Lemma mapM_concat_in {A B} (f : A -> res (list B)) : forall l ys, mapM f l = Ok ys ->
  forall x, In x (concat ys) <-> exists n y, In n l /\ f n = Ok y /\ In x y.
Proof.
  induction l as [|a l IH]; intros ys H x.
  - cbn [mapM] in H. injection H as <-. cbn [concat]. split; [contradiction|].
    intros (n & y & Hn & _). contradiction.
  - cbn [mapM] in H. destruct (f a) as [y|s] eqn:Ea; cbn [bind] in H; [|discriminate].
    destruct (mapM f l) as [ys'|s] eqn:El; cbn [bind] in H; [|discriminate].
    injection H as <-. cbn [concat]. rewrite in_app_iff. rewrite (IH ys' eq_refl x). split.
    + intros [Hx|(n & y' & Hn & Hf & Hx)].
      * exists a, y. repeat split; [left; reflexivity | exact Ea | exact Hx].
      * exists n, y'. repeat split; [right; exact Hn | exact Hf | exact Hx].
    + intros (n & y' & [<-|Hn] & Hf & Hx).
      * left. rewrite Ea in Hf. injection Hf as <-. exact Hx.
      * right. exists n, y'. repeat split; assumption.
Qed.

Lemma mapM_total {A B} (f : A -> res B) : forall l,
  (forall n, In n l -> exists y, f n = Ok y) -> exists ys, mapM f l = Ok ys.
Proof.
  induction l as [|a l IH]; intros H; [exists []; reflexivity|].
  destruct (H a (or_introl eq_refl)) as (y & Ey).
  destruct (IH (fun n Hn => H n (or_intror Hn))) as (ys & Eys).
  exists (y :: ys). cbn [mapM]. rewrite Ey, Eys. reflexivity.
Qed.

Lemma report_if_in b (l x : Loc) : In x (report_if b l) <-> b = true /\ x = l.
Proof.
  destruct b; cbn [report_if In]; split.
  - intros [H|H]; [split; [reflexivity | symmetry; exact H] | contradiction].
  - intros [_ ->]. left. reflexivity.
  - contradiction.
  - intros [H _]. discriminate H.
Qed.

Lemma bind_report_in (r : res bool) (l x : Loc) y :
  bind r (fun b => Ok (report_if b l)) = Ok y -> (In x y <-> r = Ok true /\ x = l).
Proof.
  destruct r as [b|s]; cbn [bind]; [|discriminate]. intros H. injection H as <-.
  rewrite report_if_in. split.
  - intros [-> ->]. split; reflexivity.
  - intros [H ->]. injection H as ->. split; reflexivity.
Qed.

(* ------------------------------------------------------------------ pack_storage_exact *)
Theorem pack_storage_exact_lemma : forall parts locs,
  pack_storage_variables_optimization (Mk_SourceUnit parts) = Ok locs ->
  forall l, In l locs <->
    exists c, In (SourceUnitPart_ContractDefinition c) parts /\ l = ContractDefinition_loc c /\
              can_be_packed (contract_variable_sizes c) = Ok true.
Proof.
  intros parts locs H l. unfold pack_storage_variables_optimization in H.
  destruct (mapM pack_storage_node _) as [ls|s] eqn:E; cbn [bind] in H; [|discriminate].
  injection H as <-. rewrite (mapM_concat_in _ _ _ E). split.
  - intros (n & y & Hn & Hf & Hx). apply extract_contracts_in in Hn. destruct Hn as (c & -> & Hc).
    cbn [pack_storage_node] in Hf. apply (bind_report_in _ _ l) in Hf. apply Hf in Hx.
    exists c. destruct Hx as [Hb ->]. repeat split; assumption.
  - intros (c & Hc & -> & Hb).
    exists (N_SourceUnitPart (SourceUnitPart_ContractDefinition c)), [ContractDefinition_loc c].
    repeat split.
    + apply extract_contracts_in. exists c. split; [reflexivity | exact Hc].
    + cbn [pack_storage_node]. rewrite Hb. reflexivity.
    + left. reflexivity.
Qed.

(* the `.unwrap()` never fails, and the only possible panic is the arithmetic one inside
   storage_slots_used *)
Theorem pack_storage_total_lemma : forall parts,
  (forall c, In (SourceUnitPart_ContractDefinition c) parts ->
             exists b, can_be_packed (contract_variable_sizes c) = Ok b) ->
  exists locs, pack_storage_variables_optimization (Mk_SourceUnit parts) = Ok locs.
Proof.
  intros parts H. unfold pack_storage_variables_optimization.
  destruct (mapM_total pack_storage_node
              (extract_target_from_node Target_ContractDefinition (N_SourceUnit (Mk_SourceUnit parts)))) as (ys & E).
  - intros n Hn. apply extract_contracts_in in Hn. destruct Hn as (c & -> & Hc).
    destruct (H c Hc) as (b & Eb). cbn [pack_storage_node]. rewrite Eb. eexists. reflexivity.
  - rewrite E. eexists. reflexivity.
Qed.

(* ------------------------------------------------------------------ pack_struct_exact *)
Definition struct_of_file (parts : list SourceUnitPart) (s : StructDefinition) : Prop :=
  In (SourceUnitPart_StructDefinition s) parts \/
  exists c, In (SourceUnitPart_ContractDefinition c) parts /\
            In (ContractPart_StructDefinition s) (ContractDefinition_parts c).

Theorem pack_struct_exact_lemma : forall parts locs,
  pack_struct_variables_optimization (Mk_SourceUnit parts) = Ok locs ->
  forall l, In l locs <->
    exists s, struct_of_file parts s /\ l = StructDefinition_loc s /\
              can_be_packed (struct_variable_sizes s) = Ok true.
Proof.
  intros parts locs H l. unfold pack_struct_variables_optimization in H.
  destruct (mapM pack_struct_node _) as [ls|m] eqn:E; cbn [bind] in H; [|discriminate].
  injection H as <-. rewrite (mapM_concat_in _ _ _ E). unfold struct_of_file. split.
  - intros (n & y & Hn & Hf & Hx). apply extract_structs_in in Hn.
    destruct Hn as [(s & -> & Hs)|(c & s & -> & Hc & Hs)];
      cbn [pack_struct_node] in Hf; unfold struct_can_be_packed in Hf;
      apply (bind_report_in _ _ l) in Hf; apply Hf in Hx; destruct Hx as [Hb ->]; exists s.
    + repeat split; [left; exact Hs | exact Hb].
    + repeat split; [right; exists c; split; assumption | exact Hb].
  - intros (s & [Hs|(c & Hc & Hs)] & -> & Hb).
    + exists (N_SourceUnitPart (SourceUnitPart_StructDefinition s)), [StructDefinition_loc s].
      repeat split.
      * apply extract_structs_in. left. exists s. split; [reflexivity | exact Hs].
      * cbn [pack_struct_node]. unfold struct_can_be_packed. rewrite Hb. reflexivity.
      * left. reflexivity.
    + exists (N_ContractPart (ContractPart_StructDefinition s)), [StructDefinition_loc s].
      repeat split.
      * apply extract_structs_in. right. exists c, s. repeat split; assumption.
      * cbn [pack_struct_node]. unfold struct_can_be_packed. rewrite Hb. reflexivity.
      * left. reflexivity.
Qed.

Theorem pack_struct_total_lemma : forall parts,
  (forall s, struct_of_file parts s -> exists b, can_be_packed (struct_variable_sizes s) = Ok b) ->
  exists locs, pack_struct_variables_optimization (Mk_SourceUnit parts) = Ok locs.
Proof.
  intros parts H. unfold pack_struct_variables_optimization.
  destruct (mapM_total pack_struct_node
              (extract_target_from_node Target_StructDefinition (N_SourceUnit (Mk_SourceUnit parts)))) as (ys & E).
  - intros n Hn. apply extract_structs_in in Hn.
    destruct Hn as [(s & -> & Hs)|(c & s & -> & Hc & Hs)]; cbn [pack_struct_node]; unfold struct_can_be_packed.
    + destruct (H s (or_introl Hs)) as (b & Eb). rewrite Eb. eexists. reflexivity.
    + destruct (H s (or_intror (ex_intro _ c (conj Hc Hs)))) as (b & Eb). rewrite Eb. eexists. reflexivity.
  - rewrite E. eexists. reflexivity.
Qed.

(* members of lexer-producible types never make the comparison panic *)
Lemma contract_sizes_ok c :
  (forall v, In (ContractPart_VariableDefinition v) (ContractDefinition_parts c) ->
             lexer_type (VariableDefinition_ty v)) ->
  Forall size_ok (contract_variable_sizes c).
Proof.
  intros H. unfold contract_variable_sizes. apply Forall_flat_map. apply Forall_forall.
  intros q Hq. destruct q; try constructor; [|constructor].
  apply type_size_in_range_lemma. apply H. exact Hq.
Qed.

Lemma struct_sizes_ok s :
  Forall (fun d => lexer_type (VariableDeclaration_ty d)) (StructDefinition_fields s) ->
  Forall size_ok (struct_variable_sizes s).
Proof.
  intros H. unfold struct_variable_sizes. apply Forall_map.
  eapply Forall_impl; [| exact H]. intros d Hd. apply type_size_in_range_lemma. exact Hd.
Qed.
