(* The effect inventory regenerated from the source (gen/Effects.v) is exactly what the model of a
   run (model/Run.v) accounts for.  Decided by computation on the regenerated lists: a new call
   site, a moved one, or any shared mutable state makes this file stop compiling. *)
From Coq Require Import List String NArith.
Import ListNotations.
From Solstat Require Import Effects.
Local Open Scope string_scope.

(* what model/Run.v, model/Opts.v and model/Dir.v account for *)
Definition expected_write : list (string * string) :=
  [ ("src/report/generation.rs", "fs::write") ].           (* generate_report: the last action of main *)

Definition expected_read : list (string * string) :=
  [ ("src/analyzer/optimizations/mod.rs", "fs::read_dir");      (* analyze_dir: list the directory *)
    ("src/analyzer/optimizations/mod.rs", ".is_dir()");         (*   recurse into sub-directories *)
    ("src/analyzer/optimizations/mod.rs", "fs::read_to_string");(*   read an eligible file (under the name filter) *)
    ("src/analyzer/qa/mod.rs", "fs::read_dir");
    ("src/analyzer/qa/mod.rs", ".is_dir()");
    ("src/analyzer/qa/mod.rs", "fs::read_to_string");
    ("src/analyzer/vulnerabilities/mod.rs", "fs::read_dir");
    ("src/analyzer/vulnerabilities/mod.rs", ".is_dir()");
    ("src/analyzer/vulnerabilities/mod.rs", "fs::read_to_string");
    ("src/opts.rs", "fs::read_to_string");                      (* Opts::new: the --toml file *)
    ("src/opts.rs", "fs::read_dir") ].                          (* Opts::new: does ./contracts exist *)

Definition expected_process : list (string * string) :=
  [ ("src/main.rs", "thread::Builder");                         (* main: the analysis runs on one thread with a large stack, *)
    ("src/main.rs", "thread spawn");                            (*   spawned once and joined before the process ends *)
    ("src/main.rs", "process::exit");                           (* main: exit(101) when that thread panicked *)
    ("src/opts.rs", "process::exit") ].                         (* Opts::new: exit(1) *)

Lemma effects_match_model_lemma :
  effects_write = expected_write /\ effects_read = expected_read /\ effects_process = expected_process.
Proof. repeat split; vm_compute; reflexivity. Qed.

Lemma no_shared_state_lemma : shared_state = [].
Proof. vm_compute. reflexivity. Qed.

Definition count (api : string) (l : list (string * string)) : nat :=
  List.length (filter (fun fa => String.eqb (snd fa) api) l).

Lemma effect_counts_lemma :
  count "fs::read_dir" effects = 4%nat /\ count "fs::read_to_string" effects = 4%nat /\
  count ".is_dir()" effects = 3%nat /\ count "fs::write" effects = 1%nat /\
  count "process::exit" effects = 2%nat /\ count "thread spawn" effects = 1%nat /\ List.length effects = 16%nat.
Proof. repeat split; vm_compute; reflexivity. Qed.
