(* Where nodes of declaration kinds can occur in the complete pre-order: below an
   expression, statement, type, parameter... only expression and statement nodes occur,
   so ContractDefinition / FunctionDefinition / PragmaDirective / Using / StructDefinition
   nodes are exactly the ones visible in the declared structure of the file. *)
From Coq Require Import List String Ascii NArith ZArith Bool.
Import ListNotations.
From Solstat Require Import Lift Pt Walk Res Nodes WalkProof Patterns DetBase.

Definition ES (l : list node) : Prop := Forall (fun n => is_es_node n = true) l.

Lemma Forall_flat_map_intro {A B} (P : B -> Prop) (f : A -> list B) l :
  Forall (fun x => Forall P (f x)) l -> Forall P (flat_map f l).
Proof.
  induction 1 as [|x l Hx Hl IH]; cbn; [constructor|]. apply Forall_app. split; assumption.
Qed.

Ltac unf_pre :=
  cbn [pre_Expression pre_Ty pre_Param pre_NamedArgument pre_FunctionAttribute pre_Base
       pre_VariableDeclaration pre_Statement pre_CatchClause].

Ltac es_leaf :=
  lazymatch goal with
  | |- Forall _ (_ ++ _) => apply Forall_app; split; es_leaf
  | |- Forall _ [] => constructor
  | |- Forall _ (_ :: _) => constructor; [reflexivity | es_leaf]
  | |- Forall _ (flat_map _ ?l) =>
      match goal with
      | H : Forall _ l |- _ =>
          apply Forall_flat_map_intro; eapply Forall_impl; [| exact H];
          let x := fresh "x" in let Hx := fresh "Hx" in
          intros x Hx; cbv beta in Hx |- *; prep; es_leaf
      end
  | |- _ => match goal with H : ?g |- ?g => exact H end
  end.

Ltac es_arm := intros; unfold ES in *; unf_pre; prep; es_leaf.

Theorem es_mut :
  (forall x, ES (pre_Ty x)) /\
  (forall x, ES (pre_VariableDeclaration x)) /\
  (forall x, ES (pre_Base x)) /\
  (forall x, ES (pre_NamedArgument x)) /\
  (forall x, ES (pre_Expression x)) /\
  (forall x, ES (pre_Param x)) /\
  (forall x, ES (pre_FunctionAttribute x)) /\
  (forall x, ES (pre_Statement x)) /\
  (forall x, ES (pre_CatchClause x)).
Proof. apply Pt_mutind; es_arm. Qed.

Definition es_Ty := proj1 es_mut.
Definition es_VariableDeclaration := proj1 (proj2 es_mut).
Definition es_Base := proj1 (proj2 (proj2 es_mut)).
Definition es_NamedArgument := proj1 (proj2 (proj2 (proj2 es_mut))).
Definition es_Expression := proj1 (proj2 (proj2 (proj2 (proj2 es_mut)))).
Definition es_Param := proj1 (proj2 (proj2 (proj2 (proj2 (proj2 es_mut))))).
Definition es_FunctionAttribute := proj1 (proj2 (proj2 (proj2 (proj2 (proj2 (proj2 es_mut)))))).
Definition es_Statement := proj1 (proj2 (proj2 (proj2 (proj2 (proj2 (proj2 (proj2 es_mut))))))).
Definition es_CatchClause := proj2 (proj2 (proj2 (proj2 (proj2 (proj2 (proj2 (proj2 es_mut))))))).

Lemma ES_flat_map {A} (f : A -> list node) l : (forall x, ES (f x)) -> ES (flat_map f l).
Proof. intros H. apply Forall_flat_map_intro. apply Forall_forall. intros x _. apply H. Qed.

Lemma ES_app a b : ES a -> ES b -> ES (a ++ b).
Proof. intros Ha Hb. apply Forall_app. split; assumption. Qed.

Lemma es_params ps :
  ES (flat_map (fun p : Loc * option Param => match p with (_, op) => match op with Some q => pre_Param q | None => [] end end) ps).
Proof. apply ES_flat_map. intros [l [q|]]; [apply es_Param | constructor]. Qed.

Lemma es_FunctionDefinition f : ES (pre_FunctionDefinition f).
Proof.
  destruct f. unfold pre_FunctionDefinition. repeat apply ES_app.
  - apply es_params.
  - apply ES_flat_map. apply es_FunctionAttribute.
  - apply es_params.
  - match goal with |- ES (match ?b with _ => _ end) => destruct b end; [apply es_Statement | constructor].
Qed.

Lemma es_VariableDefinition v : ES (pre_VariableDefinition v).
Proof.
  destruct v. unfold pre_VariableDefinition. apply ES_app; [apply es_Expression|].
  match goal with |- ES (match ?b with _ => _ end) => destruct b end; [apply es_Expression | constructor].
Qed.

Lemma es_StructDefinition d : ES (pre_StructDefinition d).
Proof. destruct d. unfold pre_StructDefinition. apply ES_flat_map. apply es_VariableDeclaration. Qed.
Lemma es_EventDefinition d : ES (pre_EventDefinition d).
Proof. destruct d. unfold pre_EventDefinition. apply ES_flat_map. intros []. apply es_Expression. Qed.
Lemma es_ErrorDefinition d : ES (pre_ErrorDefinition d).
Proof. destruct d. unfold pre_ErrorDefinition. apply ES_flat_map. intros []. apply es_Expression. Qed.
Lemma es_TypeDefinition d : ES (pre_TypeDefinition d).
Proof. destruct d. apply es_Expression. Qed.
Lemma es_Using d : ES (pre_Using d).
Proof.
  destruct d. unfold pre_Using.
  match goal with |- ES (match ?b with _ => _ end) => destruct b end; [apply es_Expression | constructor].
Qed.

(* what lies below a contract part / a non-contract source unit part *)
Definition below_cp (p : ContractPart) : list node := tl (pre_ContractPart p).
Lemma pre_ContractPart_cons p : pre_ContractPart p = N_ContractPart p :: below_cp p.
Proof. reflexivity. Qed.
Lemma es_below_cp p : ES (below_cp p).
Proof.
  destruct p; cbn; first
    [ apply es_StructDefinition | apply es_EventDefinition | apply es_ErrorDefinition
    | apply es_VariableDefinition | apply es_FunctionDefinition | apply es_TypeDefinition
    | apply es_Using | constructor ].
Qed.

Definition below_sup (p : SourceUnitPart) : list node := tl (pre_SourceUnitPart p).
Lemma pre_SourceUnitPart_cons p : pre_SourceUnitPart p = N_SourceUnitPart p :: below_sup p.
Proof. reflexivity. Qed.

(* ---- kinds that no expression/statement node carries *)
Definition es_free (t : Target) : Prop := forall n, is_es_node n = true -> Target_eqb (kind_of n) t = false.

Lemma es_free_ContractDefinition : es_free Target_ContractDefinition.
Proof. intros [s|e|su|p|p] H; try discriminate H; [destruct s|destruct e]; reflexivity. Qed.
Lemma es_free_FunctionDefinition : es_free Target_FunctionDefinition.
Proof. intros [s|e|su|p|p] H; try discriminate H; [destruct s|destruct e]; reflexivity. Qed.
Lemma es_free_PragmaDirective : es_free Target_PragmaDirective.
Proof. intros [s|e|su|p|p] H; try discriminate H; [destruct s|destruct e]; reflexivity. Qed.
Lemma es_free_Using : es_free Target_Using.
Proof. intros [s|e|su|p|p] H; try discriminate H; [destruct s|destruct e]; reflexivity. Qed.
Lemma es_free_StructDefinition : es_free Target_StructDefinition.
Proof. intros [s|e|su|p|p] H; try discriminate H; [destruct s|destruct e]; reflexivity. Qed.

Definition ksel (t : Target) (n : node) : bool := Target_eqb (kind_of n) t.

Lemma filter_es_free t l : es_free t -> ES l -> filter (ksel t) l = [].
Proof.
  intros Ht H. induction H as [|n l Hn Hl IH]; [reflexivity|].
  cbn. unfold ksel at 1. rewrite (Ht n Hn). exact IH.
Qed.

(* the declared skeleton: file, top-level parts, members of contracts *)
Definition skeleton_part (p : SourceUnitPart) : list node :=
  N_SourceUnitPart p ::
  match p with
  | SourceUnitPart_ContractDefinition c => map N_ContractPart (ContractDefinition_parts c)
  | _ => []
  end.
Definition skeleton (su : SourceUnit) : list node :=
  match su with Mk_SourceUnit parts => N_SourceUnit su :: flat_map skeleton_part parts end.

Lemma filter_flat_map {A B} (p : B -> bool) (f : A -> list B) l :
  filter p (flat_map f l) = flat_map (fun x => filter p (f x)) l.
Proof. induction l as [|x l IH]; cbn; [reflexivity|]. rewrite filter_app, IH. reflexivity. Qed.

Lemma filter_pre_cp t p : es_free t -> filter (ksel t) (pre_ContractPart p) = filter (ksel t) [N_ContractPart p].
Proof.
  intros Ht. rewrite pre_ContractPart_cons.
  change (N_ContractPart p :: below_cp p) with ([N_ContractPart p] ++ below_cp p).
  rewrite filter_app. rewrite (filter_es_free t (below_cp p) Ht (es_below_cp p)). apply app_nil_r.
Qed.

Lemma filter_pre_contract t c :
  es_free t ->
  filter (ksel t) (pre_ContractDefinition c) = filter (ksel t) (map N_ContractPart (ContractDefinition_parts c)).
Proof.
  intros Ht. destruct c as [l ty nm bases parts]. unfold pre_ContractDefinition. cbn [ContractDefinition_parts].
  rewrite filter_app.
  match goal with |- filter _ ?X ++ _ = _ =>
    assert (EX : filter (ksel t) X = []) by (apply (filter_es_free t _ Ht); apply ES_flat_map; apply es_Base);
    rewrite EX end.
  cbn [app]. rewrite filter_flat_map. induction parts as [|p ps IH]; [reflexivity|].
  cbn [flat_map map filter]. rewrite IH. rewrite (filter_pre_cp t p Ht). cbn [filter]. 
  destruct (ksel t (N_ContractPart p)); reflexivity.
Qed.

Lemma filter_pre_sup t p : es_free t -> filter (ksel t) (pre_SourceUnitPart p) = filter (ksel t) (skeleton_part p).
Proof.
  intros Ht. unfold skeleton_part. rewrite pre_SourceUnitPart_cons.
  cbn [filter]. f_equal.
  assert (E : filter (ksel t) (below_sup p) =
              filter (ksel t) match p with
                              | SourceUnitPart_ContractDefinition c => map N_ContractPart (ContractDefinition_parts c)
                              | _ => [] end).
  { destruct p; cbn [below_sup pre_SourceUnitPart tl];
      first [ apply filter_pre_contract; exact Ht
            | apply (filter_es_free t _ Ht); first
                [ apply es_StructDefinition | apply es_EventDefinition | apply es_ErrorDefinition
                | apply es_VariableDefinition | apply es_FunctionDefinition | apply es_TypeDefinition
                | apply es_Using | constructor ] ]. }
  destruct (ksel t (N_SourceUnitPart p)); rewrite E; reflexivity.
Qed.

Theorem filter_pre_skeleton t su :
  es_free t -> filter (ksel t) (pre (N_SourceUnit su)) = filter (ksel t) (skeleton su).
Proof.
  intros Ht. destruct su as [parts]. unfold pre, pre_SourceUnit, skeleton.
  cbn [filter]. 
  assert (E : filter (ksel t) (flat_map (fun y => pre_SourceUnitPart y) parts) =
              filter (ksel t) (flat_map skeleton_part parts)).
  { rewrite !filter_flat_map. apply flat_map_ext. intros p. apply filter_pre_sup. exact Ht. }
  destruct (ksel t (N_SourceUnit (Mk_SourceUnit parts))); rewrite E; reflexivity.
Qed.

(* extraction from a contract node *)
Theorem filter_pre_contract_node t c :
  es_free t ->
  filter (ksel t) (pre (N_SourceUnitPart (SourceUnitPart_ContractDefinition c))) =
  filter (ksel t) (N_SourceUnitPart (SourceUnitPart_ContractDefinition c) :: map N_ContractPart (ContractDefinition_parts c)).
Proof. intros Ht. apply (filter_pre_sup t (SourceUnitPart_ContractDefinition c) Ht). Qed.

Lemma extract_ksel t n : extract_target_from_node t n = filter (ksel t) (pre n).
Proof. apply extract_single_lemma. Qed.
