(* C19: helpers evaluated by vm_compute in the generated cases files of tools/checks/c19.py. *)
From Coq Require Import List String Ascii NArith ZArith Bool.
Import ListNotations.
From Solstat Require Import Lift Pt Walk Res Nodes Utils Detectors Cases DetCases Patterns Compose Compose1.
Local Open Scope list_scope.

Definition parts_of (su : SourceUnit) : list SourceUnitPart := match su with Mk_SourceUnit ps => ps end.

(* number of top-level parts and which of them are pragma directives (compared with the item
   splitter of the check) *)
Definition c19_shape (su : SourceUnit) : list bool := map sp_is_pragma (parts_of su).

(* the hypotheses of the C19 theorems, as booleans *)
Definition c19_hyps (su : SourceUnit) : bool * bool :=
  (no_cross_mentions_b (parts_of su), incdec_locs_separate_b (parts_of su)).

(* model detectors on `isolate parts k` against the implementation's location sets on the file with
   every other item blanked out: indices of detectors that differ *)
Definition c19_iso_check (su : SourceUnit) (k : N) (impl : list (option (list (N * N)))) : list N :=
  check_dets (isolate (parts_of su) (N.to_nat k)) impl.

Definition c19_items (su : SourceUnit) : list N := map N.of_nat (item_indices (parts_of su)).
