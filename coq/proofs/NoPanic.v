(* C04: no detector panics on a tree the parser can produce; nor does the line lookup. *)
From Coq Require Import List String Ascii NArith ZArith Bool Lia Sorted.
Import ListNotations.
From Solstat Require Import Lift Pt Walk Res Nodes Utils Detectors Opt_pack Cases DetCases Patterns Patterns2
     LineSpec SlotSpec DetBase DetC05 DetC05b DetC06 DetC07 DetC08 DetC09 SlotProof PackProof LinesDet.
Local Open Scope list_scope.

(* what the lexer/grammar guarantee about a parse tree (checked on every parsed tree by the
   checks): type keywords are uint8..uint256, int8..int256, bytes1..bytes32; a string-literal
   expression has at least one part; fewer than 2^32 members per contract / struct *)
Definition wf_parser (su : SourceUnit) : Prop :=
  wf_require_strings su = true /\
  match su with Mk_SourceUnit parts =>
    (forall c, In (SourceUnitPart_ContractDefinition c) parts ->
               (forall v, In (ContractPart_VariableDefinition v) (ContractDefinition_parts c) -> lexer_type (VariableDefinition_ty v)) /\
               (N.of_nat (List.length (contract_variable_sizes c)) < 2 ^ 32)%N) /\
    (forall s, struct_of_file parts s ->
               Forall (fun d => lexer_type (VariableDeclaration_ty d)) (StructDefinition_fields s) /\
               (N.of_nat (List.length (struct_variable_sizes s)) < 2 ^ 32)%N)
  end.

(* the 30 detectors in the order of harness/src/main.rs *)
Definition all_detectors : list (SourceUnit -> res (list Loc)) :=
  [ address_balance_optimization; address_zero_optimization; assign_update_array_optimization;
    bool_equals_bool_optimization; cache_array_length_optimization; constant_variable_optimization;
    immutable_variables_optimization; increment_decrement_optimization; memory_to_calldata_optimization;
    multiple_require_optimization; optimal_comparison_optimization; pack_storage_variables_optimization;
    pack_struct_variables_optimization; payable_function_optimization; private_constant_optimization;
    safe_math_pre_080_optimization; safe_math_post_080_optimization; shift_math_optimization;
    short_revert_string_optimization; solidity_keccak256_optimization; solidity_math_optimization;
    sstore_optimization; string_error_optimization; divide_before_multiply_vulnerability;
    floating_pragma_vulnerability; unprotected_selfdestruct_vulnerability; unsafe_erc20_operation_vulnerability;
    constructor_order_qa; private_func_leading_underscore; private_vars_leading_underscore ].

Ltac ok_by lem := eexists; apply lem.

Theorem no_panic_lemma su :
  wf_parser su -> Forall (fun d => exists locs, d su = Ok locs) all_detectors.
Proof.
  intros [Hstr Hsz]. unfold all_detectors.
  repeat match goal with |- Forall _ (_ :: _) => constructor | |- Forall _ [] => constructor end.
  - ok_by address_balance_closed.
  - ok_by address_zero_closed.
  - ok_by assign_update_closed.
  - ok_by bool_equals_bool_closed.
  - ok_by cache_array_length_closed.
  - ok_by constant_closed.
  - ok_by immutable_closed.
  - ok_by increment_decrement_closed.
  - ok_by memory_to_calldata_closed.
  - destruct (multiple_require_closed su) as [ls [H _]]. exists ls. exact H.
  - ok_by optimal_comparison_closed.
  - destruct su as [parts]. destruct Hsz as [Hc _]. apply pack_storage_total_lemma. intros c Hin.
    destruct (Hc c Hin) as [Hty Hlen]. eexists. apply can_be_packed_total_lemma; [apply contract_sizes_ok; exact Hty|exact Hlen].
  - destruct su as [parts]. destruct Hsz as [_ Hs]. apply pack_struct_total_lemma. intros s Hin.
    destruct (Hs s Hin) as [Hty Hlen]. eexists. apply can_be_packed_total_lemma; [apply struct_sizes_ok; exact Hty|exact Hlen].
  - ok_by payable_function_closed.
  - ok_by private_constant_closed.
  - eexists. unfold safe_math_pre_080_optimization. apply safe_math_closed.
  - eexists. unfold safe_math_post_080_optimization. apply safe_math_closed.
  - ok_by shift_math_closed.
  - ok_by short_revert_closed.
  - ok_by solidity_keccak256_closed.
  - ok_by solidity_math_closed.
  - ok_by sstore_closed.
  - eexists. apply string_errors_closed. exact Hstr.
  - ok_by divide_before_multiply_closed.
  - ok_by floating_pragma_closed.
  - ok_by unprotected_selfdestruct_closed.
  - ok_by unsafe_erc20_closed.
  - ok_by constructor_order_closed.
  - destruct (private_func_closed su) as [ls [H _]]. exists ls. exact H.
  - destruct (private_vars_closed su) as [ls [H _]]. exists ls. exact H.
Qed.

(* ... and the whole per-file analysis (detector + line lookup) returns a sorted line set *)
Theorem no_panic_lines_lemma su src :
  wf_parser su -> lines_lt_i32 src ->
  Forall (fun d => exists ls, analyze_lines d src su = Ok ls /\ StronglySorted Z.lt ls) all_detectors.
Proof.
  intros Hwf Hlt. eapply Forall_impl; [|apply no_panic_lemma; exact Hwf].
  intros d [locs Hd]. destruct (analyze_lines_spec d src su locs Hd Hlt) as [ls [Ha [Hs _]]].
  exists ls. split; assumption.
Qed.

(* the panic of string_errors is real in the model when the hypothesis fails *)
Definition bad_tree : SourceUnit :=
  Mk_SourceUnit
    [ SourceUnitPart_PragmaDirective (Loc_File 0 0 22) (Mk_Identifier (Loc_File 0 7 15) "solidity")
                                     (Mk_StringLiteral (Loc_File 0 16 22) false "0.8.10");
      SourceUnitPart_VariableDefinition
        (Mk_VariableDefinition (Loc_File 0 23 40) (Expression_Type (Loc_File 0 23 27) Ty_Bool) []
           (Mk_Identifier (Loc_File 0 28 29) "b")
           (Some (Expression_FunctionCall (Loc_File 0 32 40) (Expression_Variable (Mk_Identifier (Loc_File 0 32 39) "require"))
                                          [Expression_StringLiteral []]))) ].

(* ---- a boolean test of wf_parser, evaluated on every tree the real parser returns *)
Definition lexer_type_b (e : Expression) : bool :=
  match e with
  | Expression_Type _ ty =>
      match ty with
      | Ty_Int n | Ty_Uint n => ((0 <? n) && (n <=? 256))%N
      | Ty_Bytes n => ((0 <? n) && (n <=? 32))%N
      | _ => true
      end
  | _ => true
  end.

Lemma lexer_type_b_sound e : lexer_type_b e = true -> lexer_type e.
Proof.
  destruct e; try exact (fun _ => I). cbn.
  match goal with |- context [match ?t with _ => _ end] => destruct t; try exact (fun _ => I) end;
    intros H; apply andb_prop in H; destruct H as [H1 H2]; apply N.ltb_lt in H1; apply N.leb_le in H2; split; assumption.
Qed.

Definition struct_ok_b (s : StructDefinition) : bool :=
  forallb (fun d => lexer_type_b (VariableDeclaration_ty d)) (StructDefinition_fields s)
  && (N.of_nat (List.length (struct_variable_sizes s)) <? 2 ^ 32)%N.

Definition contract_ok_b (c : ContractDefinition) : bool :=
  forallb (fun p => match p with
                    | ContractPart_VariableDefinition v => lexer_type_b (VariableDefinition_ty v)
                    | ContractPart_StructDefinition s => struct_ok_b s
                    | _ => true end) (ContractDefinition_parts c)
  && (N.of_nat (List.length (contract_variable_sizes c)) <? 2 ^ 32)%N.

Definition wf_parser_b (su : SourceUnit) : bool :=
  wf_require_strings su &&
  match su with Mk_SourceUnit parts =>
    forallb (fun p => match p with
                      | SourceUnitPart_ContractDefinition c => contract_ok_b c
                      | SourceUnitPart_StructDefinition s => struct_ok_b s
                      | _ => true end) parts end.

Lemma struct_ok_b_sound s :
  struct_ok_b s = true ->
  Forall (fun d => lexer_type (VariableDeclaration_ty d)) (StructDefinition_fields s) /\
  (N.of_nat (List.length (struct_variable_sizes s)) < 2 ^ 32)%N.
Proof.
  unfold struct_ok_b. intros H. apply andb_prop in H. destruct H as [H1 H2]. split; [|apply N.ltb_lt; exact H2].
  rewrite forallb_forall in H1. apply Forall_forall. intros d Hd. apply lexer_type_b_sound. apply H1. exact Hd.
Qed.

Theorem wf_parser_b_sound su : wf_parser_b su = true -> wf_parser su.
Proof.
  unfold wf_parser_b, wf_parser. intros H. apply andb_prop in H. destruct H as [Hs Hp]. split; [exact Hs|].
  destruct su as [parts]. rewrite forallb_forall in Hp. split.
  - intros c Hc. specialize (Hp _ Hc). cbn in Hp. unfold contract_ok_b in Hp. apply andb_prop in Hp.
    destruct Hp as [H1 H2]. split; [|apply N.ltb_lt; exact H2].
    intros v Hv. rewrite forallb_forall in H1. specialize (H1 _ Hv). cbn in H1. apply lexer_type_b_sound. exact H1.
  - intros s [Hs'|[c [Hc Hs']]].
    + specialize (Hp _ Hs'). cbn in Hp. apply struct_ok_b_sound. exact Hp.
    + specialize (Hp _ Hc). cbn in Hp. unfold contract_ok_b in Hp. apply andb_prop in Hp. destruct Hp as [H1 _].
      rewrite forallb_forall in H1. specialize (H1 _ Hs'). cbn in H1. apply struct_ok_b_sound. exact H1.
Qed.

(* model panics, per detector index, for the correspondence check of C04 *)
Definition model_panics (su : SourceUnit) : list N :=
  (fix go (k : N) (ds : list (SourceUnit -> res (list Loc))) : list N :=
     match ds with
     | [] => []
     | d :: r => (match d su with Ok _ => [] | Panic _ => [k] end) ++ go (k + 1)%N r
     end) 0%N all_detectors.
