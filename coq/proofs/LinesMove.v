(* C17 (model part, piece B): the reported lines move with the tokens.
   If a detector is equivariant on a tree (its findings on the re-located tree are the re-located
   findings, as a set), then the per-file analysis of the re-laid-out text reports exactly the
   lines (in the NEW text) on which the re-located flagged constructs begin.
   Comments never reach the model: `parse` returns them separately from the `SourceUnit`, and
   every detector / `analyze_lines` takes the `SourceUnit` only - nothing to prove there. *)
From Coq Require Import List String Ascii NArith ZArith Bool Lia Sorted.
Import ListNotations.
From Solstat Require Import Lift Pt Walk Res Nodes Utils Detectors Cases DetCases LineSpec LineProof DetBase LinesDet.
Local Open Scope list_scope.

Theorem lines_move_with_tokens (d : SourceUnit -> res (list Loc)) (r : Loc -> Loc) su src2 locs locs' :
  d su = Ok locs -> d (mapl_SourceUnit r su) = Ok locs' ->
  (forall l, In l locs' <-> In l (map r locs)) ->
  lines_lt_i32 src2 ->
  exists ls, analyze_lines d src2 (mapl_SourceUnit r su) = Ok ls /\ StronglySorted Z.lt ls /\
             forall z, In z ls <-> exists l, In l locs /\ get_line_number (loc_start (r l)) src2 = Ok z.
Proof.
  intros _ Hd' Hset Hlt.
  destruct (analyze_lines_spec d src2 (mapl_SourceUnit r su) locs' Hd' Hlt) as [ls [Ha [Hs Hin]]].
  exists ls. split; [exact Ha|]. split; [exact Hs|].
  intros z. rewrite Hin. split.
  - intros [l' [Hl' Hz]]. apply Hset in Hl'. apply in_map_iff in Hl'. destruct Hl' as [l [Hrl Hl]].
    exists l. split; [exact Hl|]. rewrite Hrl. exact Hz.
  - intros [l [Hl Hz]]. exists (r l). split; [|exact Hz]. apply Hset. apply in_map. exact Hl.
Qed.

(* the same with the declarative line of LineSpec, under the token-start side condition of C02:
   every re-located flagged construct starts inside the new text and not on a line feed *)
Definition token_start_in (src : string) (off : N) : Prop :=
  (off < blen src)%N /\ byte_at off src <> Some LF.

Theorem lines_move_with_tokens_spec (d : SourceUnit -> res (list Loc)) (r : Loc -> Loc) su src2 locs locs' :
  d su = Ok locs -> d (mapl_SourceUnit r su) = Ok locs' ->
  (forall l, In l locs' <-> In l (map r locs)) ->
  lines_lt_i32 src2 ->
  (forall l, In l locs -> token_start_in src2 (loc_start (r l))) ->
  exists ls, analyze_lines d src2 (mapl_SourceUnit r su) = Ok ls /\ StronglySorted Z.lt ls /\
             forall z, In z ls <-> exists l, In l locs /\ z = line_spec src2 (loc_start (r l)).
Proof.
  intros Hd Hd' Hset Hlt Htok.
  destruct (lines_move_with_tokens d r su src2 locs locs' Hd Hd' Hset Hlt) as [ls [Ha [Hs Hin]]].
  exists ls. split; [exact Ha|]. split; [exact Hs|].
  intros z. rewrite Hin. split; intros [l [Hl Hz]]; exists l; (split; [exact Hl|]);
    destruct (Htok l Hl) as [Hb Hn]; pose proof (line_of_spec_lemma src2 (loc_start (r l)) Hb Hn Hlt) as Hspec.
  - rewrite Hspec in Hz. inversion Hz. reflexivity.
  - rewrite Hspec, Hz. reflexivity.
Qed.

(* special case: if the k-th token of the new layout stands on line k+1 ("one token per line"),
   the reported lines are exactly the indices (plus one) of the flagged tokens *)
Theorem lines_move_one_token_per_line (d : SourceUnit -> res (list Loc)) (r : Loc -> Loc) (idx : Loc -> N)
        su src2 locs locs' :
  d su = Ok locs -> d (mapl_SourceUnit r su) = Ok locs' ->
  (forall l, In l locs' <-> In l (map r locs)) ->
  lines_lt_i32 src2 ->
  (forall l, In l locs -> token_start_in src2 (loc_start (r l)) /\
                          line_spec src2 (loc_start (r l)) = (Z.of_N (idx l) + 1)%Z) ->
  exists ls, analyze_lines d src2 (mapl_SourceUnit r su) = Ok ls /\ StronglySorted Z.lt ls /\
             forall z, In z ls <-> exists l, In l locs /\ z = (Z.of_N (idx l) + 1)%Z.
Proof.
  intros Hd Hd' Hset Hlt Hone.
  destruct (lines_move_with_tokens_spec d r su src2 locs locs' Hd Hd' Hset Hlt
              (fun l Hl => proj1 (Hone l Hl))) as [ls [Ha [Hs Hin]]].
  exists ls. split; [exact Ha|]. split; [exact Hs|].
  intros z. rewrite Hin. split; intros [l [Hl Hz]]; exists l; (split; [exact Hl|]);
    rewrite Hz; [|symmetry]; exact (proj2 (Hone l Hl)).
Qed.

(* ---- the concrete "one token per line" layout: every token followed by a line feed.
   Token k (0-based) starts at tok_start k and stands on line k+1, provided no token
   contains a line feed; and the code's get_line_number returns k+1 there when the tokens
   are non-empty. *)
Local Open Scope string_scope.

Fixpoint one_per_line (toks : list string) : string :=
  match toks with
  | nil => EmptyString
  | t :: r => (t ++ lf_s) ++ one_per_line r
  end.

Fixpoint tok_start (k : nat) (toks : list string) : N :=
  match k, toks with
  | S k', t :: r => (blen (t ++ lf_s) + tok_start k' r)%N
  | _, _ => 0%N
  end.

Lemma count_lf_lf_s : count_lf lf_s = 1%N.
Proof. reflexivity. Qed.

Lemma line_spec_0 s : line_spec s 0 = 1%Z.
Proof. unfold line_spec. rewrite take_0. reflexivity. Qed.

Theorem one_per_line_line_spec : forall toks k,
  Forall (fun t => count_lf t = 0%N) toks -> (k < List.length toks)%nat ->
  line_spec (one_per_line toks) (tok_start k toks) = (Z.of_nat k + 1)%Z.
Proof.
  induction toks as [|t toks IH]; intros k HF Hk; [cbn [List.length] in Hk; lia|].
  destruct k as [|k]; [cbn [tok_start]; rewrite line_spec_0; reflexivity|].
  cbn [tok_start one_per_line]. rewrite line_spec_app.
  inversion HF as [|? ? Ht HF']; subst.
  rewrite IH; [|exact HF'|cbn [List.length] in Hk; lia].
  rewrite count_lf_app, Ht, count_lf_lf_s. lia.
Qed.

Lemma one_per_line_not_on_lf : forall toks k,
  Forall (fun t => count_lf t = 0%N /\ t <> EmptyString) toks -> (k < List.length toks)%nat ->
  lf_bit (byte_at (tok_start k toks) (one_per_line toks)) = 0%N.
Proof.
  induction toks as [|t toks IH]; intros k HF Hk; [cbn [List.length] in Hk; lia|].
  inversion HF as [|? ? [Ht Hne] HF']; subst.
  destruct k as [|k].
  - cbn [tok_start one_per_line]. destruct t as [|c t']; [contradiction Hne; reflexivity|].
    cbn [append byte_at N.eqb lf_bit]. rewrite count_lf_cons in Ht.
    destruct (Ascii.eqb c LF); [lia|reflexivity].
  - cbn [tok_start one_per_line]. rewrite byte_at_app. apply IH; [exact HF'|cbn [List.length] in Hk; lia].
Qed.

Theorem one_per_line_get_line_number : forall toks k,
  Forall (fun t => count_lf t = 0%N /\ t <> EmptyString) toks -> (k < List.length toks)%nat ->
  lines_lt_i32 (one_per_line toks) ->
  get_line_number (tok_start k toks) (one_per_line toks) = Ok (Z.of_nat k + 1)%Z.
Proof.
  intros toks k HF Hk Hlt. rewrite get_line_number_spec by exact Hlt.
  rewrite one_per_line_not_on_lf by assumption.
  rewrite one_per_line_line_spec; [rewrite Z.add_0_r; reflexivity| |exact Hk].
  eapply Forall_impl; [|exact HF]. intros a [Ha _]. exact Ha.
Qed.

(* a concrete instance: three tokens *)
Example one_per_line_example :
  get_line_number (tok_start 2 ["require"; "("; "x"]) (one_per_line ["require"; "("; "x"]) = Ok 3%Z.
Proof. vm_compute. reflexivity. Qed.
