(* C17 (model part): all 30 detectors are equivariant under an injective renaming of locations.
   Assembles Equivariance.v, Equivariance2.v (C05/C06/C07 detectors) and Equivariance3.v (C08/C09/C10). *)
From Coq Require Import List String Ascii NArith ZArith Bool.
Import ListNotations.
From Solstat Require Import Lift Pt Walk Res Nodes Utils Detectors Opt_pack NoPanic MapLoc Equivariance2 Equivariance3.
Local Open Scope list_scope.

Lemma equivariant3_equivariant r d : equivariant3 r d -> equivariant r d.
Proof. intros H. exact H. Qed.

Theorem all_detectors_equivariant_lemma (r : Loc -> Loc) :
  (forall a b, r a = r b -> a = b) -> Forall (equivariant r) all_detectors.
Proof.
  intros Hinj. unfold all_detectors.
  repeat match goal with |- Forall _ (_ :: _) => constructor | |- Forall _ [] => constructor end.
  - exact (address_balance_equivariant r Hinj).
  - exact (address_zero_equivariant r Hinj).
  - exact (assign_update_array_equivariant r Hinj).
  - exact (bool_equals_bool_equivariant r Hinj).
  - exact (cache_array_length_equivariant r Hinj).
  - exact (equivariant3_equivariant _ _ (constant_variable_equivariant r Hinj)).
  - exact (equivariant3_equivariant _ _ (immutable_variables_equivariant r Hinj)).
  - exact (increment_decrement_equivariant r Hinj).
  - exact (equivariant3_equivariant _ _ (memory_to_calldata_equivariant r Hinj)).
  - exact (multiple_require_equivariant r Hinj).
  - exact (optimal_comparison_equivariant r Hinj).
  - exact (equivariant3_equivariant _ _ (pack_storage_variables_equivariant r Hinj)).
  - exact (equivariant3_equivariant _ _ (pack_struct_variables_equivariant r Hinj)).
  - exact (payable_function_equivariant r Hinj).
  - exact (private_constant_equivariant r Hinj).
  - exact (equivariant3_equivariant _ _ (safe_math_pre_080_equivariant r Hinj)).
  - exact (equivariant3_equivariant _ _ (safe_math_post_080_equivariant r Hinj)).
  - exact (shift_math_equivariant r Hinj).
  - exact (equivariant3_equivariant _ _ (short_revert_string_equivariant r Hinj)).
  - exact (solidity_keccak256_equivariant r Hinj).
  - exact (solidity_math_equivariant r Hinj).
  - exact (equivariant3_equivariant _ _ (sstore_equivariant r Hinj)).
  - exact (equivariant3_equivariant _ _ (string_error_equivariant r Hinj)).
  - exact (divide_before_multiply_equivariant r Hinj).
  - exact (floating_pragma_equivariant r Hinj).
  - exact (unprotected_selfdestruct_equivariant r Hinj).
  - exact (unsafe_erc20_equivariant r Hinj).
  - exact (constructor_order_equivariant r Hinj).
  - exact (private_func_equivariant r Hinj).
  - exact (private_vars_equivariant r Hinj).
Qed.
