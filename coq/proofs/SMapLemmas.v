(* The HashMap<String, V> model (Nodes.smap): association list, insert replaces. *)
From Coq Require Import List String Ascii NArith Bool.
Import ListNotations.
From Solstat Require Import Lift Pt Res Nodes.
Local Open Scope string_scope.
Local Open Scope list_scope.

Section SMapLemmas.
  Variable V : Type.
  Implicit Types (m : smap V) (k : string) (v : V).

  Definition keys m : list string := map fst m.

  Lemma sm_remove_in k m k' v : In (k', v) (sm_remove k m) <-> In (k', v) m /\ k' <> k.
  Proof.
    induction m as [|[k0 v0] m IH]; cbn [sm_remove]; [cbn; tauto|].
    destruct (String.eqb k k0) eqn:E.
    - apply String.eqb_eq in E. subst k0. rewrite IH. cbn [In]. split.
      + intros [H1 H2]. split; [right; exact H1|exact H2].
      + intros [[H|H] H2]; [inversion H; subst; contradiction|split; assumption].
    - apply String.eqb_neq in E. cbn [In]. rewrite IH. split.
      + intros [H|[H1 H2]]; [inversion H; subst; split; [left; reflexivity|intros ->; contradiction]|split; [right; exact H1|exact H2]].
      + intros [[H|H] H2]; [left; exact H|right; split; assumption].
  Qed.

  Lemma sm_insert_in k v m k' v' :
    In (k', v') (sm_insert k v m) <-> (k' = k /\ v' = v) \/ (In (k', v') m /\ k' <> k).
  Proof.
    unfold sm_insert. cbn [In]. rewrite sm_remove_in. split.
    - intros [H|H]; [inversion H; left; split; reflexivity|right; exact H].
    - intros [[-> ->]|H]; [left; reflexivity|right; exact H].
  Qed.

  Lemma sm_remove_keys k m : ~ In k (keys (sm_remove k m)).
  Proof.
    unfold keys. intros H. apply in_map_iff in H. destruct H as [[k' v] [Hk Hin]]. cbn in Hk. subst k'.
    apply sm_remove_in in Hin. destruct Hin as [_ Hn]. apply Hn. reflexivity.
  Qed.

  Lemma sm_remove_nodup k m : NoDup (keys m) -> NoDup (keys (sm_remove k m)).
  Proof.
    unfold keys. induction m as [|[k0 v0] m IH]; cbn [sm_remove map]; [intros; constructor|].
    intros H. inversion H as [|? ? Hn Hd]; subst. destruct (String.eqb k k0); [apply IH; exact Hd|].
    cbn [map fst]. constructor; [|apply IH; exact Hd].
    intros Hin. apply Hn. apply in_map_iff in Hin. destruct Hin as [[k' v'] [Hk Hin]]. cbn in Hk. subst k'.
    apply sm_remove_in in Hin. apply in_map_iff. exists (k0, v'). split; [reflexivity|exact (proj1 Hin)].
  Qed.

  Lemma sm_insert_nodup k v m : NoDup (keys m) -> NoDup (keys (sm_insert k v m)).
  Proof.
    intros H. unfold sm_insert, keys. cbn [map fst]. constructor; [apply sm_remove_keys|apply sm_remove_nodup; exact H].
  Qed.

  Lemma sm_get_in k m v : NoDup (keys m) -> (sm_get k m = Some v <-> In (k, v) m).
  Proof.
    unfold keys. induction m as [|[k0 v0] m IH]; cbn [sm_get map fst]; intros Hd.
    - split; [discriminate|intros []].
    - inversion Hd as [|? ? Hn Hd']; subst. destruct (String.eqb k k0) eqn:E.
      + apply String.eqb_eq in E. subst k0. split.
        * intros H. inversion H. left. reflexivity.
        * intros [H|H]; [inversion H; reflexivity|]. exfalso. apply Hn. apply in_map_iff. exists (k, v). split; [reflexivity|exact H].
      + apply String.eqb_neq in E. rewrite (IH Hd'). split.
        * intros H. right. exact H.
        * intros [H|H]; [inversion H; subst; contradiction|exact H].
  Qed.

  Lemma sm_get_some_in k m v : sm_get k m = Some v -> In (k, v) m.
  Proof.
    induction m as [|[k0 v0] m IH]; cbn [sm_get]; [discriminate|].
    destruct (String.eqb k k0) eqn:E.
    - apply String.eqb_eq in E. subst k0. intros H. inversion H. left. reflexivity.
    - intros H. right. apply IH. exact H.
  Qed.

  Lemma sm_contains_iff k m : sm_contains k m = true <-> In k (keys m).
  Proof.
    unfold sm_contains, keys. induction m as [|[k0 v0] m IH]; cbn [sm_get map fst In].
    - split; [discriminate|intros []].
    - destruct (String.eqb k k0) eqn:E.
      + apply String.eqb_eq in E. subst k0. split; [intros _; left; reflexivity|reflexivity].
      + apply String.eqb_neq in E. rewrite IH. split; [intros H; right; exact H|intros [H|H]; [subst; contradiction|exact H]].
  Qed.
End SMapLemmas.
Arguments keys {V}.
