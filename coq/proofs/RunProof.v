(* Proofs for property C18 on the model of a whole run (model/Run.v). *)
From Coq Require Import List String Ascii NArith Bool Lia.
Import ListNotations.
From Solstat Require Import Res Names Opts OptsProof Run.
From Solstat Require Dir.
Local Open Scope string_scope.
Local Open Scope N_scope.

Lemma write_file_same : forall f p c, write_file f p c p = Some (FileN c).
Proof. intros f p c. unfold write_file. rewrite String.eqb_refl. reflexivity. Qed.

Lemma write_file_other : forall f p c q, q <> p -> write_file f p c q = f q.
Proof.
  intros f p c q H. unfold write_file. destruct (String.eqb q p) eqn:E; [|reflexivity].
  apply String.eqb_eq in E. contradiction.
Qed.

Lemma append_inj_l : forall s a b : string, s ++ a = s ++ b -> a = b.
Proof.
  induction s as [| c s IH]; intros a b H; cbn [append] in H.
  - exact H.
  - inversion H. apply IH. assumption.
Qed.

(* the name filter of analyze_dir (model/Dir.v, property C16) rejects the report's own name *)
Lemma report_not_eligible : Dir.eligible report_name = false.
Proof. vm_compute. reflexivity. Qed.

Lemma contracts_is_not_report : forall cwd, join cwd default_dir <> report_path cwd.
Proof.
  intros cwd H. unfold join, report_path, default_dir, report_name in H. cbn in H.
  apply append_inj_l in H. discriminate.
Qed.

Section RunProofs.
  Variable parse_toml : string -> option SolstatToml.
  Variable analyse_all : fs -> path -> path -> list N -> list N -> list N -> res string.

  Notation run := (run parse_toml analyse_all).
  Notation report_of := (report_of parse_toml analyse_all).
  Notation toml_of := (toml_of parse_toml).

  (* a complete description of `run` in terms of `report_of` *)
  Lemma run_cases : forall f cwd a,
    (exists text, report_of f cwd a = Some text /\ is_dir f (report_path cwd) = false /\
                  run f cwd a = (write_file f (report_path cwd) text, 0)) \/
    (exists code, code <> 0 /\ run f cwd a = (f, code)).
  Proof.
    intros f cwd a. unfold Run.run, Run.report_of.
    destruct (resolve a (toml_of f cwd a) (is_dir f (join cwd default_dir))) as [p o v q | s |].
    - destruct (analyse_all f cwd p o v q) as [text | s].
      + destruct (is_dir f (report_path cwd)) eqn:E.
        * right. exists exit_panic. split; [discriminate | reflexivity].
        * left. exists text. auto.
      + right. exists exit_panic. split; [discriminate | reflexivity].
    - right. exists exit_panic. split; [discriminate | reflexivity].
    - right. exists 1. split; [discriminate | reflexivity].
  Qed.

  Lemma run_frame_lemma : forall f cwd a f' e, run f cwd a = (f', e) ->
    forall q, q <> report_path cwd -> f' q = f q.
  Proof.
    intros f cwd a f' e H q Hq.
    destruct (run_cases f cwd a) as [[text [_ [_ Hr]]] | [code [_ Hr]]]; rewrite Hr in H; inversion H.
    - apply write_file_other. exact Hq.
    - reflexivity.
  Qed.

  Lemma run_overwrites_lemma : forall f cwd a f', run f cwd a = (f', 0) ->
    exists text, report_of f cwd a = Some text /\ f' (report_path cwd) = Some (FileN text).
  Proof.
    intros f cwd a f' H.
    destruct (run_cases f cwd a) as [[text [Ht [_ Hr]]] | [code [Hc Hr]]]; rewrite Hr in H; inversion H.
    - exists text. split; [exact Ht | apply write_file_same].
    - subst code. contradiction.
  Qed.

  Lemma failed_run_writes_nothing_lemma : forall f cwd a f' e, run f cwd a = (f', e) -> e <> 0 -> f' = f.
  Proof.
    intros f cwd a f' e H He.
    destruct (run_cases f cwd a) as [[text [_ [_ Hr]]] | [code [_ Hr]]]; rewrite Hr in H; inversion H.
    - subst e. contradiction.
    - reflexivity.
  Qed.

  Lemma exit_codes_lemma : forall f cwd a, In (snd (run f cwd a)) [0; 1; 101].
  Proof.
    intros f cwd a. unfold Run.run.
    destruct (resolve a (toml_of f cwd a) (is_dir f (join cwd default_dir))) as [p o v q | s |]; cbn.
    - destruct (analyse_all f cwd p o v q) as [text | s]; cbn; [|tauto].
      destruct (is_dir f (report_path cwd)); cbn; tauto.
    - tauto.
    - tauto.
  Qed.

  (* the report is written only after option resolution and the whole analysis succeeded *)
  Lemma write_is_last_lemma : forall f cwd a f' e, run f cwd a = (f', e) -> f' (report_path cwd) <> f (report_path cwd) ->
    e = 0 /\ exists p o v q text,
      resolve a (toml_of f cwd a) (is_dir f (join cwd default_dir)) = Run p o v q /\
      analyse_all f cwd p o v q = Ok text.
  Proof.
    intros f cwd a f' e H Hd. unfold Run.run in H.
    destruct (resolve a (toml_of f cwd a) (is_dir f (join cwd default_dir))) as [p o v q | s |].
    - destruct (analyse_all f cwd p o v q) as [text | s] eqn:Ea.
      + destruct (is_dir f (report_path cwd)); inversion H; subst.
        * contradiction Hd; reflexivity.
        * split; [reflexivity|]. exists p, o, v, q, text. auto.
      + inversion H; subst. contradiction Hd; reflexivity.
    - inversion H; subst. contradiction Hd; reflexivity.
    - inversion H; subst. contradiction Hd; reflexivity.
  Qed.

  Lemma unknown_name_no_report_lemma0 : forall f cwd a file t,
    arg_toml a = Some file -> toml_of f cwd a = Some t -> has_unknown t ->
    exists code, run f cwd a = (f, code) /\ code <> 0.
  Proof.
    intros f cwd a file t Hf Ht Hu. unfold Run.run. rewrite Ht.
    destruct (unknown_fails_early_lemma a file t (is_dir f (join cwd default_dir)) Hf Hu) as [s Hs].
    rewrite Hs. exists exit_panic. split; [reflexivity | discriminate].
  Qed.

  (* ---- a report left by an earlier run ---- *)
  Hypothesis analyse_inert : ignores_ineligible analyse_all.

  Lemma toml_of_agree : forall f1 f2 cwd a, agree_except (report_path cwd) f1 f2 ->
    (forall file, arg_toml a = Some file -> join cwd file <> report_path cwd) ->
    toml_of f1 cwd a = toml_of f2 cwd a.
  Proof.
    intros f1 f2 cwd a [Hag _] Ht. unfold Run.toml_of. destruct (arg_toml a) as [file|]; [|reflexivity].
    unfold read_file. rewrite (Hag (join cwd file) (Ht file eq_refl)). reflexivity.
  Qed.

  Lemma old_report_inert_lemma : forall f1 f2 cwd a, agree_except (report_path cwd) f1 f2 ->
    (forall file, arg_toml a = Some file -> join cwd file <> report_path cwd) ->
    snd (run f1 cwd a) = snd (run f2 cwd a) /\
    report_of f1 cwd a = report_of f2 cwd a /\
    (snd (run f1 cwd a) = 0 -> forall q, fst (run f1 cwd a) q = fst (run f2 cwd a) q).
  Proof.
    intros f1 f2 cwd a Hag Ht.
    pose proof (toml_of_agree f1 f2 cwd a Hag Ht) as Et.
    destruct Hag as [Hag [Hd1 Hd2]].
    assert (is_dir f1 (join cwd default_dir) = is_dir f2 (join cwd default_dir)) as Ec.
    { unfold is_dir. rewrite (Hag _ (contracts_is_not_report cwd)). reflexivity. }
    assert (forall p o v q, analyse_all f1 cwd p o v q = analyse_all f2 cwd p o v q) as Ea.
    { intros p o v q. apply (analyse_inert f1 f2 cwd report_name report_not_eligible).
      split; [exact Hag | split; assumption]. }
    unfold Run.run, Run.report_of. rewrite Et, Ec.
    destruct (resolve a (toml_of f2 cwd a) (is_dir f2 (join cwd default_dir))) as [p o v q | s |]; cbn [fst snd].
    - rewrite Ea. destruct (analyse_all f2 cwd p o v q) as [text | s]; cbn [fst snd].
      + rewrite Hd1, Hd2. cbn [fst snd]. split; [reflexivity|]. split; [reflexivity|].
        intros _ q0. unfold write_file. destruct (String.eqb q0 (report_path cwd)) eqn:E; [reflexivity|].
        apply Hag. intro Hq. subst q0. rewrite String.eqb_refl in E. discriminate.
      + split; [reflexivity|]. split; [reflexivity|]. intro H; discriminate.
    - split; [reflexivity|]. split; [reflexivity|]. intro H; discriminate.
    - split; [reflexivity|]. split; [reflexivity|]. intro H; discriminate.
  Qed.

  (* running again gives the same report: the file system reached is a fixed point *)
  Lemma run_idempotent_lemma : forall f cwd a f', run f cwd a = (f', 0) ->
    (forall file, arg_toml a = Some file -> join cwd file <> report_path cwd) ->
    snd (run f' cwd a) = 0 /\ forall q, fst (run f' cwd a) q = f' q.
  Proof.
    intros f cwd a f' H Ht.
    assert (agree_except (report_path cwd) f f') as Hag.
    { destruct (run_cases f cwd a) as [[text [_ [Hd Hr]]] | [code [Hc Hr]]]; rewrite Hr in H; inversion H.
      - split; [|split].
        + intros q Hq. symmetry. apply write_file_other. exact Hq.
        + exact Hd.
        + unfold is_dir. rewrite write_file_same. reflexivity.
      - subst code. contradiction. }
    destruct (old_report_inert_lemma f f' cwd a Hag Ht) as [He [_ Hq]].
    rewrite H in He, Hq. cbn [fst snd] in He, Hq. split; [symmetry; exact He|].
    intros q. symmetry. apply Hq. reflexivity.
  Qed.
End RunProofs.

Lemma unknown_name_no_report_lemma : forall parse_toml analyse_all f cwd a file t,
  arg_toml a = Some file -> Run.toml_of parse_toml f cwd a = Some t -> has_unknown t ->
  exists code, Run.run parse_toml analyse_all f cwd a = (f, code) /\ code <> 0.
Proof. exact unknown_name_no_report_lemma0. Qed.

(* ------------------------------------------------------------------ examples used by props/C18.v *)
(* a toy analysis that looks at the eligible file /w/a.sol only, a file system with a stale report
   inside the analysed directory (cwd = analysed directory) *)
Definition ex_analyse (f : fs) (cwd p : path) (o v q : list N) : res string :=
  match f "/w/a.sol" with Some (FileN c) => Ok ("findings in a.sol: " ++ c) | _ => Panic "Unable to read file" end.
Definition ex_fs (old : option string) : fs := fun q =>
  if String.eqb q "/w" then Some DirN
  else if String.eqb q "/w/a.sol" then Some (FileN "contract A {}")
  else if String.eqb q "/w/solstat_report.md" then option_map FileN old
  else None.
Definition ex_args : Args := {| arg_path := Some "."; arg_toml := None |}.

Lemma ex_analyse_ignores_ineligible_lemma : ignores_ineligible ex_analyse.
Proof.
  intros f1 f2 d name Hn [Hag _] cwd p o v q. unfold ex_analyse.
  rewrite (Hag "/w/a.sol"); [reflexivity|].
  intro H. (* "/w/a.sol" = d ++ "/" ++ name would make name = "a.sol" (eligible) or contain a '/' *)
  assert (forall d0 n0, "/w/a.sol" = d0 ++ "/" ++ n0 -> Dir.eligible n0 = true) as K.
  { clear. intros d0 n0 E.
    destruct d0 as [|c0 d0]; cbn in E; [inversion E; subst; vm_compute; reflexivity|].
    destruct d0 as [|c1 d0]; cbn in E; [inversion E|].
    destruct d0 as [|c2 d0]; cbn in E; [inversion E; subst; vm_compute; reflexivity|].
    destruct d0 as [|c3 d0]; cbn in E; [inversion E|].
    destruct d0 as [|c4 d0]; cbn in E; [inversion E|].
    destruct d0 as [|c5 d0]; cbn in E; [inversion E|].
    destruct d0 as [|c6 d0]; cbn in E; [inversion E|].
    destruct d0 as [|c7 d0]; cbn in E; [inversion E|].
    destruct d0 as [|c8 d0]; cbn in E; inversion E. }
  rewrite (K d name H) in Hn. discriminate.
Qed.

Lemma ex_stale_report_replaced_lemma :
  agree_except (report_path "/w") (ex_fs None) (ex_fs (Some "OLD REPORT, much longer than the new one ................")) /\
  snd (run (fun _ => None) ex_analyse (ex_fs (Some "OLD REPORT, much longer than the new one ................")) "/w" ex_args) = 0 /\
  fst (run (fun _ => None) ex_analyse (ex_fs (Some "OLD REPORT, much longer than the new one ................")) "/w" ex_args)
      "/w/solstat_report.md" = Some (FileN "findings in a.sol: contract A {}") /\
  fst (run (fun _ => None) ex_analyse (ex_fs None) "/w" ex_args)
      "/w/solstat_report.md" = Some (FileN "findings in a.sol: contract A {}").
Proof.
  split; [| vm_compute; auto].
  split; [| split; vm_compute; reflexivity].
  intros q Hq. unfold ex_fs.
  destruct (String.eqb q "/w"); [reflexivity|].
  destruct (String.eqb q "/w/a.sol"); [reflexivity|].
  destruct (String.eqb q "/w/solstat_report.md") eqn:E; [|reflexivity].
  apply String.eqb_eq in E. subst q. exfalso. apply Hq. vm_compute. reflexivity.
Qed.

Lemma ex_failed_run_lemma : run (fun _ => None) ex_analyse (ex_fs (Some "old")) "/w"
                            {| arg_path := None; arg_toml := None |} = (ex_fs (Some "old"), 1).
Proof. vm_compute. reflexivity. Qed.
