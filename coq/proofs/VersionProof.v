(* C09, text part: the regex scanner returns the three numbers of a full version, and
   parse::<i32> reads a decimal rendering back. *)
From Coq Require Import String Ascii List NArith ZArith Bool Lia Decimal DecimalString DecimalN DecimalPos.
Import ListNotations.
From Solstat Require Import Res Utils.
Local Open Scope string_scope.
Local Open Scope N_scope.
Local Open Scope list_scope.

Definition dot : ascii := "."%char.
Definition dot_s (s : string) : string := String dot s.

Fixpoint all_chars (p : ascii -> bool) (s : string) : bool :=
  match s with EmptyString => true | String c r => p c && all_chars p r end.

Definition digits (s : string) : Prop := all_chars is_digit s = true /\ s <> EmptyString.
Definition no_digit (s : string) : Prop := all_chars (fun c => negb (is_digit c)) s = true.

(* ------------------------------------------------------------------ characters *)
Lemma digit_not_dot c : is_digit c = true -> is_dot c = false.
Proof.
  unfold is_digit, is_dot. cbv zeta. intros H. apply andb_true_iff in H. destruct H as [H1 H2].
  apply N.leb_le in H1. apply N.eqb_neq. lia.
Qed.

Lemma dot_is_dot : is_dot dot = true.
Proof. reflexivity. Qed.

Lemma dot_not_digit : is_digit dot = false.
Proof. reflexivity. Qed.

(* ------------------------------------------------------------------ span *)
Definition starts_without (p : ascii -> bool) (s : string) : Prop :=
  match s with EmptyString => True | String c _ => p c = false end.

Lemma span_app p a b : all_chars p a = true -> starts_without p b -> span p (a ++ b)%string = (a, b).
Proof.
  induction a as [|c a IH]; intros Ha Hb.
  - cbn [append]. destruct b as [|d b]; [reflexivity|]. cbn [span]. cbn in Hb. rewrite Hb. reflexivity.
  - cbn [all_chars] in Ha. apply andb_true_iff in Ha. destruct Ha as [Hc Ha].
    cbn [append span]. rewrite Hc. rewrite IH by assumption. reflexivity.
Qed.

Lemma span_all p a : all_chars p a = true -> span p a = (a, EmptyString).
Proof.
  induction a as [|c a IH]; intros H; [reflexivity|].
  cbn [all_chars] in H. apply andb_true_iff in H. destruct H as [Hc Ha].
  cbn [span]. rewrite Hc. rewrite IH by exact Ha. reflexivity.
Qed.

Lemma digits_start d r : digits d -> starts_without is_dot (d ++ r)%string.
Proof.
  intros [Ha Hn]. destruct d as [|c d]; [contradiction|].
  cbn [append starts_without]. cbn [all_chars] in Ha. apply andb_true_iff in Ha.
  apply digit_not_dot. exact (proj1 Ha).
Qed.

Lemma digits_start0 d : digits d -> starts_without is_dot d.
Proof.
  intros [Ha Hn]. destruct d as [|c d]; [contradiction|].
  cbn [starts_without]. cbn [all_chars] in Ha. apply andb_true_iff in Ha.
  apply digit_not_dot. exact (proj1 Ha).
Qed.

Lemma is_empty_digits d : digits d -> is_empty d = false.
Proof. intros [_ Hn]. destruct d; [contradiction | reflexivity]. Qed.

(* ------------------------------------------------------------------ one anchored attempt *)
Lemma match_here_version d1 d2 d3 : digits d1 -> digits d2 -> digits d3 ->
  match_here (d1 ++ dot_s (d2 ++ dot_s d3))%string = Some (d1 ++ dot_s (d2 ++ dot_s d3))%string.
Proof.
  intros H1 H2 H3. unfold match_here.
  rewrite (span_app is_digit d1 (dot_s (d2 ++ dot_s d3))) by (try exact (proj1 H1); exact dot_not_digit).
  rewrite (is_empty_digits d1 H1). unfold dot_s at 1. rewrite dot_is_dot. cbn [negb].
  rewrite (span_app is_digit d2 (dot_s d3)) by (try exact (proj1 H2); exact dot_not_digit).
  rewrite (is_empty_digits d2 H2).
  change (dot_s d3) with (String dot EmptyString ++ d3)%string.
  rewrite (span_app is_dot (String dot EmptyString) d3 eq_refl (digits_start0 d3 H3)).
  cbn [is_empty].
  rewrite (span_all is_digit d3 (proj1 H3)). rewrite (is_empty_digits d3 H3). reflexivity.
Qed.

(* ------------------------------------------------------------------ the scan *)
Lemma match_here_no_digit c r : is_digit c = false -> match_here (String c r) = None.
Proof. intros H. unfold match_here. cbn [span]. rewrite H. reflexivity. Qed.

Lemma scan_skip_prefix op : no_digit op -> forall s last,
  scan_version (op ++ s)%string 0 last = scan_version s 0 last.
Proof.
  induction op as [|c op IH]; intros H s last; [reflexivity|].
  unfold no_digit in H. cbn [all_chars] in H. apply andb_true_iff in H. destruct H as [Hc Hop].
  apply negb_true_iff in Hc. cbn [append scan_version]. cbn [N.ltb N.compare].
  rewrite (match_here_no_digit c _ Hc). apply IH. exact Hop.
Qed.

Lemma scan_skip_all : forall r k last, slen r <= k -> scan_version r k last = last.
Proof.
  induction r as [|c r IH]; intros k last H; [reflexivity|].
  cbn [slen] in H. cbn [scan_version].
  assert (E : (0 <? k) = true) by (apply N.ltb_lt; lia). rewrite E. apply IH. lia.
Qed.

Lemma scan_whole s last : s <> EmptyString -> match_here s = Some s -> scan_version s 0 last = s.
Proof.
  intros Hn Hm. destruct s as [|c r]; [contradiction|].
  cbn [scan_version]. cbn [N.ltb N.compare]. rewrite Hm. apply scan_skip_all. cbn [slen]. lia.
Qed.

(* ------------------------------------------------------------------ split(".") *)
Lemma split_dot_nonempty s : split_dot s <> [].
Proof.
  induction s as [|c r IH]; cbn [split_dot]; [discriminate|].
  destruct (is_dot c); [discriminate|]. destruct (split_dot r); [contradiction | discriminate].
Qed.

Lemma split_dot_app d r : all_chars is_digit d = true ->
  split_dot (d ++ dot_s r)%string = d :: split_dot r.
Proof.
  induction d as [|c d IH]; intros H.
  - cbn [append]. unfold dot_s. cbn [split_dot]. rewrite dot_is_dot. reflexivity.
  - cbn [all_chars] in H. apply andb_true_iff in H. destruct H as [Hc Hd].
    cbn [append split_dot]. rewrite (digit_not_dot c Hc). rewrite IH by exact Hd. reflexivity.
Qed.

Lemma split_dot_digits d : all_chars is_digit d = true -> split_dot d = [d].
Proof.
  induction d as [|c d IH]; intros H; [reflexivity|].
  cbn [all_chars] in H. apply andb_true_iff in H. destruct H as [Hc Hd].
  cbn [split_dot]. rewrite (digit_not_dot c Hc). rewrite IH by exact Hd. reflexivity.
Qed.

(* ------------------------------------------------------------------ version_extract, general form:
   any prefix without digits (operators, blanks, dots, letters ...), then three non-empty digit
   strings separated by single dots, up to the end of the text *)
Theorem version_extract_digits_lemma : forall op d1 d2 d3,
  no_digit op -> digits d1 -> digits d2 -> digits d3 ->
  get_solidity_major_minor_patch_version (op ++ d1 ++ dot_s (d2 ++ dot_s d3))%string = [d1; d2; d3].
Proof.
  intros op d1 d2 d3 Hop H1 H2 H3. unfold get_solidity_major_minor_patch_version.
  rewrite scan_skip_prefix by exact Hop.
  rewrite scan_whole.
  - rewrite split_dot_app by exact (proj1 H1). rewrite split_dot_app by exact (proj1 H2).
    rewrite split_dot_digits by exact (proj1 H3). reflexivity.
  - destruct H1 as [_ Hn]. destruct d1; [contradiction | discriminate].
  - apply match_here_version; assumption.
Qed.

(* ------------------------------------------------------------------ decimal rendering *)
Definition dec (n : N) : string := NilEmpty.string_of_uint (N.to_uint n).

(* big-endian Horner evaluation of a decimal number *)
Fixpoint val_be (d : uint) (acc : N) : N :=
  match d with
  | Nil => acc
  | D0 d => val_be d (10 * acc + 0)
  | D1 d => val_be d (10 * acc + 1)
  | D2 d => val_be d (10 * acc + 2)
  | D3 d => val_be d (10 * acc + 3)
  | D4 d => val_be d (10 * acc + 4)
  | D5 d => val_be d (10 * acc + 5)
  | D6 d => val_be d (10 * acc + 6)
  | D7 d => val_be d (10 * acc + 7)
  | D8 d => val_be d (10 * acc + 8)
  | D9 d => val_be d (10 * acc + 9)
  end.

Lemma val_be_of_lu : forall d d', val_be d (Unsigned.of_lu d') = Unsigned.of_lu (revapp d d').
Proof.
  induction d as [|d IH|d IH|d IH|d IH|d IH|d IH|d IH|d IH|d IH|d IH]; intros d';
    cbn [val_be revapp]; [reflexivity|..]; rewrite <- IH; f_equal; cbn [Unsigned.of_lu]; lia.
Qed.

Lemma val_be_to_uint n : val_be (N.to_uint n) 0 = n.
Proof.
  change 0 with (Unsigned.of_lu Nil). rewrite val_be_of_lu.
  change (revapp (N.to_uint n) Nil) with (rev (N.to_uint n)).
  rewrite <- Unsigned.of_uint_alt. exact (DecimalN.Unsigned.of_to n).
Qed.

Lemma digits_val_uint : forall d acc,
  digits_val (NilEmpty.string_of_uint d) acc = Some (val_be d acc).
Proof.
  induction d as [|d IH|d IH|d IH|d IH|d IH|d IH|d IH|d IH|d IH|d IH]; intros acc;
    cbn [NilEmpty.string_of_uint digits_val val_be]; [reflexivity|..];
    (match goal with |- context [is_digit ?c] => change (is_digit c) with true end);
    cbv iota; rewrite <- IH; reflexivity.
Qed.

Lemma all_digits_uint : forall d, all_chars is_digit (NilEmpty.string_of_uint d) = true.
Proof.
  induction d as [|d IH|d IH|d IH|d IH|d IH|d IH|d IH|d IH|d IH|d IH];
    cbn [NilEmpty.string_of_uint all_chars]; [reflexivity|..];
    (match goal with |- context [is_digit ?c] => change (is_digit c) with true end);
    cbn [andb]; exact IH.
Qed.

Lemma to_uint_nonnil n : N.to_uint n <> Nil.
Proof. destruct n as [|p]; [discriminate|]. cbn [N.to_uint]. apply Unsigned.to_uint_nonnil. Qed.

Lemma dec_digits n : digits (dec n).
Proof.
  split; [apply all_digits_uint|]. unfold dec.
  assert (H := to_uint_nonnil n). destruct (N.to_uint n); [contradiction|..]; discriminate.
Qed.

Lemma digits_val_dec n : digits_val (dec n) 0 = Some n.
Proof. unfold dec. rewrite digits_val_uint, val_be_to_uint. reflexivity. Qed.

(* ------------------------------------------------------------------ version_extract *)
Theorem version_extract_gen_lemma : forall op M m p,
  no_digit op ->
  get_solidity_major_minor_patch_version (op ++ dec M ++ dot_s (dec m ++ dot_s (dec p)))%string
  = [dec M; dec m; dec p].
Proof. intros op M m p H. apply version_extract_digits_lemma; [exact H | apply dec_digits ..]. Qed.

Definition version_ops : list string := [""; "^"; "~"; "="; ">="; ">"]%string.

Fixpoint blanks (k : nat) : string :=
  match k with O => EmptyString | S k' => String " "%char (blanks k') end.

Lemma no_digit_app a b : no_digit a -> no_digit b -> no_digit (a ++ b)%string.
Proof.
  unfold no_digit. induction a as [|c a IH]; intros Ha Hb; [exact Hb|].
  cbn [all_chars] in Ha. apply andb_true_iff in Ha. destruct Ha as [Hc Ha].
  cbn [append all_chars]. rewrite Hc. cbn [andb]. apply IH; assumption.
Qed.

Lemma no_digit_blanks k : no_digit (blanks k).
Proof. unfold no_digit. induction k as [|k IH]; [reflexivity|]. cbn [blanks all_chars]. exact IH. Qed.

Lemma no_digit_ops op : In op version_ops -> no_digit op.
Proof.
  unfold version_ops. cbn [In]. intros H.
  repeat (destruct H as [<-|H]; [reflexivity|]). contradiction.
Qed.

Theorem version_extract_lemma : forall M m p op k,
  In op version_ops ->
  get_solidity_major_minor_patch_version
    ((op ++ blanks k) ++ dec M ++ dot_s (dec m ++ dot_s (dec p)))%string
  = [dec M; dec m; dec p].
Proof.
  intros M m p op k H. apply version_extract_gen_lemma.
  apply no_digit_app; [apply no_digit_ops; exact H | apply no_digit_blanks].
Qed.

(* ------------------------------------------------------------------ parse::<i32>() *)
Theorem parse_i32_digits_lemma : forall s v,
  digits s -> digits_val s 0 = Some v -> (Z.of_N v <= i32_max)%Z -> parse_i32 s = Ok (Z.of_N v).
Proof.
  intros s v [Ha Hn] Hv Hle. destruct s as [|c r]; [contradiction|].
  unfold parse_i32. cbv zeta.
  assert (Hc : is_digit c = true) by (cbn [all_chars] in Ha; apply andb_true_iff in Ha; exact (proj1 Ha)).
  assert (H45 : (N_of_ascii c =? 45) = false /\ (N_of_ascii c =? 43) = false).
  { unfold is_digit in Hc. cbv zeta in Hc. apply andb_true_iff in Hc. destruct Hc as [H1 _].
    apply N.leb_le in H1. split; apply N.eqb_neq; lia. }
  destruct H45 as [E45 E43]. rewrite E45, E43. cbn [orb is_empty]. rewrite Hv.
  assert (Hr : ((i32_min <=? Z.of_N v) && (Z.of_N v <=? i32_max))%Z = true).
  { apply andb_true_iff. split; apply Z.leb_le; [unfold i32_min; lia | exact Hle]. }
  rewrite Hr. reflexivity.
Qed.

Theorem parse_i32_dec_lemma : forall n, n < 2 ^ 31 -> parse_i32 (dec n) = Ok (Z.of_N n).
Proof.
  intros n H. apply parse_i32_digits_lemma; [apply dec_digits | apply digits_val_dec |].
  change (2 ^ 31) with 2147483648 in H. unfold i32_max. lia.
Qed.

Theorem parse_i32_dec_overflow_lemma : forall n, 2 ^ 31 <= n ->
  parse_i32 (dec n) = Panic "parse::<i32>: number out of range".
Proof.
  intros n H. change (2 ^ 31) with 2147483648 in H.
  destruct (dec_digits n) as [Ha Hn]. destruct (dec n) as [|c r] eqn:E; [contradiction|].
  unfold parse_i32. cbv zeta.
  assert (Hc : is_digit c = true) by (cbn [all_chars] in Ha; apply andb_true_iff in Ha; exact (proj1 Ha)).
  assert (H45 : (N_of_ascii c =? 45) = false /\ (N_of_ascii c =? 43) = false).
  { unfold is_digit in Hc. cbv zeta in Hc. apply andb_true_iff in Hc. destruct Hc as [H1 _].
    apply N.leb_le in H1. split; apply N.eqb_neq; lia. }
  destruct H45 as [E45 E43]. rewrite E45, E43. cbn [orb is_empty]. rewrite <- E, digits_val_dec.
  assert (Hr : ((i32_min <=? Z.of_N n) && (Z.of_N n <=? i32_max))%Z = false).
  { apply andb_false_iff. right. apply Z.leb_gt. unfold i32_max. lia. }
  rewrite Hr. reflexivity.
Qed.

Theorem parse_i32_empty_lemma : parse_i32 EmptyString = Panic "parse::<i32>: empty string".
Proof. reflexivity. Qed.

(* ------------------------------------------------------------------ the same, in the form
   used by the detector-level theorems of C09 *)
Fixpoint value_acc (s : string) (acc : N) : N :=
  match s with
  | EmptyString => acc
  | String c r => value_acc r (10 * acc + (N_of_ascii c - 48))
  end.
(* decimal value of a digit string (leading zeros allowed) *)
Definition value (s : string) : N := value_acc s 0.

Lemma digits_val_value : forall s acc,
  all_chars is_digit s = true -> digits_val s acc = Some (value_acc s acc).
Proof.
  induction s as [|c r IH]; intros acc H; [reflexivity|].
  cbn [all_chars] in H. apply andb_true_iff in H. destruct H as [Hc Hr].
  cbn [digits_val value_acc]. rewrite Hc. apply IH. exact Hr.
Qed.

Lemma value_dec n : value (dec n) = n.
Proof.
  assert (H := digits_val_value (dec n) 0 (proj1 (dec_digits n))).
  rewrite digits_val_dec in H. injection H as H. symmetry. exact H.
Qed.

Lemma scan_three_components : forall pre d1 d2 d3 : string,
  no_digit pre -> digits d1 -> digits d2 -> digits d3 ->
  get_solidity_major_minor_patch_version (pre ++ d1 ++ "." ++ d2 ++ "." ++ d3)%string = [d1; d2; d3].
Proof. exact version_extract_digits_lemma. Qed.

Lemma parse_i32_digits : forall d,
  all_chars is_digit d = true -> d <> EmptyString -> value d < 2 ^ 31 ->
  parse_i32 d = Ok (Z.of_N (value d)).
Proof.
  intros d Ha Hn Hv. apply parse_i32_digits_lemma.
  - split; assumption.
  - apply digits_val_value. exact Ha.
  - change (2 ^ 31) with 2147483648 in Hv. unfold i32_max. lia.
Qed.

Lemma parse_i32_digits_overflow : forall d,
  all_chars is_digit d = true -> d <> EmptyString -> 2 ^ 31 <= value d ->
  parse_i32 d = Panic "parse::<i32>: number out of range".
Proof.
  intros d Ha Hn Hv. change (2 ^ 31) with 2147483648 in Hv.
  destruct d as [|c r] eqn:E; [contradiction|]. rewrite <- E in *.
  assert (Hc : is_digit c = true) by (rewrite E in Ha; cbn [all_chars] in Ha; apply andb_true_iff in Ha; exact (proj1 Ha)).
  assert (H45 : (N_of_ascii c =? 45) = false /\ (N_of_ascii c =? 43) = false).
  { unfold is_digit in Hc. cbv zeta in Hc. apply andb_true_iff in Hc. destruct Hc as [H1 _].
    apply N.leb_le in H1. split; apply N.eqb_neq; lia. }
  destruct H45 as [E45 E43].
  assert (Hd : digits_val d 0 = Some (value d)) by (apply digits_val_value; exact Ha).
  rewrite E in Hd |- *. unfold parse_i32. cbv zeta. rewrite E45, E43. cbn [orb is_empty]. rewrite Hd.
  rewrite <- E.
  assert (Hr : ((i32_min <=? Z.of_N (value d)) && (Z.of_N (value d) <=? i32_max))%Z = false).
  { apply andb_false_iff. right. apply Z.leb_gt. unfold i32_max. lia. }
  rewrite Hr. reflexivity.
Qed.

Lemma dec_is_digits_lemma : forall n, digits (dec n) /\ digits_val (dec n) 0 = Some n.
Proof. intros n. split; [apply dec_digits | apply digits_val_dec]. Qed.
