(* C17 (model part, piece A): string-content irrelevance.
   gen/Pt.v `maps_*` rewrites the text of the parts of Expression::StringLiteral only (not pragma
   values, import paths or identifiers).  For all 30 detectors: a rewriting that preserves the byte
   length of every part cannot be observed (exact equality of the result, panics included); for 29
   of them no condition on the rewriting is needed at all - only short_revert_string measures the
   length (`strlen` = String.length) of the first part of the last argument of require(..);
   string_error returns that part's location; immutable_variables looks at the constructor
   (Expression_StringLiteral or not) only.
   Part 1: maps commutes with the complete pre-order and hence with the walker (architecture of MapLoc.v).
   Part 2: unfolding equations for maps_* (cbn exposes the raw mutual fix).
   Part 3: the detectors. *)
From Coq Require Import List String Ascii NArith ZArith Bool.
Import ListNotations.
From Solstat Require Import Lift Pt Walk Res Nodes Utils Detectors Opt_pack WalkProof NoPanic.
Local Open Scope string_scope.
Local Open Scope list_scope.

(* ------------------------------------------------------------------------------------------
   Part 1 *)
Section MapStrPre.
  Variable g : string -> string.

  Definition maps_node (n : node) : node :=
    match n with
    | N_Statement s => N_Statement (maps_Statement g s)
    | N_Expression e => N_Expression (maps_Expression g e)
    | N_SourceUnit su => N_SourceUnit (maps_SourceUnit g su)
    | N_SourceUnitPart p => N_SourceUnitPart (maps_SourceUnitPart g p)
    | N_ContractPart p => N_ContractPart (maps_ContractPart g p)
    end.

  Lemma flat_map_maps_Forall {A B C} (f : A -> list C) (f' : B -> list C) (k : B -> A) (h : C -> C) (l : list B) :
    Forall (fun x => f (k x) = map h (f' x)) l -> flat_map f (map k l) = map h (flat_map f' l).
  Proof.
    induction 1 as [|x l Hx Hl IH]; [reflexivity|]. cbn [map flat_map]. rewrite map_app, Hx, IH. reflexivity.
  Qed.

  Ltac unf_m :=
    cbn [maps_Expression maps_Ty maps_Param maps_NamedArgument maps_FunctionAttribute maps_Base
         maps_VariableDeclaration maps_Statement maps_CatchClause
         pre_Expression pre_Ty pre_Param pre_NamedArgument pre_FunctionAttribute pre_Base
         pre_VariableDeclaration pre_Statement pre_CatchClause].

  Ltac m_leaf :=
    lazymatch goal with
    | |- _ :: _ = map _ (_ :: _) => cbn [map]; f_equal; m_leaf
    | |- _ ++ _ = map _ (_ ++ _) => rewrite map_app; apply app_eq2; m_leaf
    | |- [] = map _ [] => reflexivity
    | |- flat_map _ (map _ ?l) = map _ (flat_map _ ?l) =>
        match goal with
        | H : Forall _ l |- _ =>
            apply flat_map_maps_Forall; eapply Forall_impl; [| exact H];
            let x := fresh "x" in let Hx := fresh "Hx" in
            intros x Hx; cbv beta in Hx |- *; prep; m_leaf
        end
    | |- _ => match goal with H : ?g |- ?g => exact H | |- ?a = ?a => reflexivity end
    end.

  Ltac m_arm := intros; unf_m; prep; m_leaf.

  Theorem pre_maps_mut :
    (forall x, pre_Ty (maps_Ty g x) = map maps_node (pre_Ty x)) /\
    (forall x, pre_VariableDeclaration (maps_VariableDeclaration g x) = map maps_node (pre_VariableDeclaration x)) /\
    (forall x, pre_Base (maps_Base g x) = map maps_node (pre_Base x)) /\
    (forall x, pre_NamedArgument (maps_NamedArgument g x) = map maps_node (pre_NamedArgument x)) /\
    (forall x, pre_Expression (maps_Expression g x) = map maps_node (pre_Expression x)) /\
    (forall x, pre_Param (maps_Param g x) = map maps_node (pre_Param x)) /\
    (forall x, pre_FunctionAttribute (maps_FunctionAttribute g x) = map maps_node (pre_FunctionAttribute x)) /\
    (forall x, pre_Statement (maps_Statement g x) = map maps_node (pre_Statement x)) /\
    (forall x, pre_CatchClause (maps_CatchClause g x) = map maps_node (pre_CatchClause x)).
  Proof. apply Pt_mutind; m_arm. Qed.

  Definition pre_maps_Ty := proj1 pre_maps_mut.
  Definition pre_maps_VariableDeclaration := proj1 (proj2 pre_maps_mut).
  Definition pre_maps_Base := proj1 (proj2 (proj2 pre_maps_mut)).
  Definition pre_maps_NamedArgument := proj1 (proj2 (proj2 (proj2 pre_maps_mut))).
  Definition pre_maps_Expression := proj1 (proj2 (proj2 (proj2 (proj2 pre_maps_mut)))).
  Definition pre_maps_Param := proj1 (proj2 (proj2 (proj2 (proj2 (proj2 pre_maps_mut))))).
  Definition pre_maps_FunctionAttribute := proj1 (proj2 (proj2 (proj2 (proj2 (proj2 (proj2 pre_maps_mut)))))).
  Definition pre_maps_Statement := proj1 (proj2 (proj2 (proj2 (proj2 (proj2 (proj2 (proj2 pre_maps_mut))))))).
  Definition pre_maps_CatchClause := proj2 (proj2 (proj2 (proj2 (proj2 (proj2 (proj2 (proj2 pre_maps_mut))))))).

  Lemma flat_map_maps_all {A B} (f : A -> list node) (f' : B -> list node) (k : B -> A) (l : list B) :
    (forall x, f (k x) = map maps_node (f' x)) -> flat_map f (map k l) = map maps_node (flat_map f' l).
  Proof. intros H. apply flat_map_maps_Forall. apply Forall_forall. intros x _. apply H. Qed.

  Lemma pre_maps_params ps :
    flat_map (fun p : Loc * option Param => match p with (_, op) => match op with Some q => pre_Param q | None => [] end end)
             (map (fun p : Loc * option Param => match p with (l, op) => (l, match op with Some q => Some (maps_Param g q) | None => None end) end) ps)
    = map maps_node (flat_map (fun p : Loc * option Param => match p with (_, op) => match op with Some q => pre_Param q | None => [] end end) ps).
  Proof. apply flat_map_maps_all. intros [l [q|]]; [apply pre_maps_Param|reflexivity]. Qed.

  Lemma pre_maps_FunctionDefinition f :
    pre_FunctionDefinition (maps_FunctionDefinition g f) = map maps_node (pre_FunctionDefinition f).
  Proof.
    destruct f as [l ty nm nl params attrs rnr rets body]. unfold maps_FunctionDefinition, pre_FunctionDefinition.
    rewrite !map_app. repeat apply app_eq2.
    - apply pre_maps_params.
    - apply flat_map_maps_all. apply pre_maps_FunctionAttribute.
    - apply pre_maps_params.
    - destruct body; [apply pre_maps_Statement|reflexivity].
  Qed.

  Lemma pre_maps_VariableDefinition v :
    pre_VariableDefinition (maps_VariableDefinition g v) = map maps_node (pre_VariableDefinition v).
  Proof.
    destruct v as [l ty attrs nm oi]. unfold maps_VariableDefinition, pre_VariableDefinition.
    rewrite map_app. apply app_eq2; [apply pre_maps_Expression|]. destruct oi; [apply pre_maps_Expression|reflexivity].
  Qed.

  Lemma pre_maps_StructDefinition d :
    pre_StructDefinition (maps_StructDefinition g d) = map maps_node (pre_StructDefinition d).
  Proof. destruct d. unfold maps_StructDefinition, pre_StructDefinition. apply flat_map_maps_all. apply pre_maps_VariableDeclaration. Qed.

  Lemma pre_maps_EventDefinition d :
    pre_EventDefinition (maps_EventDefinition g d) = map maps_node (pre_EventDefinition d).
  Proof.
    destruct d. unfold maps_EventDefinition, pre_EventDefinition. apply flat_map_maps_all.
    intros [ty l i n]. unfold maps_EventParameter, pre_EventParameter. apply pre_maps_Expression.
  Qed.

  Lemma pre_maps_ErrorDefinition d :
    pre_ErrorDefinition (maps_ErrorDefinition g d) = map maps_node (pre_ErrorDefinition d).
  Proof.
    destruct d. unfold maps_ErrorDefinition, pre_ErrorDefinition. apply flat_map_maps_all.
    intros [ty l n]. unfold maps_ErrorParameter, pre_ErrorParameter. apply pre_maps_Expression.
  Qed.

  Lemma pre_maps_TypeDefinition d :
    pre_TypeDefinition (maps_TypeDefinition g d) = map maps_node (pre_TypeDefinition d).
  Proof. destruct d. apply pre_maps_Expression. Qed.

  Lemma pre_maps_Using d : pre_Using (maps_Using g d) = map maps_node (pre_Using d).
  Proof. destruct d as [l li oty gl]. unfold maps_Using, pre_Using. destruct oty; [apply pre_maps_Expression|reflexivity]. Qed.

  Lemma pre_maps_ContractPart p : pre_ContractPart (maps_ContractPart g p) = map maps_node (pre_ContractPart p).
  Proof.
    destruct p; unfold maps_ContractPart, pre_ContractPart; cbn [map maps_node maps_ContractPart]; f_equal; first
      [ apply pre_maps_StructDefinition | apply pre_maps_EventDefinition | apply pre_maps_ErrorDefinition
      | apply pre_maps_VariableDefinition | apply pre_maps_FunctionDefinition | apply pre_maps_TypeDefinition
      | apply pre_maps_Using | reflexivity ].
  Qed.

  Lemma pre_maps_ContractDefinition c :
    pre_ContractDefinition (maps_ContractDefinition g c) = map maps_node (pre_ContractDefinition c).
  Proof.
    destruct c as [l ty nm bases parts]. unfold maps_ContractDefinition, pre_ContractDefinition.
    rewrite map_app. apply app_eq2; apply flat_map_maps_all; [apply pre_maps_Base|apply pre_maps_ContractPart].
  Qed.

  Lemma pre_maps_SourceUnitPart p :
    pre_SourceUnitPart (maps_SourceUnitPart g p) = map maps_node (pre_SourceUnitPart p).
  Proof.
    destruct p; unfold maps_SourceUnitPart, pre_SourceUnitPart; cbn [map maps_node maps_SourceUnitPart]; f_equal; first
      [ apply pre_maps_ContractDefinition
      | apply pre_maps_StructDefinition | apply pre_maps_EventDefinition | apply pre_maps_ErrorDefinition
      | apply pre_maps_VariableDefinition | apply pre_maps_FunctionDefinition | apply pre_maps_TypeDefinition
      | apply pre_maps_Using | reflexivity ].
  Qed.

  Lemma pre_maps_SourceUnit su : pre_SourceUnit (maps_SourceUnit g su) = map maps_node (pre_SourceUnit su).
  Proof.
    destruct su as [parts]. unfold maps_SourceUnit, pre_SourceUnit. cbn [map maps_node maps_SourceUnit]. f_equal.
    apply flat_map_maps_all. apply pre_maps_SourceUnitPart.
  Qed.

  (* the complete pre-order of the renamed tree is the renamed pre-order *)
  Theorem pre_maps : forall n, pre (maps_node n) = map maps_node (pre n).
  Proof.
    destruct n; unfold pre, maps_node;
      [ apply pre_maps_Statement | apply pre_maps_Expression | apply pre_maps_SourceUnit
      | apply pre_maps_SourceUnitPart | apply pre_maps_ContractPart ].
  Qed.

  (* kinds do not depend on locations *)
  Lemma kind_of_maps n : kind_of (maps_node n) = kind_of n.
  Proof. destruct n as [s|e|su|p|p]; [destruct s|destruct e|idtac|destruct p|destruct p]; reflexivity. Qed.

  (* the walker is equivariant *)
  Theorem walk_maps T n : walk T (maps_node n) = map maps_node (walk T n).
  Proof.
    rewrite !walk_exact_lemma, pre_maps. induction (pre n) as [|m ms IH]; [reflexivity|].
    cbn [map filter]. rewrite IH. unfold sel. rewrite kind_of_maps. destruct (T (kind_of m)); reflexivity.
  Qed.


End MapStrPre.

(* ------------------------------------------------------------------------------------------
   Part 2: unfolding equations (one per constructor of the mutual block; all by reflexivity) *)
Section MapsEqs.
  Variable g : string -> string.
  Lemma maps_eq_Ty_Address : maps_Ty g Ty_Address = Ty_Address .
  Proof. reflexivity. Qed.
  Lemma maps_eq_Ty_AddressPayable : maps_Ty g Ty_AddressPayable = Ty_AddressPayable .
  Proof. reflexivity. Qed.
  Lemma maps_eq_Ty_Payable : maps_Ty g Ty_Payable = Ty_Payable .
  Proof. reflexivity. Qed.
  Lemma maps_eq_Ty_Bool : maps_Ty g Ty_Bool = Ty_Bool .
  Proof. reflexivity. Qed.
  Lemma maps_eq_Ty_String : maps_Ty g Ty_String = Ty_String .
  Proof. reflexivity. Qed.
  Lemma maps_eq_Ty_Int : forall a0, maps_Ty g (Ty_Int a0) = Ty_Int a0.
  Proof. reflexivity. Qed.
  Lemma maps_eq_Ty_Uint : forall a0, maps_Ty g (Ty_Uint a0) = Ty_Uint a0.
  Proof. reflexivity. Qed.
  Lemma maps_eq_Ty_Bytes : forall a0, maps_Ty g (Ty_Bytes a0) = Ty_Bytes a0.
  Proof. reflexivity. Qed.
  Lemma maps_eq_Ty_Rational : maps_Ty g Ty_Rational = Ty_Rational .
  Proof. reflexivity. Qed.
  Lemma maps_eq_Ty_DynamicBytes : maps_Ty g Ty_DynamicBytes = Ty_DynamicBytes .
  Proof. reflexivity. Qed.
  Lemma maps_eq_Ty_Mapping : forall a0 a1 a2, maps_Ty g (Ty_Mapping a0 a1 a2) = Ty_Mapping a0 ((maps_Expression g) a1) ((maps_Expression g) a2).
  Proof. reflexivity. Qed.
  Lemma maps_eq_Ty_Function : forall params_ attributes_ returns_, maps_Ty g (Ty_Function params_ attributes_ returns_) = Ty_Function (map (fun y311 => (match y311 with (y312, y313) => (y312, (match y313 with Some y314 => Some ((maps_Param g) y314) | None => None end)) end)) params_) (map (fun y315 => ((maps_FunctionAttribute g) y315)) attributes_) (match returns_ with Some y316 => Some (match y316 with (y317, y318) => ((map (fun y319 => (match y319 with (y320, y321) => (y320, (match y321 with Some y322 => Some ((maps_Param g) y322) | None => None end)) end)) y317), (map (fun y323 => ((maps_FunctionAttribute g) y323)) y318)) end) | None => None end).
  Proof. reflexivity. Qed.
  Lemma maps_eq_Mk_VariableDeclaration : forall loc_ ty_ storage_ name_, maps_VariableDeclaration g (Mk_VariableDeclaration loc_ ty_ storage_ name_) = Mk_VariableDeclaration loc_ ((maps_Expression g) ty_) storage_ name_.
  Proof. reflexivity. Qed.
  Lemma maps_eq_Mk_Base : forall loc_ name_ args_, maps_Base g (Mk_Base loc_ name_ args_) = Mk_Base loc_ name_ (match args_ with Some y324 => Some (map (fun y325 => ((maps_Expression g) y325)) y324) | None => None end).
  Proof. reflexivity. Qed.
  Lemma maps_eq_Mk_NamedArgument : forall loc_ name_ expr_, maps_NamedArgument g (Mk_NamedArgument loc_ name_ expr_) = Mk_NamedArgument loc_ name_ ((maps_Expression g) expr_).
  Proof. reflexivity. Qed.
  Lemma maps_eq_Expression_PostIncrement : forall a0 a1, maps_Expression g (Expression_PostIncrement a0 a1) = Expression_PostIncrement a0 ((maps_Expression g) a1).
  Proof. reflexivity. Qed.
  Lemma maps_eq_Expression_PostDecrement : forall a0 a1, maps_Expression g (Expression_PostDecrement a0 a1) = Expression_PostDecrement a0 ((maps_Expression g) a1).
  Proof. reflexivity. Qed.
  Lemma maps_eq_Expression_New : forall a0 a1, maps_Expression g (Expression_New a0 a1) = Expression_New a0 ((maps_Expression g) a1).
  Proof. reflexivity. Qed.
  Lemma maps_eq_Expression_ArraySubscript : forall a0 a1 a2, maps_Expression g (Expression_ArraySubscript a0 a1 a2) = Expression_ArraySubscript a0 ((maps_Expression g) a1) (match a2 with Some y326 => Some ((maps_Expression g) y326) | None => None end).
  Proof. reflexivity. Qed.
  Lemma maps_eq_Expression_ArraySlice : forall a0 a1 a2 a3, maps_Expression g (Expression_ArraySlice a0 a1 a2 a3) = Expression_ArraySlice a0 ((maps_Expression g) a1) (match a2 with Some y327 => Some ((maps_Expression g) y327) | None => None end) (match a3 with Some y328 => Some ((maps_Expression g) y328) | None => None end).
  Proof. reflexivity. Qed.
  Lemma maps_eq_Expression_Parenthesis : forall a0 a1, maps_Expression g (Expression_Parenthesis a0 a1) = Expression_Parenthesis a0 ((maps_Expression g) a1).
  Proof. reflexivity. Qed.
  Lemma maps_eq_Expression_MemberAccess : forall a0 a1 a2, maps_Expression g (Expression_MemberAccess a0 a1 a2) = Expression_MemberAccess a0 ((maps_Expression g) a1) a2.
  Proof. reflexivity. Qed.
  Lemma maps_eq_Expression_FunctionCall : forall a0 a1 a2, maps_Expression g (Expression_FunctionCall a0 a1 a2) = Expression_FunctionCall a0 ((maps_Expression g) a1) (map (fun y329 => ((maps_Expression g) y329)) a2).
  Proof. reflexivity. Qed.
  Lemma maps_eq_Expression_FunctionCallBlock : forall a0 a1 a2, maps_Expression g (Expression_FunctionCallBlock a0 a1 a2) = Expression_FunctionCallBlock a0 ((maps_Expression g) a1) ((maps_Statement g) a2).
  Proof. reflexivity. Qed.
  Lemma maps_eq_Expression_NamedFunctionCall : forall a0 a1 a2, maps_Expression g (Expression_NamedFunctionCall a0 a1 a2) = Expression_NamedFunctionCall a0 ((maps_Expression g) a1) (map (fun y330 => ((maps_NamedArgument g) y330)) a2).
  Proof. reflexivity. Qed.
  Lemma maps_eq_Expression_Not : forall a0 a1, maps_Expression g (Expression_Not a0 a1) = Expression_Not a0 ((maps_Expression g) a1).
  Proof. reflexivity. Qed.
  Lemma maps_eq_Expression_Complement : forall a0 a1, maps_Expression g (Expression_Complement a0 a1) = Expression_Complement a0 ((maps_Expression g) a1).
  Proof. reflexivity. Qed.
  Lemma maps_eq_Expression_Delete : forall a0 a1, maps_Expression g (Expression_Delete a0 a1) = Expression_Delete a0 ((maps_Expression g) a1).
  Proof. reflexivity. Qed.
  Lemma maps_eq_Expression_PreIncrement : forall a0 a1, maps_Expression g (Expression_PreIncrement a0 a1) = Expression_PreIncrement a0 ((maps_Expression g) a1).
  Proof. reflexivity. Qed.
  Lemma maps_eq_Expression_PreDecrement : forall a0 a1, maps_Expression g (Expression_PreDecrement a0 a1) = Expression_PreDecrement a0 ((maps_Expression g) a1).
  Proof. reflexivity. Qed.
  Lemma maps_eq_Expression_UnaryPlus : forall a0 a1, maps_Expression g (Expression_UnaryPlus a0 a1) = Expression_UnaryPlus a0 ((maps_Expression g) a1).
  Proof. reflexivity. Qed.
  Lemma maps_eq_Expression_UnaryMinus : forall a0 a1, maps_Expression g (Expression_UnaryMinus a0 a1) = Expression_UnaryMinus a0 ((maps_Expression g) a1).
  Proof. reflexivity. Qed.
  Lemma maps_eq_Expression_Power : forall a0 a1 a2, maps_Expression g (Expression_Power a0 a1 a2) = Expression_Power a0 ((maps_Expression g) a1) ((maps_Expression g) a2).
  Proof. reflexivity. Qed.
  Lemma maps_eq_Expression_Multiply : forall a0 a1 a2, maps_Expression g (Expression_Multiply a0 a1 a2) = Expression_Multiply a0 ((maps_Expression g) a1) ((maps_Expression g) a2).
  Proof. reflexivity. Qed.
  Lemma maps_eq_Expression_Divide : forall a0 a1 a2, maps_Expression g (Expression_Divide a0 a1 a2) = Expression_Divide a0 ((maps_Expression g) a1) ((maps_Expression g) a2).
  Proof. reflexivity. Qed.
  Lemma maps_eq_Expression_Modulo : forall a0 a1 a2, maps_Expression g (Expression_Modulo a0 a1 a2) = Expression_Modulo a0 ((maps_Expression g) a1) ((maps_Expression g) a2).
  Proof. reflexivity. Qed.
  Lemma maps_eq_Expression_Add : forall a0 a1 a2, maps_Expression g (Expression_Add a0 a1 a2) = Expression_Add a0 ((maps_Expression g) a1) ((maps_Expression g) a2).
  Proof. reflexivity. Qed.
  Lemma maps_eq_Expression_Subtract : forall a0 a1 a2, maps_Expression g (Expression_Subtract a0 a1 a2) = Expression_Subtract a0 ((maps_Expression g) a1) ((maps_Expression g) a2).
  Proof. reflexivity. Qed.
  Lemma maps_eq_Expression_ShiftLeft : forall a0 a1 a2, maps_Expression g (Expression_ShiftLeft a0 a1 a2) = Expression_ShiftLeft a0 ((maps_Expression g) a1) ((maps_Expression g) a2).
  Proof. reflexivity. Qed.
  Lemma maps_eq_Expression_ShiftRight : forall a0 a1 a2, maps_Expression g (Expression_ShiftRight a0 a1 a2) = Expression_ShiftRight a0 ((maps_Expression g) a1) ((maps_Expression g) a2).
  Proof. reflexivity. Qed.
  Lemma maps_eq_Expression_BitwiseAnd : forall a0 a1 a2, maps_Expression g (Expression_BitwiseAnd a0 a1 a2) = Expression_BitwiseAnd a0 ((maps_Expression g) a1) ((maps_Expression g) a2).
  Proof. reflexivity. Qed.
  Lemma maps_eq_Expression_BitwiseXor : forall a0 a1 a2, maps_Expression g (Expression_BitwiseXor a0 a1 a2) = Expression_BitwiseXor a0 ((maps_Expression g) a1) ((maps_Expression g) a2).
  Proof. reflexivity. Qed.
  Lemma maps_eq_Expression_BitwiseOr : forall a0 a1 a2, maps_Expression g (Expression_BitwiseOr a0 a1 a2) = Expression_BitwiseOr a0 ((maps_Expression g) a1) ((maps_Expression g) a2).
  Proof. reflexivity. Qed.
  Lemma maps_eq_Expression_Less : forall a0 a1 a2, maps_Expression g (Expression_Less a0 a1 a2) = Expression_Less a0 ((maps_Expression g) a1) ((maps_Expression g) a2).
  Proof. reflexivity. Qed.
  Lemma maps_eq_Expression_More : forall a0 a1 a2, maps_Expression g (Expression_More a0 a1 a2) = Expression_More a0 ((maps_Expression g) a1) ((maps_Expression g) a2).
  Proof. reflexivity. Qed.
  Lemma maps_eq_Expression_LessEqual : forall a0 a1 a2, maps_Expression g (Expression_LessEqual a0 a1 a2) = Expression_LessEqual a0 ((maps_Expression g) a1) ((maps_Expression g) a2).
  Proof. reflexivity. Qed.
  Lemma maps_eq_Expression_MoreEqual : forall a0 a1 a2, maps_Expression g (Expression_MoreEqual a0 a1 a2) = Expression_MoreEqual a0 ((maps_Expression g) a1) ((maps_Expression g) a2).
  Proof. reflexivity. Qed.
  Lemma maps_eq_Expression_Equal : forall a0 a1 a2, maps_Expression g (Expression_Equal a0 a1 a2) = Expression_Equal a0 ((maps_Expression g) a1) ((maps_Expression g) a2).
  Proof. reflexivity. Qed.
  Lemma maps_eq_Expression_NotEqual : forall a0 a1 a2, maps_Expression g (Expression_NotEqual a0 a1 a2) = Expression_NotEqual a0 ((maps_Expression g) a1) ((maps_Expression g) a2).
  Proof. reflexivity. Qed.
  Lemma maps_eq_Expression_And : forall a0 a1 a2, maps_Expression g (Expression_And a0 a1 a2) = Expression_And a0 ((maps_Expression g) a1) ((maps_Expression g) a2).
  Proof. reflexivity. Qed.
  Lemma maps_eq_Expression_Or : forall a0 a1 a2, maps_Expression g (Expression_Or a0 a1 a2) = Expression_Or a0 ((maps_Expression g) a1) ((maps_Expression g) a2).
  Proof. reflexivity. Qed.
  Lemma maps_eq_Expression_Ternary : forall a0 a1 a2 a3, maps_Expression g (Expression_Ternary a0 a1 a2 a3) = Expression_Ternary a0 ((maps_Expression g) a1) ((maps_Expression g) a2) ((maps_Expression g) a3).
  Proof. reflexivity. Qed.
  Lemma maps_eq_Expression_Assign : forall a0 a1 a2, maps_Expression g (Expression_Assign a0 a1 a2) = Expression_Assign a0 ((maps_Expression g) a1) ((maps_Expression g) a2).
  Proof. reflexivity. Qed.
  Lemma maps_eq_Expression_AssignOr : forall a0 a1 a2, maps_Expression g (Expression_AssignOr a0 a1 a2) = Expression_AssignOr a0 ((maps_Expression g) a1) ((maps_Expression g) a2).
  Proof. reflexivity. Qed.
  Lemma maps_eq_Expression_AssignAnd : forall a0 a1 a2, maps_Expression g (Expression_AssignAnd a0 a1 a2) = Expression_AssignAnd a0 ((maps_Expression g) a1) ((maps_Expression g) a2).
  Proof. reflexivity. Qed.
  Lemma maps_eq_Expression_AssignXor : forall a0 a1 a2, maps_Expression g (Expression_AssignXor a0 a1 a2) = Expression_AssignXor a0 ((maps_Expression g) a1) ((maps_Expression g) a2).
  Proof. reflexivity. Qed.
  Lemma maps_eq_Expression_AssignShiftLeft : forall a0 a1 a2, maps_Expression g (Expression_AssignShiftLeft a0 a1 a2) = Expression_AssignShiftLeft a0 ((maps_Expression g) a1) ((maps_Expression g) a2).
  Proof. reflexivity. Qed.
  Lemma maps_eq_Expression_AssignShiftRight : forall a0 a1 a2, maps_Expression g (Expression_AssignShiftRight a0 a1 a2) = Expression_AssignShiftRight a0 ((maps_Expression g) a1) ((maps_Expression g) a2).
  Proof. reflexivity. Qed.
  Lemma maps_eq_Expression_AssignAdd : forall a0 a1 a2, maps_Expression g (Expression_AssignAdd a0 a1 a2) = Expression_AssignAdd a0 ((maps_Expression g) a1) ((maps_Expression g) a2).
  Proof. reflexivity. Qed.
  Lemma maps_eq_Expression_AssignSubtract : forall a0 a1 a2, maps_Expression g (Expression_AssignSubtract a0 a1 a2) = Expression_AssignSubtract a0 ((maps_Expression g) a1) ((maps_Expression g) a2).
  Proof. reflexivity. Qed.
  Lemma maps_eq_Expression_AssignMultiply : forall a0 a1 a2, maps_Expression g (Expression_AssignMultiply a0 a1 a2) = Expression_AssignMultiply a0 ((maps_Expression g) a1) ((maps_Expression g) a2).
  Proof. reflexivity. Qed.
  Lemma maps_eq_Expression_AssignDivide : forall a0 a1 a2, maps_Expression g (Expression_AssignDivide a0 a1 a2) = Expression_AssignDivide a0 ((maps_Expression g) a1) ((maps_Expression g) a2).
  Proof. reflexivity. Qed.
  Lemma maps_eq_Expression_AssignModulo : forall a0 a1 a2, maps_Expression g (Expression_AssignModulo a0 a1 a2) = Expression_AssignModulo a0 ((maps_Expression g) a1) ((maps_Expression g) a2).
  Proof. reflexivity. Qed.
  Lemma maps_eq_Expression_BoolLiteral : forall a0 a1, maps_Expression g (Expression_BoolLiteral a0 a1) = Expression_BoolLiteral a0 a1.
  Proof. reflexivity. Qed.
  Lemma maps_eq_Expression_NumberLiteral : forall a0 a1 a2, maps_Expression g (Expression_NumberLiteral a0 a1 a2) = Expression_NumberLiteral a0 a1 a2.
  Proof. reflexivity. Qed.
  Lemma maps_eq_Expression_RationalNumberLiteral : forall a0 a1 a2 a3, maps_Expression g (Expression_RationalNumberLiteral a0 a1 a2 a3) = Expression_RationalNumberLiteral a0 a1 a2 a3.
  Proof. reflexivity. Qed.
  Lemma maps_eq_Expression_HexNumberLiteral : forall a0 a1, maps_Expression g (Expression_HexNumberLiteral a0 a1) = Expression_HexNumberLiteral a0 a1.
  Proof. reflexivity. Qed.
  Lemma maps_eq_Expression_StringLiteral : forall a0, maps_Expression g (Expression_StringLiteral a0) = Expression_StringLiteral (map (maps_StringLiteral g) a0).
  Proof. reflexivity. Qed.
  Lemma maps_eq_Expression_Type : forall a0 a1, maps_Expression g (Expression_Type a0 a1) = Expression_Type a0 ((maps_Ty g) a1).
  Proof. reflexivity. Qed.
  Lemma maps_eq_Expression_HexLiteral : forall a0, maps_Expression g (Expression_HexLiteral a0) = Expression_HexLiteral a0.
  Proof. reflexivity. Qed.
  Lemma maps_eq_Expression_AddressLiteral : forall a0 a1, maps_Expression g (Expression_AddressLiteral a0 a1) = Expression_AddressLiteral a0 a1.
  Proof. reflexivity. Qed.
  Lemma maps_eq_Expression_Variable : forall a0, maps_Expression g (Expression_Variable a0) = Expression_Variable a0.
  Proof. reflexivity. Qed.
  Lemma maps_eq_Expression_List : forall a0 a1, maps_Expression g (Expression_List a0 a1) = Expression_List a0 (map (fun y331 => (match y331 with (y332, y333) => (y332, (match y333 with Some y334 => Some ((maps_Param g) y334) | None => None end)) end)) a1).
  Proof. reflexivity. Qed.
  Lemma maps_eq_Expression_ArrayLiteral : forall a0 a1, maps_Expression g (Expression_ArrayLiteral a0 a1) = Expression_ArrayLiteral a0 (map (fun y335 => ((maps_Expression g) y335)) a1).
  Proof. reflexivity. Qed.
  Lemma maps_eq_Expression_Unit : forall a0 a1 a2, maps_Expression g (Expression_Unit a0 a1 a2) = Expression_Unit a0 ((maps_Expression g) a1) a2.
  Proof. reflexivity. Qed.
  Lemma maps_eq_Expression_This : forall a0, maps_Expression g (Expression_This a0) = Expression_This a0.
  Proof. reflexivity. Qed.
  Lemma maps_eq_Mk_Param : forall loc_ ty_ storage_ name_, maps_Param g (Mk_Param loc_ ty_ storage_ name_) = Mk_Param loc_ ((maps_Expression g) ty_) storage_ name_.
  Proof. reflexivity. Qed.
  Lemma maps_eq_FunctionAttribute_Mutability : forall a0, maps_FunctionAttribute g (FunctionAttribute_Mutability a0) = FunctionAttribute_Mutability a0.
  Proof. reflexivity. Qed.
  Lemma maps_eq_FunctionAttribute_Visibility : forall a0, maps_FunctionAttribute g (FunctionAttribute_Visibility a0) = FunctionAttribute_Visibility a0.
  Proof. reflexivity. Qed.
  Lemma maps_eq_FunctionAttribute_Virtual : forall a0, maps_FunctionAttribute g (FunctionAttribute_Virtual a0) = FunctionAttribute_Virtual a0.
  Proof. reflexivity. Qed.
  Lemma maps_eq_FunctionAttribute_Immutable : forall a0, maps_FunctionAttribute g (FunctionAttribute_Immutable a0) = FunctionAttribute_Immutable a0.
  Proof. reflexivity. Qed.
  Lemma maps_eq_FunctionAttribute_Override : forall a0 a1, maps_FunctionAttribute g (FunctionAttribute_Override a0 a1) = FunctionAttribute_Override a0 a1.
  Proof. reflexivity. Qed.
  Lemma maps_eq_FunctionAttribute_BaseOrModifier : forall a0 a1, maps_FunctionAttribute g (FunctionAttribute_BaseOrModifier a0 a1) = FunctionAttribute_BaseOrModifier a0 ((maps_Base g) a1).
  Proof. reflexivity. Qed.
  Lemma maps_eq_FunctionAttribute_NameValue : forall a0 a1 a2, maps_FunctionAttribute g (FunctionAttribute_NameValue a0 a1 a2) = FunctionAttribute_NameValue a0 a1 ((maps_Expression g) a2).
  Proof. reflexivity. Qed.
  Lemma maps_eq_Statement_Block : forall loc_ unchecked_ statements_, maps_Statement g (Statement_Block loc_ unchecked_ statements_) = Statement_Block loc_ unchecked_ (map (fun y336 => ((maps_Statement g) y336)) statements_).
  Proof. reflexivity. Qed.
  Lemma maps_eq_Statement_Assembly : forall loc_ dialect_ flags_ block_, maps_Statement g (Statement_Assembly loc_ dialect_ flags_ block_) = Statement_Assembly loc_ dialect_ flags_ block_.
  Proof. reflexivity. Qed.
  Lemma maps_eq_Statement_Args : forall a0 a1, maps_Statement g (Statement_Args a0 a1) = Statement_Args a0 (map (fun y337 => ((maps_NamedArgument g) y337)) a1).
  Proof. reflexivity. Qed.
  Lemma maps_eq_Statement_If : forall a0 a1 a2 a3, maps_Statement g (Statement_If a0 a1 a2 a3) = Statement_If a0 ((maps_Expression g) a1) ((maps_Statement g) a2) (match a3 with Some y338 => Some ((maps_Statement g) y338) | None => None end).
  Proof. reflexivity. Qed.
  Lemma maps_eq_Statement_While : forall a0 a1 a2, maps_Statement g (Statement_While a0 a1 a2) = Statement_While a0 ((maps_Expression g) a1) ((maps_Statement g) a2).
  Proof. reflexivity. Qed.
  Lemma maps_eq_Statement_Expression : forall a0 a1, maps_Statement g (Statement_Expression a0 a1) = Statement_Expression a0 ((maps_Expression g) a1).
  Proof. reflexivity. Qed.
  Lemma maps_eq_Statement_VariableDefinition : forall a0 a1 a2, maps_Statement g (Statement_VariableDefinition a0 a1 a2) = Statement_VariableDefinition a0 ((maps_VariableDeclaration g) a1) (match a2 with Some y339 => Some ((maps_Expression g) y339) | None => None end).
  Proof. reflexivity. Qed.
  Lemma maps_eq_Statement_For : forall a0 a1 a2 a3 a4, maps_Statement g (Statement_For a0 a1 a2 a3 a4) = Statement_For a0 (match a1 with Some y340 => Some ((maps_Statement g) y340) | None => None end) (match a2 with Some y341 => Some ((maps_Expression g) y341) | None => None end) (match a3 with Some y342 => Some ((maps_Statement g) y342) | None => None end) (match a4 with Some y343 => Some ((maps_Statement g) y343) | None => None end).
  Proof. reflexivity. Qed.
  Lemma maps_eq_Statement_DoWhile : forall a0 a1 a2, maps_Statement g (Statement_DoWhile a0 a1 a2) = Statement_DoWhile a0 ((maps_Statement g) a1) ((maps_Expression g) a2).
  Proof. reflexivity. Qed.
  Lemma maps_eq_Statement_Continue : forall a0, maps_Statement g (Statement_Continue a0) = Statement_Continue a0.
  Proof. reflexivity. Qed.
  Lemma maps_eq_Statement_Break : forall a0, maps_Statement g (Statement_Break a0) = Statement_Break a0.
  Proof. reflexivity. Qed.
  Lemma maps_eq_Statement_Return : forall a0 a1, maps_Statement g (Statement_Return a0 a1) = Statement_Return a0 (match a1 with Some y344 => Some ((maps_Expression g) y344) | None => None end).
  Proof. reflexivity. Qed.
  Lemma maps_eq_Statement_Revert : forall a0 a1 a2, maps_Statement g (Statement_Revert a0 a1 a2) = Statement_Revert a0 a1 (map (fun y345 => ((maps_Expression g) y345)) a2).
  Proof. reflexivity. Qed.
  Lemma maps_eq_Statement_RevertNamedArgs : forall a0 a1 a2, maps_Statement g (Statement_RevertNamedArgs a0 a1 a2) = Statement_RevertNamedArgs a0 a1 (map (fun y346 => ((maps_NamedArgument g) y346)) a2).
  Proof. reflexivity. Qed.
  Lemma maps_eq_Statement_Emit : forall a0 a1, maps_Statement g (Statement_Emit a0 a1) = Statement_Emit a0 ((maps_Expression g) a1).
  Proof. reflexivity. Qed.
  Lemma maps_eq_Statement_Try : forall a0 a1 a2 a3, maps_Statement g (Statement_Try a0 a1 a2 a3) = Statement_Try a0 ((maps_Expression g) a1) (match a2 with Some y347 => Some (match y347 with (y348, y349) => ((map (fun y350 => (match y350 with (y351, y352) => (y351, (match y352 with Some y353 => Some ((maps_Param g) y353) | None => None end)) end)) y348), ((maps_Statement g) y349)) end) | None => None end) (map (fun y354 => ((maps_CatchClause g) y354)) a3).
  Proof. reflexivity. Qed.
  Lemma maps_eq_CatchClause_Simple : forall a0 a1 a2, maps_CatchClause g (CatchClause_Simple a0 a1 a2) = CatchClause_Simple a0 (match a1 with Some y355 => Some ((maps_Param g) y355) | None => None end) ((maps_Statement g) a2).
  Proof. reflexivity. Qed.
  Lemma maps_eq_CatchClause_Named : forall a0 a1 a2 a3, maps_CatchClause g (CatchClause_Named a0 a1 a2 a3) = CatchClause_Named a0 a1 ((maps_Param g) a2) ((maps_Statement g) a3).
  Proof. reflexivity. Qed.
End MapsEqs.
#[export] Hint Rewrite maps_eq_Ty_Address maps_eq_Ty_AddressPayable maps_eq_Ty_Payable maps_eq_Ty_Bool maps_eq_Ty_String maps_eq_Ty_Int maps_eq_Ty_Uint maps_eq_Ty_Bytes maps_eq_Ty_Rational maps_eq_Ty_DynamicBytes maps_eq_Ty_Mapping maps_eq_Ty_Function maps_eq_Mk_VariableDeclaration maps_eq_Mk_Base maps_eq_Mk_NamedArgument maps_eq_Expression_PostIncrement maps_eq_Expression_PostDecrement maps_eq_Expression_New maps_eq_Expression_ArraySubscript maps_eq_Expression_ArraySlice : maps_eqs.
#[export] Hint Rewrite maps_eq_Expression_Parenthesis maps_eq_Expression_MemberAccess maps_eq_Expression_FunctionCall maps_eq_Expression_FunctionCallBlock maps_eq_Expression_NamedFunctionCall maps_eq_Expression_Not maps_eq_Expression_Complement maps_eq_Expression_Delete maps_eq_Expression_PreIncrement maps_eq_Expression_PreDecrement maps_eq_Expression_UnaryPlus maps_eq_Expression_UnaryMinus maps_eq_Expression_Power maps_eq_Expression_Multiply maps_eq_Expression_Divide maps_eq_Expression_Modulo maps_eq_Expression_Add maps_eq_Expression_Subtract maps_eq_Expression_ShiftLeft maps_eq_Expression_ShiftRight : maps_eqs.
#[export] Hint Rewrite maps_eq_Expression_BitwiseAnd maps_eq_Expression_BitwiseXor maps_eq_Expression_BitwiseOr maps_eq_Expression_Less maps_eq_Expression_More maps_eq_Expression_LessEqual maps_eq_Expression_MoreEqual maps_eq_Expression_Equal maps_eq_Expression_NotEqual maps_eq_Expression_And maps_eq_Expression_Or maps_eq_Expression_Ternary maps_eq_Expression_Assign maps_eq_Expression_AssignOr maps_eq_Expression_AssignAnd maps_eq_Expression_AssignXor maps_eq_Expression_AssignShiftLeft maps_eq_Expression_AssignShiftRight maps_eq_Expression_AssignAdd maps_eq_Expression_AssignSubtract : maps_eqs.
#[export] Hint Rewrite maps_eq_Expression_AssignMultiply maps_eq_Expression_AssignDivide maps_eq_Expression_AssignModulo maps_eq_Expression_BoolLiteral maps_eq_Expression_NumberLiteral maps_eq_Expression_RationalNumberLiteral maps_eq_Expression_HexNumberLiteral maps_eq_Expression_StringLiteral maps_eq_Expression_Type maps_eq_Expression_HexLiteral maps_eq_Expression_AddressLiteral maps_eq_Expression_Variable maps_eq_Expression_List maps_eq_Expression_ArrayLiteral maps_eq_Expression_Unit maps_eq_Expression_This maps_eq_Mk_Param maps_eq_FunctionAttribute_Mutability maps_eq_FunctionAttribute_Visibility maps_eq_FunctionAttribute_Virtual : maps_eqs.
#[export] Hint Rewrite maps_eq_FunctionAttribute_Immutable maps_eq_FunctionAttribute_Override maps_eq_FunctionAttribute_BaseOrModifier maps_eq_FunctionAttribute_NameValue maps_eq_Statement_Block maps_eq_Statement_Assembly maps_eq_Statement_Args maps_eq_Statement_If maps_eq_Statement_While maps_eq_Statement_Expression maps_eq_Statement_VariableDefinition maps_eq_Statement_For maps_eq_Statement_DoWhile maps_eq_Statement_Continue maps_eq_Statement_Break maps_eq_Statement_Return maps_eq_Statement_Revert maps_eq_Statement_RevertNamedArgs maps_eq_Statement_Emit maps_eq_Statement_Try : maps_eqs.
#[export] Hint Rewrite maps_eq_CatchClause_Simple maps_eq_CatchClause_Named : maps_eqs.

(* ------------------------------------------------------------------------------------------
   Part 3: no detector can tell a tree from the same tree with rewritten string-literal text,
   as long as the rewriting preserves the byte length.  Proved directly on the model functions
   (exact equality of the `res (list Loc)`, panics included). *)

(* generic combinator lemmas *)
Lemma mapM_map_ext {A B C} (f : A -> res C) (f' : B -> res C) (h : B -> A) l :
  (forall x, f (h x) = f' x) -> mapM f (map h l) = mapM f' l.
Proof.
  intros H. induction l as [|x l IH]; [reflexivity|]. cbn [map mapM]. rewrite H, IH. reflexivity.
Qed.

Lemma mapM_map_rmap {A B C D} (f : A -> res C) (f' : B -> res D) (h : B -> A) (k : D -> C) l :
  (forall x, f (h x) = rmap k (f' x)) -> mapM f (map h l) = rmap (map k) (mapM f' l).
Proof.
  intros H. induction l as [|x l IH]; [reflexivity|]. cbn [map mapM]. rewrite H, IH.
  destruct (f' x) as [y|s]; cbn [rmap bind]; [|reflexivity].
  destruct (mapM f' l) as [ys|s]; reflexivity.
Qed.

Lemma foldM_map_ext {A B S} (f : S -> A -> res S) (f' : S -> B -> res S) (h : B -> A) l :
  (forall s x, f s (h x) = f' s x) -> forall s, foldM f (map h l) s = foldM f' l s.
Proof.
  intros H. induction l as [|x l IH]; intros s; [reflexivity|]. cbn [map foldM]. rewrite H.
  destruct (f' s x) as [s'|e]; cbn [bind]; [apply IH|reflexivity].
Qed.

Lemma fold_left_map_ext {A B S} (f : S -> A -> S) (f' : S -> B -> S) (h : B -> A) l :
  (forall s x, f s (h x) = f' s x) -> forall s, fold_left f (map h l) s = fold_left f' l s.
Proof.
  intros H. induction l as [|x l IH]; intros s; [reflexivity|]. cbn [map fold_left]. rewrite H. apply IH.
Qed.

Lemma flat_map_map_ext {A B C} (f : A -> list C) (f' : B -> list C) (h : B -> A) l :
  (forall x, f (h x) = f' x) -> flat_map f (map h l) = flat_map f' l.
Proof.
  intros H. induction l as [|x l IH]; [reflexivity|]. cbn [map flat_map]. rewrite H, IH. reflexivity.
Qed.

Lemma flat_map_map_map {A B C D} (f : A -> list C) (f' : B -> list D) (h : B -> A) (k : D -> C) l :
  (forall x, f (h x) = map k (f' x)) -> flat_map f (map h l) = map k (flat_map f' l).
Proof.
  intros H. induction l as [|x l IH]; [reflexivity|]. cbn [map flat_map]. rewrite map_app, H, IH. reflexivity.
Qed.

Lemma existsb_map_ext {A B} (f : A -> bool) (f' : B -> bool) (h : B -> A) l :
  (forall x, f (h x) = f' x) -> existsb f (map h l) = existsb f' l.
Proof.
  intros H. induction l as [|x l IH]; [reflexivity|]. cbn [map existsb]. rewrite H, IH. reflexivity.
Qed.

Lemma bind_rmap {A B C} (k : A -> B) (r : res A) (F : B -> res C) :
  bind (rmap k r) F = bind r (fun x => F (k x)).
Proof. destruct r; reflexivity. Qed.

Lemma bind_ext {A B} (r : res A) (F G : A -> res B) : (forall x, F x = G x) -> bind r F = bind r G.
Proof. intros H. destruct r; cbn [bind]; [apply H|reflexivity]. Qed.

Lemma last_map_some_map {A B} (h : A -> B) (l : list A) :
  last (map Some (map h l)) None = option_map h (last (map Some l) None).
Proof.
  induction l as [|a l IH]; [reflexivity|]. cbn [map last].
  destruct l as [|b l]; [reflexivity|]. exact IH.
Qed.

Section Blind.
  Variable g : string -> string.
  Hypothesis Hlen : forall s, String.length (g s) = String.length s.

  Notation mn := (maps_node g).
  Notation mE := (maps_Expression g).
  Notation mS := (maps_Statement g).

  Lemma extract1_maps t n : extract_target_from_node t (mn n) = map mn (extract_target_from_node t n).
  Proof. apply walk_maps. Qed.
  Lemma extractN_maps ts n : extract_targets_from_node ts (mn n) = map mn (extract_targets_from_node ts n).
  Proof. apply walk_maps. Qed.
  Lemma root_maps su : root (maps_SourceUnit g su) = mn (root su).
  Proof. reflexivity. Qed.
  Lemma NSU_maps su : N_SourceUnit (maps_SourceUnit g su) = mn (N_SourceUnit su).
  Proof. reflexivity. Qed.
  Lemma NE_maps e : N_Expression (mE e) = mn (N_Expression e).
  Proof. reflexivity. Qed.
  Lemma NS_maps s : N_Statement (mS s) = mn (N_Statement s).
  Proof. reflexivity. Qed.
  Lemma NCP_maps p : N_ContractPart (maps_ContractPart g p) = mn (N_ContractPart p).
  Proof. reflexivity. Qed.

  Lemma unwrap_expr_maps site n :
    unwrap site (node_expression (mn n)) = rmap mE (unwrap site (node_expression n)).
  Proof. destruct n; reflexivity. Qed.
  Lemma unwrap_stmt_maps site n :
    unwrap site (node_statement (mn n)) = rmap mS (unwrap site (node_statement n)).
  Proof. destruct n; reflexivity. Qed.
  Lemma unwrap_sup_maps site n :
    unwrap site (node_source_unit_part (mn n)) = rmap (maps_SourceUnitPart g) (unwrap site (node_source_unit_part n)).
  Proof. destruct n; reflexivity. Qed.
  Lemma unwrap_cp_maps site n :
    unwrap site (node_contract_part (mn n)) = rmap (maps_ContractPart g) (unwrap site (node_contract_part n)).
  Proof. destruct n; reflexivity. Qed.

  Lemma mapM_unwrap_sup site ns :
    mapM (fun n => unwrap site (node_source_unit_part n)) (map mn ns)
    = rmap (map (maps_SourceUnitPart g)) (mapM (fun n => unwrap site (node_source_unit_part n)) ns).
  Proof. apply mapM_map_rmap. intros n. apply unwrap_sup_maps. Qed.
  Lemma mapM_unwrap_cp site ns :
    mapM (fun n => unwrap site (node_contract_part n)) (map mn ns)
    = rmap (map (maps_ContractPart g)) (mapM (fun n => unwrap site (node_contract_part n)) ns).
  Proof. apply mapM_map_rmap. intros n. apply unwrap_cp_maps. Qed.
  Lemma mapM_unwrap_expr site ns :
    mapM (fun n => unwrap site (node_expression n)) (map mn ns)
    = rmap (map mE) (mapM (fun n => unwrap site (node_expression n)) ns).
  Proof. apply mapM_map_rmap. intros n. apply unwrap_expr_maps. Qed.

  Lemma each_expr_maps ns f : (forall e, f (mE e) = f e) -> each_expr (map mn ns) f = each_expr ns f.
  Proof.
    intros H. unfold each_expr. f_equal. apply mapM_map_ext. intros n. rewrite unwrap_expr_maps.
    destruct (unwrap _ (node_expression n)); cbn [rmap]; [rewrite H|]; reflexivity.
  Qed.
  Lemma each_stmt_maps ns f : (forall s, f (mS s) = f s) -> each_stmt (map mn ns) f = each_stmt ns f.
  Proof.
    intros H. unfold each_stmt. f_equal. apply mapM_map_ext. intros n. rewrite unwrap_stmt_maps.
    destruct (unwrap _ (node_statement n)); cbn [rmap bind]; [apply H|reflexivity].
  Qed.
  Lemma each_sup_maps ns f :
    (forall p, f (maps_SourceUnitPart g p) = f p) -> each_sup (map mn ns) f = each_sup ns f.
  Proof.
    intros H. unfold each_sup. f_equal. apply mapM_map_ext. intros n. rewrite unwrap_sup_maps.
    destruct (unwrap _ (node_source_unit_part n)); cbn [rmap bind]; [apply H|reflexivity].
  Qed.

  (* unfolding maps_* on a constructor: by the equations above (cbn would expose the raw mutual fix) *)
  Ltac scbn := autorewrite with maps_eqs; cbn [map maps_StringLiteral].

  Ltac deep :=
    repeat (scbn;
            match goal with
            | |- context [match maps_Expression g ?c with _ => _ end] => destruct c; try reflexivity
            | |- context [match maps_Ty g ?t with _ => _ end] => destruct t; try reflexivity
            | |- context [match map _ ?l with _ => _ end] => destruct l; try reflexivity
            | |- context [match (match ?o with Some _ => _ | None => _ end) with _ => _ end] =>
                destruct o; try reflexivity
            end);
    scbn; try reflexivity.

  Ltac pred := let e := fresh "e" in intros e; destruct e; try reflexivity; deep.

  (* ---- accessors *)
  Lemma FD_ty_maps f : FunctionDefinition_ty (maps_FunctionDefinition g f) = FunctionDefinition_ty f.
  Proof. destruct f; reflexivity. Qed.
  Lemma FD_loc_maps f : FunctionDefinition_loc (maps_FunctionDefinition g f) = FunctionDefinition_loc f.
  Proof. destruct f; reflexivity. Qed.
  Lemma FD_name_maps f : FunctionDefinition_name (maps_FunctionDefinition g f) = FunctionDefinition_name f.
  Proof. destruct f; reflexivity. Qed.
  Lemma FD_body_maps f :
    FunctionDefinition_body (maps_FunctionDefinition g f) = option_map mS (FunctionDefinition_body f).
  Proof. destruct f as [? ? ? ? ? ? ? ? b]; destruct b; reflexivity. Qed.
  Lemma FD_attributes_maps f :
    FunctionDefinition_attributes (maps_FunctionDefinition g f)
    = map (maps_FunctionAttribute g) (FunctionDefinition_attributes f).
  Proof. destruct f; reflexivity. Qed.
  Lemma is_constructor_maps f : is_constructor (maps_FunctionDefinition g f) = is_constructor f.
  Proof. unfold is_constructor. rewrite FD_ty_maps. reflexivity. Qed.

  Lemma VD_loc_maps v : VariableDefinition_loc (maps_VariableDefinition g v) = VariableDefinition_loc v.
  Proof. destruct v; reflexivity. Qed.
  Lemma VD_attrs_maps v : VariableDefinition_attrs (maps_VariableDefinition g v) = VariableDefinition_attrs v.
  Proof. destruct v; reflexivity. Qed.
  Lemma VD_name_maps v : VariableDefinition_name (maps_VariableDefinition g v) = VariableDefinition_name v.
  Proof. destruct v; reflexivity. Qed.
  Lemma VD_ty_maps v : VariableDefinition_ty (maps_VariableDefinition g v) = mE (VariableDefinition_ty v).
  Proof. destruct v; reflexivity. Qed.

  (* ---- local predicates of the detectors *)
  Lemma check_for_address_zero_maps : forall e, check_for_address_zero (mE e) = check_for_address_zero e.
  Proof. unfold check_for_address_zero. pred. Qed.
  Lemma is_bool_literal_maps : forall e, is_bool_literal (mE e) = is_bool_literal e.
  Proof. intros e; destruct e; reflexivity. Qed.
  Lemma is_and_maps : forall e, is_and (mE e) = is_and e.
  Proof. intros e; destruct e; reflexivity. Qed.
  Lemma pow2_literal_maps : forall e, pow2_literal (mE e) = pow2_literal e.
  Proof. intros e; destruct e; reflexivity. Qed.
  Lemma is_Variable_named_maps : forall e, is_Variable_named (mE e) = is_Variable_named e.
  Proof. intros e; destruct e; reflexivity. Qed.
  Lemma written_name_maps : forall e, written_name (mE e) = written_name e.
  Proof. unfold written_name. intros e; destruct e; try reflexivity; scbn; apply is_Variable_named_maps. Qed.
  Lemma assigned_param_maps : forall e, assigned_param (mE e) = assigned_param e.
  Proof. unfold assigned_param. pred. Qed.
  (* immutable_variables looks at the KIND of the right-hand side only *)
  Lemma is_a_non_value_type_maps : forall e, is_a_non_value_type (mE e) = is_a_non_value_type e.
  Proof. unfold is_a_non_value_type. pred. Qed.
  Lemma is_selfdestruct_maps : forall e, is_selfdestruct (mE e) = is_selfdestruct e.
  Proof. intros e; destruct e; reflexivity. Qed.
  Lemma is_type_conversion_callee_maps : forall e, is_type_conversion_callee (mE e) = is_type_conversion_callee e.
  Proof. intros e; destruct e; reflexivity. Qed.
  Lemma is_msg_sender_maps : forall e, is_msg_sender (mE e) = is_msg_sender e.
  Proof. unfold is_msg_sender. pred. Qed.
  Lemma incdec_loc_maps b : forall e, incdec_loc b (mE e) = incdec_loc b e.
  Proof. intros e; destruct e; reflexivity. Qed.
  Lemma get_type_size_maps : forall e, get_type_size (mE e) = get_type_size e.
  Proof. unfold get_type_size. pred. Qed.

  Lemma mul_chain_has_div_maps : forall e, mul_chain_has_div (mE e) = mul_chain_has_div e.
  Proof. induction e; try reflexivity; scbn; cbn [mul_chain_has_div]; assumption. Qed.
  Lemma arith_chain_has_mul_maps : forall e, arith_chain_has_mul (mE e) = arith_chain_has_mul e.
  Proof. induction e; try reflexivity; scbn; cbn [arith_chain_has_mul]; assumption. Qed.

  Lemma sender_check_arg_maps : forall e, sender_check_arg (mE e) = sender_check_arg e.
  Proof.
    intros e. destruct e; try reflexivity.
    - unfold sender_check_arg at 2. rewrite <- (is_msg_sender_maps (Expression_MemberAccess _ _ _)).
      scbn. reflexivity.
    - scbn. unfold sender_check_arg. rewrite !is_msg_sender_maps. reflexivity.
    - scbn. unfold sender_check_arg. rewrite !is_msg_sender_maps. reflexivity.
  Qed.
  Lemma sender_check_call_maps : forall e, sender_check_call (mE e) = sender_check_call e.
  Proof.
    intros e. destruct e; try reflexivity. scbn. unfold sender_check_call.
    rewrite is_selfdestruct_maps, is_type_conversion_callee_maps.
    rewrite (existsb_map_ext _ sender_check_arg mE); [reflexivity|apply sender_check_arg_maps].
  Qed.

  Lemma arith10_maps e :
    arith10 (mE e) = option_map (fun p => (mE (fst p), mE (snd p))) (arith10 e).
  Proof. destruct e; reflexivity. Qed.
  Lemma subscript_of_maps a b : forall e, subscript_of a b (mE e) = subscript_of a b e.
  Proof. unfold subscript_of. pred. Qed.
  Lemma assign_update_match_maps : forall e, assign_update_match (mE e) = assign_update_match e.
  Proof.
    intros e. destruct e; try reflexivity. unfold assign_update_match.
    repeat (scbn;
            match goal with
            | |- context [match maps_Expression g ?c with _ => _ end] => is_var c; destruct c; try reflexivity
            | |- context [match (match ?o with Some _ => _ | None => _ end) with _ => _ end] =>
                is_var o; destruct o; try reflexivity
            end).
    scbn. rewrite arith10_maps. destruct (arith10 _) as [[x y]|]; [|reflexivity]. cbn [option_map fst snd].
    rewrite ?subscript_of_maps. destruct x; try reflexivity. scbn.
    match goal with |- context [match maps_Expression g ?c with _ => _ end] => destruct c; reflexivity end.
  Qed.

  (* ---- shared sub-computations *)
  Lemma contract_nodes_maps su : contract_nodes (maps_SourceUnit g su) = map mn (contract_nodes su).
  Proof. unfold contract_nodes. rewrite root_maps. apply extract1_maps. Qed.

  Lemma add_var_maps ic ii m v : add_var ic ii m (maps_VariableDefinition g v) = add_var ic ii m v.
  Proof.
    destruct v as [l ty attrs nm oi]. unfold add_var, maps_VariableDefinition.
    destruct (var_skipped ic ii attrs); [reflexivity|]. destruct ty; try reflexivity. scbn.
    match goal with |- context [match maps_Ty g ?t with _ => _ end] => destruct t; reflexivity end.
  Qed.

  Lemma add_part_vars_maps ic ii m p : add_part_vars ic ii m (maps_ContractPart g p) = add_part_vars ic ii m p.
  Proof. destruct p; try reflexivity. cbn [maps_ContractPart add_part_vars]. apply add_var_maps. Qed.

  Lemma add_contract_vars_maps ic ii m p :
    add_contract_vars ic ii m (maps_SourceUnitPart g p) = add_contract_vars ic ii m p.
  Proof.
    destruct p as [c| | | | | | | | | | |]; try reflexivity. destruct c as [l ty nm bases parts].
    cbn [maps_SourceUnitPart maps_ContractDefinition add_contract_vars ContractDefinition_parts].
    apply fold_left_map_ext. intros s x. apply add_part_vars_maps.
  Qed.

  Lemma sv_maps su ic ii :
    get_32_byte_storage_variables (maps_SourceUnit g su) ic ii = get_32_byte_storage_variables su ic ii.
  Proof.
    unfold get_32_byte_storage_variables. rewrite contract_nodes_maps, mapM_unwrap_sup, bind_rmap.
    apply bind_ext. intros parts. f_equal. apply fold_left_map_ext. intros s x. apply add_contract_vars_maps.
  Qed.

  Lemma remove_written_maps {V} ns (m : smap V) : remove_written (map mn ns) m = remove_written ns m.
  Proof.
    unfold remove_written. apply foldM_map_ext. intros s n. rewrite unwrap_expr_maps.
    destruct (unwrap _ (node_expression n)) as [e|]; cbn [rmap bind]; [|reflexivity].
    rewrite written_name_maps. reflexivity.
  Qed.

  Lemma first_solidity_pragma_maps parts :
    first_solidity_pragma (map (maps_SourceUnitPart g) parts) = first_solidity_pragma parts.
  Proof.
    induction parts as [|p parts IH]; [reflexivity|].
    destruct p; cbn [map maps_SourceUnitPart first_solidity_pragma]; try exact IH. rewrite IH. reflexivity.
  Qed.

  (* the pragma value is not a string-literal expression: the version is untouched *)
  Lemma version_maps su :
    get_solidity_version_from_source_unit (maps_SourceUnit g su) = get_solidity_version_from_source_unit su.
  Proof.
    unfold get_solidity_version_from_source_unit. rewrite root_maps, extract1_maps, mapM_unwrap_sup, bind_rmap.
    apply bind_ext. intros parts. rewrite first_solidity_pragma_maps. reflexivity.
  Qed.

  Lemma cfp_maps su :
    contract_function_parts (maps_SourceUnit g su) = rmap (map (maps_ContractPart g)) (contract_function_parts su).
  Proof.
    unfold contract_function_parts. rewrite contract_nodes_maps.
    rewrite (mapM_map_rmap _ (fun c => mapM (fun n => unwrap "node.contract_part().unwrap()" (node_contract_part n))
                                             (extract_target_from_node Target_FunctionDefinition c))
                           mn (map (maps_ContractPart g))).
    - destruct (mapM _ (contract_nodes su)) as [ls|s]; cbn [rmap bind]; [|reflexivity].
      rewrite concat_map. reflexivity.
    - intros c. rewrite extract1_maps. apply mapM_unwrap_cp.
  Qed.

  Lemma cvd_maps su :
    contract_variable_definitions (maps_SourceUnit g su)
    = rmap (map (maps_VariableDefinition g)) (contract_variable_definitions su).
  Proof.
    unfold contract_variable_definitions. rewrite contract_nodes_maps, mapM_unwrap_sup.
    destruct (mapM _ (contract_nodes su)) as [parts|s]; cbn [rmap bind]; [|reflexivity]. f_equal.
    apply flat_map_map_map. intros p. destruct p as [c| | | | | | | | | | |]; try reflexivity.
    destruct c as [l ty nm bases cps].
    cbn [maps_SourceUnitPart maps_ContractDefinition ContractDefinition_parts].
    apply flat_map_map_map. intros q. destruct q; reflexivity.
  Qed.

  Ltac same_bind := match goal with |- bind ?a ?F = bind ?b ?F => replace a with b; [reflexivity|symmetry] end.
  Ltac dmatch := match goal with |- context [match maps_Expression g ?c with _ => _ end] => destruct c; try reflexivity end.
  Ltac dif := match goal with |- context [if ?b then _ else _] => destruct b; try reflexivity end.

  (* ================================================================== the 30 detectors *)
  Theorem address_balance_blind su :
    address_balance_optimization (maps_SourceUnit g su) = address_balance_optimization su.
  Proof. unfold address_balance_optimization. rewrite root_maps, extract1_maps. apply each_expr_maps. pred. Qed.

  Theorem address_zero_blind su :
    address_zero_optimization (maps_SourceUnit g su) = address_zero_optimization su.
  Proof.
    unfold address_zero_optimization. rewrite root_maps, extractN_maps. apply each_expr_maps.
    intros e; destruct e; try reflexivity; scbn; rewrite !check_for_address_zero_maps; reflexivity.
  Qed.

  Theorem assign_update_array_blind su :
    assign_update_array_optimization (maps_SourceUnit g su) = assign_update_array_optimization su.
  Proof.
    unfold assign_update_array_optimization. rewrite root_maps, extract1_maps. apply each_expr_maps.
    intros e; destruct e; try reflexivity. cbv beta. rewrite assign_update_match_maps. reflexivity.
  Qed.

  Theorem bool_equals_bool_blind su :
    bool_equals_bool_optimization (maps_SourceUnit g su) = bool_equals_bool_optimization su.
  Proof.
    unfold bool_equals_bool_optimization. rewrite root_maps, extractN_maps. apply each_expr_maps.
    intros e; destruct e; try reflexivity; scbn; rewrite !is_bool_literal_maps; reflexivity.
  Qed.

  Lemma length_accesses_maps cond : length_accesses (mE cond) = length_accesses cond.
  Proof.
    unfold length_accesses. rewrite NE_maps, extract1_maps. apply each_expr_maps.
    intros e; destruct e; reflexivity.
  Qed.

  Theorem cache_array_length_blind su :
    cache_array_length_optimization (maps_SourceUnit g su) = cache_array_length_optimization su.
  Proof.
    unfold cache_array_length_optimization. rewrite root_maps, extract1_maps. apply each_stmt_maps.
    intros s; destruct s as [| | | | | | |l oi oc onx ob| | | | | | | |]; try reflexivity. scbn.
    destruct oc as [c|]; [|reflexivity]. cbv beta iota. apply length_accesses_maps.
  Qed.

  Theorem constant_variable_blind su :
    constant_variable_optimization (maps_SourceUnit g su) = constant_variable_optimization su.
  Proof.
    unfold constant_variable_optimization. rewrite sv_maps, root_maps, extractN_maps.
    apply bind_ext. intros sv. rewrite remove_written_maps. reflexivity.
  Qed.

  Lemma add_constructor_assignments_maps sv m n :
    add_constructor_assignments sv m (mn n) = add_constructor_assignments sv m n.
  Proof.
    unfold add_constructor_assignments. rewrite unwrap_expr_maps.
    destruct (unwrap _ (node_expression n)) as [e|]; cbn [rmap bind]; [|reflexivity]. f_equal.
    destruct e; try reflexivity. scbn. rewrite is_a_non_value_type_maps. dif. deep.
  Qed.

  Lemma gsvaic_maps su sv :
    get_storage_variables_assigned_in_constructor (maps_SourceUnit g su) sv
    = get_storage_variables_assigned_in_constructor su sv.
  Proof.
    unfold get_storage_variables_assigned_in_constructor. rewrite cfp_maps, bind_rmap. apply bind_ext. intros fns.
    apply foldM_map_ext. intros m cp. destruct cp; try reflexivity.
    rewrite NCP_maps. cbn [maps_ContractPart]. rewrite is_constructor_maps. dif.
    rewrite extract1_maps. apply foldM_map_ext. intros m' n. apply add_constructor_assignments_maps.
  Qed.

  Theorem immutable_variables_blind su :
    immutable_variables_optimization (maps_SourceUnit g su) = immutable_variables_optimization su.
  Proof.
    unfold immutable_variables_optimization. rewrite sv_maps. apply bind_ext. intros sv.
    rewrite gsvaic_maps. apply bind_ext. intros pot. rewrite cfp_maps, bind_rmap. apply bind_ext. intros fns.
    same_bind. apply foldM_map_ext. intros m cp. destruct cp; try reflexivity.
    rewrite NCP_maps. cbn [maps_ContractPart]. rewrite is_constructor_maps. dif.
    rewrite extractN_maps. apply remove_written_maps.
  Qed.

  Lemma extract_pre_maps n :
    extract_pre_increment_pre_decrement (mn n) = extract_pre_increment_pre_decrement n.
  Proof.
    unfold extract_pre_increment_pre_decrement. rewrite extractN_maps. apply each_expr_maps. apply incdec_loc_maps.
  Qed.
  Lemma extract_incdec_maps n : extract_increment_decrement (mn n) = extract_increment_decrement n.
  Proof.
    unfold extract_increment_decrement. rewrite extractN_maps. apply each_expr_maps. apply incdec_loc_maps.
  Qed.

  Theorem increment_decrement_blind su :
    increment_decrement_optimization (maps_SourceUnit g su) = increment_decrement_optimization su.
  Proof.
    unfold increment_decrement_optimization. rewrite root_maps, extract1_maps, extract_incdec_maps.
    rewrite each_stmt_maps; [reflexivity|].
    intros s; destruct s as [l u stmts| | | | | | | | | | | | | | |]; try reflexivity. scbn.
    destruct u; [|reflexivity]. f_equal. apply mapM_map_ext. intros st. rewrite NS_maps. apply extract_pre_maps.
  Qed.

  Lemma memory_args_maps f :
    get_function_definition_memory_args (maps_FunctionDefinition g f) = get_function_definition_memory_args f.
  Proof.
    destruct f as [l ty nm nl params attrs rnr rets body]. unfold get_function_definition_memory_args.
    cbn [maps_FunctionDefinition FunctionDefinition_params].
    apply fold_left_map_ext. intros m [l0 [p|]]; [|reflexivity]. destruct p as [pl pty st pn]. reflexivity.
  Qed.

  Lemma memory_to_calldata_fn_maps f :
    memory_to_calldata_fn (maps_FunctionDefinition g f) = memory_to_calldata_fn f.
  Proof.
    unfold memory_to_calldata_fn. rewrite is_constructor_maps, FD_body_maps, memory_args_maps.
    destruct (is_constructor f); [reflexivity|]. destruct (FunctionDefinition_body f) as [body|]; [|reflexivity].
    cbn [option_map]. rewrite NS_maps, extract1_maps. same_bind.
    apply foldM_map_ext. intros m n. rewrite unwrap_expr_maps.
    destruct (unwrap _ (node_expression n)) as [e|]; cbn [rmap bind]; [|reflexivity].
    rewrite assigned_param_maps. reflexivity.
  Qed.

  Theorem memory_to_calldata_blind su :
    memory_to_calldata_optimization (maps_SourceUnit g su) = memory_to_calldata_optimization su.
  Proof.
    unfold memory_to_calldata_optimization. rewrite root_maps, extract1_maps. f_equal. apply mapM_map_ext.
    intros n. destruct n as [s|e|su'|p|p]; try reflexivity; destruct p; try reflexivity;
      cbn [maps_node maps_SourceUnitPart maps_ContractPart]; apply memory_to_calldata_fn_maps.
  Qed.

  Theorem multiple_require_blind su :
    multiple_require_optimization (maps_SourceUnit g su) = multiple_require_optimization su.
  Proof.
    unfold multiple_require_optimization. rewrite root_maps, extract1_maps. apply each_expr_maps.
    intros e; destruct e; try reflexivity. scbn. dmatch. scbn. dif.
    apply flat_map_map_ext. intros a. rewrite is_and_maps. reflexivity.
  Qed.

  Theorem optimal_comparison_blind su :
    optimal_comparison_optimization (maps_SourceUnit g su) = optimal_comparison_optimization su.
  Proof.
    unfold optimal_comparison_optimization. rewrite root_maps, extractN_maps. apply each_expr_maps.
    intros e; destruct e; reflexivity.
  Qed.

  Lemma CD_loc_maps c : ContractDefinition_loc (maps_ContractDefinition g c) = ContractDefinition_loc c.
  Proof. destruct c; reflexivity. Qed.
  Lemma contract_variable_sizes_maps c :
    contract_variable_sizes (maps_ContractDefinition g c) = contract_variable_sizes c.
  Proof.
    destruct c as [l ty nm bases parts]. unfold contract_variable_sizes.
    cbn [maps_ContractDefinition ContractDefinition_parts].
    apply flat_map_map_ext. intros p. destruct p; try reflexivity. cbn [maps_ContractPart].
    rewrite VD_ty_maps, get_type_size_maps. reflexivity.
  Qed.
  Lemma pack_storage_node_maps n : pack_storage_node (mn n) = pack_storage_node n.
  Proof.
    destruct n as [s|e|su'|p|p]; try reflexivity. destruct p as [c| | | | | | | | | | |]; try reflexivity.
    cbn [maps_node maps_SourceUnitPart pack_storage_node].
    rewrite contract_variable_sizes_maps, CD_loc_maps. reflexivity.
  Qed.

  Theorem pack_storage_variables_blind su :
    pack_storage_variables_optimization (maps_SourceUnit g su) = pack_storage_variables_optimization su.
  Proof.
    unfold pack_storage_variables_optimization. rewrite NSU_maps, extract1_maps.
    rewrite (mapM_map_ext _ pack_storage_node mn); [reflexivity|apply pack_storage_node_maps].
  Qed.

  Lemma SD_loc_maps s : StructDefinition_loc (maps_StructDefinition g s) = StructDefinition_loc s.
  Proof. destruct s; reflexivity. Qed.
  Lemma struct_can_be_packed_maps s : struct_can_be_packed (maps_StructDefinition g s) = struct_can_be_packed s.
  Proof.
    unfold struct_can_be_packed, struct_variable_sizes. f_equal. destruct s as [l nm fields].
    cbn [maps_StructDefinition StructDefinition_fields]. rewrite map_map. apply map_ext.
    intros d. destruct d as [dl dty dst dnm]. scbn. cbn [VariableDeclaration_ty]. apply get_type_size_maps.
  Qed.
  Lemma pack_struct_node_maps n : pack_struct_node (mn n) = pack_struct_node n.
  Proof.
    destruct n as [s|e|su'|p|p]; try reflexivity; destruct p; try reflexivity;
      cbn [maps_node maps_SourceUnitPart maps_ContractPart pack_struct_node];
      rewrite struct_can_be_packed_maps, SD_loc_maps; reflexivity.
  Qed.

  Theorem pack_struct_variables_blind su :
    pack_struct_variables_optimization (maps_SourceUnit g su) = pack_struct_variables_optimization su.
  Proof.
    unfold pack_struct_variables_optimization. rewrite NSU_maps, extract1_maps.
    rewrite (mapM_map_ext _ pack_struct_node mn); [reflexivity|apply pack_struct_node_maps].
  Qed.

  Lemma attr_pe_maps a : attr_public_or_external (maps_FunctionAttribute g a) = attr_public_or_external a.
  Proof. destruct a; reflexivity. Qed.
  Lemma attr_payable_maps a : attr_payable (maps_FunctionAttribute g a) = attr_payable a.
  Proof. destruct a; reflexivity. Qed.
  Lemma is_public_or_external_maps f :
    is_public_or_external (maps_FunctionDefinition g f) = is_public_or_external f.
  Proof. unfold is_public_or_external. rewrite FD_attributes_maps. apply existsb_map_ext. apply attr_pe_maps. Qed.

  Theorem payable_function_blind su :
    payable_function_optimization (maps_SourceUnit g su) = payable_function_optimization su.
  Proof.
    unfold payable_function_optimization. rewrite cfp_maps, bind_rmap. apply bind_ext. intros fns. f_equal.
    apply flat_map_map_ext. intros cp. destruct cp; try reflexivity. cbn [maps_ContractPart].
    rewrite FD_body_maps, is_public_or_external_maps, FD_attributes_maps, FD_loc_maps.
    rewrite (existsb_map_ext _ attr_payable (maps_FunctionAttribute g)) by apply attr_payable_maps.
    destruct (FunctionDefinition_body _); reflexivity.
  Qed.

  Theorem private_constant_blind su :
    private_constant_optimization (maps_SourceUnit g su) = private_constant_optimization su.
  Proof.
    unfold private_constant_optimization. rewrite cvd_maps, bind_rmap. apply bind_ext. intros vs. f_equal.
    apply flat_map_map_ext. intros v. cbv zeta. rewrite VD_attrs_maps, VD_loc_maps. reflexivity.
  Qed.

  Lemma using_is_safemath_maps u : using_is_safemath (maps_Using g u) = using_is_safemath u.
  Proof. destruct u; reflexivity. Qed.
  Lemma check_if_using_safe_math_maps su :
    check_if_using_safe_math (maps_SourceUnit g su) = check_if_using_safe_math su.
  Proof.
    unfold check_if_using_safe_math. rewrite root_maps, extract1_maps. apply existsb_map_ext.
    intros n. destruct n as [s|e|su'|p|p]; try reflexivity; destruct p; try reflexivity;
      cbn [maps_node maps_SourceUnitPart maps_ContractPart]; apply using_is_safemath_maps.
  Qed.
  Lemma safe_math_sites_maps su :
    parse_contract_for_safe_math_functions (maps_SourceUnit g su) = parse_contract_for_safe_math_functions su.
  Proof.
    unfold parse_contract_for_safe_math_functions. rewrite root_maps, extract1_maps. apply each_expr_maps. pred.
  Qed.
  Lemma safe_math_maps su b : safe_math_optimization (maps_SourceUnit g su) b = safe_math_optimization su b.
  Proof.
    unfold safe_math_optimization.
    rewrite version_maps, check_if_using_safe_math_maps, safe_math_sites_maps. reflexivity.
  Qed.

  Theorem safe_math_pre_080_blind su :
    safe_math_pre_080_optimization (maps_SourceUnit g su) = safe_math_pre_080_optimization su.
  Proof. apply safe_math_maps. Qed.
  Theorem safe_math_post_080_blind su :
    safe_math_post_080_optimization (maps_SourceUnit g su) = safe_math_post_080_optimization su.
  Proof. apply safe_math_maps. Qed.

  Theorem shift_math_blind su : shift_math_optimization (maps_SourceUnit g su) = shift_math_optimization su.
  Proof.
    unfold shift_math_optimization. rewrite root_maps, extractN_maps. apply each_expr_maps.
    intros e; destruct e; try reflexivity; scbn; rewrite !pow2_literal_maps; reflexivity.
  Qed.

  (* the parts of the last argument of require(..): the same parts, rewritten *)
  Lemma require_last_string_maps e :
    require_last_string (mE e) = option_map (map (maps_StringLiteral g)) (require_last_string e).
  Proof.
    destruct e; try reflexivity. scbn. unfold require_last_string. dmatch. scbn. dif.
    rewrite last_map_some_map. destruct (last (map Some _) None) as [x|]; [|reflexivity].
    cbn [option_map]. destruct x; reflexivity.
  Qed.

  (* the ONLY place where the text of a string literal is inspected: its byte length *)
  Theorem short_revert_string_blind su :
    short_revert_string_optimization (maps_SourceUnit g su) = short_revert_string_optimization su.
  Proof.
    unfold short_revert_string_optimization. rewrite version_maps. apply bind_ext. intros [v|]; [|reflexivity].
    destruct (version_ge v v084); [reflexivity|]. rewrite root_maps, extract1_maps. apply each_expr_maps.
    intros e. rewrite require_last_string_maps. destruct (require_last_string e) as [[|lit parts]|]; try reflexivity.
    cbn [option_map map]. destruct lit as [l u s].
    cbn [maps_StringLiteral StringLiteral_string StringLiteral_loc]. unfold strlen. rewrite Hlen. reflexivity.
  Qed.

  Theorem solidity_keccak256_blind su :
    solidity_keccak256_optimization (maps_SourceUnit g su) = solidity_keccak256_optimization su.
  Proof. unfold solidity_keccak256_optimization. rewrite root_maps, extract1_maps. apply each_expr_maps. pred. Qed.

  Theorem solidity_math_blind su :
    solidity_math_optimization (maps_SourceUnit g su) = solidity_math_optimization su.
  Proof.
    unfold solidity_math_optimization. rewrite root_maps, extractN_maps. apply each_expr_maps.
    intros e; destruct e; reflexivity.
  Qed.

  Theorem sstore_blind su : sstore_optimization (maps_SourceUnit g su) = sstore_optimization su.
  Proof.
    unfold sstore_optimization. rewrite sv_maps. apply bind_ext. intros sv.
    rewrite root_maps, extract1_maps. apply each_expr_maps. pred.
  Qed.

  Theorem string_error_blind su : string_error_optimization (maps_SourceUnit g su) = string_error_optimization su.
  Proof.
    unfold string_error_optimization. rewrite version_maps. apply bind_ext. intros [v|]; [|reflexivity].
    destruct (version_ge v v084); [|reflexivity]. rewrite root_maps, extract1_maps. f_equal. apply mapM_map_ext.
    intros n. rewrite unwrap_expr_maps. destruct (unwrap _ (node_expression n)) as [e|]; cbn [rmap bind]; [|reflexivity].
    rewrite require_last_string_maps. destruct (require_last_string e) as [[|lit parts]|]; try reflexivity.
    destruct lit; reflexivity.
  Qed.

  Theorem divide_before_multiply_blind su :
    divide_before_multiply_vulnerability (maps_SourceUnit g su) = divide_before_multiply_vulnerability su.
  Proof.
    unfold divide_before_multiply_vulnerability. rewrite root_maps, extractN_maps. apply each_expr_maps.
    intros e; destruct e; try reflexivity; scbn;
      rewrite ?mul_chain_has_div_maps, ?arith_chain_has_mul_maps; reflexivity.
  Qed.

  Theorem floating_pragma_blind su :
    floating_pragma_vulnerability (maps_SourceUnit g su) = floating_pragma_vulnerability su.
  Proof.
    unfold floating_pragma_vulnerability. rewrite root_maps, extract1_maps. apply each_sup_maps.
    intros p; destruct p; reflexivity.
  Qed.

  Lemma selfdestruct_calls_maps body : selfdestruct_calls (mS body) = selfdestruct_calls body.
  Proof.
    unfold selfdestruct_calls. rewrite NS_maps, extract1_maps. apply each_expr_maps.
    intros e; destruct e; try reflexivity. scbn. rewrite is_selfdestruct_maps. reflexivity.
  Qed.
  Lemma Base_name_maps b : Base_name (maps_Base g b) = Base_name b.
  Proof. destruct b; reflexivity. Qed.
  Lemma contains_protection_modifiers_maps f :
    contains_protection_modifiers (maps_FunctionDefinition g f) = contains_protection_modifiers f.
  Proof.
    unfold contains_protection_modifiers. rewrite FD_attributes_maps. apply existsb_map_ext.
    intros a. destruct a; try reflexivity. scbn. rewrite Base_name_maps. reflexivity.
  Qed.
  Lemma contains_msg_sender_conditions_maps f :
    contains_msg_sender_conditions (maps_FunctionDefinition g f) = contains_msg_sender_conditions f.
  Proof.
    unfold contains_msg_sender_conditions. rewrite FD_body_maps.
    destruct (FunctionDefinition_body f) as [body|]; [|reflexivity]. cbn [option_map].
    rewrite NS_maps, extract1_maps, mapM_unwrap_expr, bind_rmap. apply bind_ext. intros es. f_equal.
    apply existsb_map_ext. apply sender_check_call_maps.
  Qed.
  Lemma unprotected_selfdestruct_fn_maps f :
    unprotected_selfdestruct_fn (maps_FunctionDefinition g f) = unprotected_selfdestruct_fn f.
  Proof.
    unfold unprotected_selfdestruct_fn.
    rewrite FD_body_maps, is_constructor_maps, is_public_or_external_maps, contains_protection_modifiers_maps,
      contains_msg_sender_conditions_maps.
    destruct (FunctionDefinition_body f) as [body|]; [|reflexivity]. cbn [option_map].
    rewrite selfdestruct_calls_maps. reflexivity.
  Qed.

  Theorem unprotected_selfdestruct_blind su :
    unprotected_selfdestruct_vulnerability (maps_SourceUnit g su) = unprotected_selfdestruct_vulnerability su.
  Proof.
    unfold unprotected_selfdestruct_vulnerability. rewrite cfp_maps, bind_rmap. apply bind_ext. intros fns. f_equal.
    apply mapM_map_ext. intros cp. destruct cp; try reflexivity. cbn [maps_ContractPart].
    apply unprotected_selfdestruct_fn_maps.
  Qed.

  Theorem unsafe_erc20_operation_blind su :
    unsafe_erc20_operation_vulnerability (maps_SourceUnit g su) = unsafe_erc20_operation_vulnerability su.
  Proof.
    unfold unsafe_erc20_operation_vulnerability. rewrite root_maps, extract1_maps. apply each_expr_maps.
    intros e; destruct e; reflexivity.
  Qed.

  Lemma constructor_order_scan_maps ns :
    forall seen, constructor_order_scan seen (map mn ns) = constructor_order_scan seen ns.
  Proof.
    induction ns as [|n ns IH]; intros seen; [reflexivity|]. cbn [map].
    destruct n as [s|e|su'|p|p]; cbn [maps_node constructor_order_scan]; try apply IH.
    destruct p; cbn [maps_ContractPart constructor_order_scan]; try apply IH.
    rewrite FD_ty_maps, FD_loc_maps. destruct (FunctionDefinition_ty _); rewrite ?IH; reflexivity.
  Qed.

  Theorem constructor_order_blind su : constructor_order_qa (maps_SourceUnit g su) = constructor_order_qa su.
  Proof.
    unfold constructor_order_qa. f_equal. rewrite contract_nodes_maps. apply flat_map_map_ext.
    intros c. rewrite extract1_maps. apply constructor_order_scan_maps.
  Qed.

  Theorem private_func_leading_underscore_blind su :
    private_func_leading_underscore (maps_SourceUnit g su) = private_func_leading_underscore su.
  Proof.
    unfold private_func_leading_underscore. f_equal. rewrite root_maps, extract1_maps. apply flat_map_map_ext.
    intros n. destruct n as [s|e|su'|p|p]; try reflexivity. destruct p; try reflexivity.
    cbn [maps_node maps_ContractPart]. rewrite FD_ty_maps, FD_name_maps, FD_attributes_maps.
    destruct (FunctionDefinition_ty _); try reflexivity.
    apply flat_map_map_ext. intros a. destruct a; reflexivity.
  Qed.

  Theorem private_vars_leading_underscore_blind su :
    private_vars_leading_underscore (maps_SourceUnit g su) = private_vars_leading_underscore su.
  Proof.
    unfold private_vars_leading_underscore. rewrite cvd_maps, bind_rmap. apply bind_ext. intros vs. f_equal.
    apply flat_map_map_ext. intros v. cbv zeta. rewrite VD_attrs_maps, VD_name_maps, VD_loc_maps. reflexivity.
  Qed.
End Blind.

(* ------------------------------------------------------------------------------------------ *)
Definition strlit_blind (d : SourceUnit -> res (list Loc)) : Prop :=
  forall (g : string -> string), (forall s, String.length (g s) = String.length s) ->
  forall su, d (maps_SourceUnit g su) = d su.

(* ... and without any condition on the rewriting *)
Definition strlit_blind_any (d : SourceUnit -> res (list Loc)) : Prop :=
  forall (g : string -> string) su, d (maps_SourceUnit g su) = d su.

Lemma strlit_blind_any_blind d : strlit_blind_any d -> strlit_blind d.
Proof. intros H g _ su. apply H. Qed.

(* all detectors except short_revert_string (index 18) *)
Definition detectors_not_measuring : list (SourceUnit -> res (list Loc)) :=
  firstn 18 all_detectors ++ skipn 19 all_detectors.

Theorem strlit_blind_any_29 : Forall strlit_blind_any detectors_not_measuring.
Proof.
  unfold detectors_not_measuring, all_detectors. cbn [firstn skipn app].
  repeat match goal with |- Forall _ (_ :: _) => constructor | |- Forall _ [] => constructor end; intros g su.
  - apply address_balance_blind.
  - apply address_zero_blind.
  - apply assign_update_array_blind.
  - apply bool_equals_bool_blind.
  - apply cache_array_length_blind.
  - apply constant_variable_blind.
  - apply immutable_variables_blind.
  - apply increment_decrement_blind.
  - apply memory_to_calldata_blind.
  - apply multiple_require_blind.
  - apply optimal_comparison_blind.
  - apply pack_storage_variables_blind.
  - apply pack_struct_variables_blind.
  - apply payable_function_blind.
  - apply private_constant_blind.
  - apply safe_math_pre_080_blind.
  - apply safe_math_post_080_blind.
  - apply shift_math_blind.
  - apply solidity_keccak256_blind.
  - apply solidity_math_blind.
  - apply sstore_blind.
  - apply string_error_blind.
  - apply divide_before_multiply_blind.
  - apply floating_pragma_blind.
  - apply unprotected_selfdestruct_blind.
  - apply unsafe_erc20_operation_blind.
  - apply constructor_order_blind.
  - apply private_func_leading_underscore_blind.
  - apply private_vars_leading_underscore_blind.
Qed.

Theorem strlit_blind_all : Forall strlit_blind all_detectors.
Proof.
  pose proof strlit_blind_any_29 as H. unfold detectors_not_measuring, all_detectors in H. cbn [firstn skipn app] in H.
  unfold all_detectors.
  repeat match goal with
         | H : Forall _ (_ :: _) |- _ =>
             let Hd := fresh "Hd" in let Ht := fresh "Ht" in
             inversion H as [|? ? Hd Ht]; subst; clear H; rename Ht into H
         end.
  repeat match goal with |- Forall _ (_ :: _) => constructor | |- Forall _ [] => constructor end;
    try (apply strlit_blind_any_blind; assumption).
  intros g Hg su. apply short_revert_string_blind. exact Hg.
Qed.

(* the length hypothesis is needed: erasing the text of a long revert string changes the result
   of short_revert_string *)
Definition long_revert_tree : SourceUnit :=
  Mk_SourceUnit
    [ SourceUnitPart_PragmaDirective (Loc_File 0 0 22) (Mk_Identifier (Loc_File 0 7 15) "solidity")
                                     (Mk_StringLiteral (Loc_File 0 16 21) false "0.8.0");
      SourceUnitPart_VariableDefinition
        (Mk_VariableDefinition (Loc_File 0 23 80) (Expression_Type (Loc_File 0 23 27) Ty_Bool) []
           (Mk_Identifier (Loc_File 0 28 29) "b")
           (Some (Expression_FunctionCall (Loc_File 0 32 80) (Expression_Variable (Mk_Identifier (Loc_File 0 32 39) "require"))
                    [Expression_BoolLiteral (Loc_File 0 40 44) true;
                     Expression_StringLiteral
                       [Mk_StringLiteral (Loc_File 0 46 79) false "0123456789abcdef0123456789abcdef"]]))) ].

Example short_revert_measures_length :
  short_revert_string_optimization long_revert_tree = Ok [Loc_File 0 46 79] /\
  short_revert_string_optimization (maps_SourceUnit (fun _ => EmptyString) long_revert_tree) = Ok [].
Proof. split; vm_compute; reflexivity. Qed.
