
From Coq Require Import List String Ascii NArith ZArith Bool.
Import ListNotations.
From Solstat Require Import Lift Pt Walk WalkProof.

Section MapStr.
  Variable g : string -> string.

  Definition maps_node (n : node) : node :=
    match n with
    | N_Statement s => N_Statement (maps_Statement g s)
    | N_Expression e => N_Expression (maps_Expression g e)
    | N_SourceUnit su => N_SourceUnit (maps_SourceUnit g su)
    | N_SourceUnitPart p => N_SourceUnitPart (maps_SourceUnitPart g p)
    | N_ContractPart p => N_ContractPart (maps_ContractPart g p)
    end.

  Lemma flat_map_maps_Forall {A B C} (f : A -> list C) (f' : B -> list C) (k : B -> A) (h : C -> C) (l : list B) :
    Forall (fun x => f (k x) = map h (f' x)) l -> flat_map f (map k l) = map h (flat_map f' l).
  Proof.
    induction 1 as [|x l Hx Hl IH]; [reflexivity|]. cbn [map flat_map]. rewrite map_app, Hx, IH. reflexivity.
  Qed.

  Ltac unf_m :=
    cbn [maps_Expression maps_Ty maps_Param maps_NamedArgument maps_FunctionAttribute maps_Base
         maps_VariableDeclaration maps_Statement maps_CatchClause
         pre_Expression pre_Ty pre_Param pre_NamedArgument pre_FunctionAttribute pre_Base
         pre_VariableDeclaration pre_Statement pre_CatchClause].

  Ltac m_leaf :=
    lazymatch goal with
    | |- _ :: _ = map _ (_ :: _) => cbn [map]; f_equal; m_leaf
    | |- _ ++ _ = map _ (_ ++ _) => rewrite map_app; apply app_eq2; m_leaf
    | |- [] = map _ [] => reflexivity
    | |- flat_map _ (map _ ?l) = map _ (flat_map _ ?l) =>
        match goal with
        | H : Forall _ l |- _ =>
            apply flat_map_maps_Forall; eapply Forall_impl; [| exact H];
            let x := fresh "x" in let Hx := fresh "Hx" in
            intros x Hx; cbv beta in Hx |- *; prep; m_leaf
        end
    | |- _ => match goal with H : ?g |- ?g => exact H | |- ?a = ?a => reflexivity end
    end.

  Ltac m_arm := intros; unf_m; prep; m_leaf.

  Theorem pre_maps_mut :
    (forall x, pre_Ty (maps_Ty g x) = map maps_node (pre_Ty x)) /\
    (forall x, pre_VariableDeclaration (maps_VariableDeclaration g x) = map maps_node (pre_VariableDeclaration x)) /\
    (forall x, pre_Base (maps_Base g x) = map maps_node (pre_Base x)) /\
    (forall x, pre_NamedArgument (maps_NamedArgument g x) = map maps_node (pre_NamedArgument x)) /\
    (forall x, pre_Expression (maps_Expression g x) = map maps_node (pre_Expression x)) /\
    (forall x, pre_Param (maps_Param g x) = map maps_node (pre_Param x)) /\
    (forall x, pre_FunctionAttribute (maps_FunctionAttribute g x) = map maps_node (pre_FunctionAttribute x)) /\
    (forall x, pre_Statement (maps_Statement g x) = map maps_node (pre_Statement x)) /\
    (forall x, pre_CatchClause (maps_CatchClause g x) = map maps_node (pre_CatchClause x)).
  Proof. apply Pt_mutind; m_arm. Qed.

  Definition pre_maps_Ty := proj1 pre_maps_mut.
  Definition pre_maps_VariableDeclaration := proj1 (proj2 pre_maps_mut).
  Definition pre_maps_Base := proj1 (proj2 (proj2 pre_maps_mut)).
  Definition pre_maps_NamedArgument := proj1 (proj2 (proj2 (proj2 pre_maps_mut))).
  Definition pre_maps_Expression := proj1 (proj2 (proj2 (proj2 (proj2 pre_maps_mut)))).
  Definition pre_maps_Param := proj1 (proj2 (proj2 (proj2 (proj2 (proj2 pre_maps_mut))))).
  Definition pre_maps_FunctionAttribute := proj1 (proj2 (proj2 (proj2 (proj2 (proj2 (proj2 pre_maps_mut)))))).
  Definition pre_maps_Statement := proj1 (proj2 (proj2 (proj2 (proj2 (proj2 (proj2 (proj2 pre_maps_mut))))))).
  Definition pre_maps_CatchClause := proj2 (proj2 (proj2 (proj2 (proj2 (proj2 (proj2 (proj2 pre_maps_mut))))))).

  Lemma flat_map_maps_all {A B} (f : A -> list node) (f' : B -> list node) (k : B -> A) (l : list B) :
    (forall x, f (k x) = map maps_node (f' x)) -> flat_map f (map k l) = map maps_node (flat_map f' l).
  Proof. intros H. apply flat_map_maps_Forall. apply Forall_forall. intros x _. apply H. Qed.

  Lemma pre_maps_params ps :
    flat_map (fun p : Loc * option Param => match p with (_, op) => match op with Some q => pre_Param q | None => [] end end)
             (map (fun p : Loc * option Param => match p with (l, op) => (l, match op with Some q => Some (maps_Param g q) | None => None end) end) ps)
    = map maps_node (flat_map (fun p : Loc * option Param => match p with (_, op) => match op with Some q => pre_Param q | None => [] end end) ps).
  Proof. apply flat_map_maps_all. intros [l [q|]]; [apply pre_maps_Param|reflexivity]. Qed.

  Lemma pre_maps_FunctionDefinition f :
    pre_FunctionDefinition (maps_FunctionDefinition g f) = map maps_node (pre_FunctionDefinition f).
  Proof.
    destruct f as [l ty nm nl params attrs rnr rets body]. unfold maps_FunctionDefinition, pre_FunctionDefinition.
    rewrite !map_app. repeat apply app_eq2.
    - apply pre_maps_params.
    - apply flat_map_maps_all. apply pre_maps_FunctionAttribute.
    - apply pre_maps_params.
    - destruct body; [apply pre_maps_Statement|reflexivity].
  Qed.

  Lemma pre_maps_VariableDefinition v :
    pre_VariableDefinition (maps_VariableDefinition g v) = map maps_node (pre_VariableDefinition v).
  Proof.
    destruct v as [l ty attrs nm oi]. unfold maps_VariableDefinition, pre_VariableDefinition.
    rewrite map_app. apply app_eq2; [apply pre_maps_Expression|]. destruct oi; [apply pre_maps_Expression|reflexivity].
  Qed.

  Lemma pre_maps_StructDefinition d :
    pre_StructDefinition (maps_StructDefinition g d) = map maps_node (pre_StructDefinition d).
  Proof. destruct d. unfold maps_StructDefinition, pre_StructDefinition. apply flat_map_maps_all. apply pre_maps_VariableDeclaration. Qed.

  Lemma pre_maps_EventDefinition d :
    pre_EventDefinition (maps_EventDefinition g d) = map maps_node (pre_EventDefinition d).
  Proof.
    destruct d. unfold maps_EventDefinition, pre_EventDefinition. apply flat_map_maps_all.
    intros [ty l i n]. unfold maps_EventParameter, pre_EventParameter. apply pre_maps_Expression.
  Qed.

  Lemma pre_maps_ErrorDefinition d :
    pre_ErrorDefinition (maps_ErrorDefinition g d) = map maps_node (pre_ErrorDefinition d).
  Proof.
    destruct d. unfold maps_ErrorDefinition, pre_ErrorDefinition. apply flat_map_maps_all.
    intros [ty l n]. unfold maps_ErrorParameter, pre_ErrorParameter. apply pre_maps_Expression.
  Qed.

  Lemma pre_maps_TypeDefinition d :
    pre_TypeDefinition (maps_TypeDefinition g d) = map maps_node (pre_TypeDefinition d).
  Proof. destruct d. apply pre_maps_Expression. Qed.

  Lemma pre_maps_Using d : pre_Using (maps_Using g d) = map maps_node (pre_Using d).
  Proof. destruct d as [l li oty gl]. unfold maps_Using, pre_Using. destruct oty; [apply pre_maps_Expression|reflexivity]. Qed.

  Lemma pre_maps_ContractPart p : pre_ContractPart (maps_ContractPart g p) = map maps_node (pre_ContractPart p).
  Proof.
    destruct p; unfold maps_ContractPart, pre_ContractPart; cbn [map maps_node maps_ContractPart]; f_equal; first
      [ apply pre_maps_StructDefinition | apply pre_maps_EventDefinition | apply pre_maps_ErrorDefinition
      | apply pre_maps_VariableDefinition | apply pre_maps_FunctionDefinition | apply pre_maps_TypeDefinition
      | apply pre_maps_Using | reflexivity ].
  Qed.

  Lemma pre_maps_ContractDefinition c :
    pre_ContractDefinition (maps_ContractDefinition g c) = map maps_node (pre_ContractDefinition c).
  Proof.
    destruct c as [l ty nm bases parts]. unfold maps_ContractDefinition, pre_ContractDefinition.
    rewrite map_app. apply app_eq2; apply flat_map_maps_all; [apply pre_maps_Base|apply pre_maps_ContractPart].
  Qed.

  Lemma pre_maps_SourceUnitPart p :
    pre_SourceUnitPart (maps_SourceUnitPart g p) = map maps_node (pre_SourceUnitPart p).
  Proof.
    destruct p; unfold maps_SourceUnitPart, pre_SourceUnitPart; cbn [map maps_node maps_SourceUnitPart]; f_equal; first
      [ apply pre_maps_ContractDefinition
      | apply pre_maps_StructDefinition | apply pre_maps_EventDefinition | apply pre_maps_ErrorDefinition
      | apply pre_maps_VariableDefinition | apply pre_maps_FunctionDefinition | apply pre_maps_TypeDefinition
      | apply pre_maps_Using | reflexivity ].
  Qed.

  Lemma pre_maps_SourceUnit su : pre_SourceUnit (maps_SourceUnit g su) = map maps_node (pre_SourceUnit su).
  Proof.
    destruct su as [parts]. unfold maps_SourceUnit, pre_SourceUnit. cbn [map maps_node maps_SourceUnit]. f_equal.
    apply flat_map_maps_all. apply pre_maps_SourceUnitPart.
  Qed.

  (* the complete pre-order of the renamed tree is the renamed pre-order *)
  Theorem pre_maps : forall n, pre (maps_node n) = map maps_node (pre n).
  Proof.
    destruct n; unfold pre, maps_node;
      [ apply pre_maps_Statement | apply pre_maps_Expression | apply pre_maps_SourceUnit
      | apply pre_maps_SourceUnitPart | apply pre_maps_ContractPart ].
  Qed.

  (* kinds do not depend on locations *)
  Lemma kind_of_maps n : kind_of (maps_node n) = kind_of n.
  Proof. destruct n as [s|e|su|p|p]; [destruct s|destruct e|idtac|destruct p|destruct p]; reflexivity. Qed.

  (* the walker is equivariant *)
  Theorem walk_maps T n : walk T (maps_node n) = map maps_node (walk T n).
  Proof.
    rewrite !walk_exact_lemma, pre_maps. induction (pre n) as [|m ms IH]; [reflexivity|].
    cbn [map filter]. rewrite IH. unfold sel. rewrite kind_of_maps. destruct (T (kind_of m)); reflexivity.
  Qed.


End MapStr.
