(* C05, continued: detectors whose canonical and matching forms differ, and the two
   context-dependent ones (cache_array_length, increment_decrement). *)
From Coq Require Import List String Ascii NArith ZArith Bool Lia.
Import ListNotations.
From Solstat Require Import Lift Pt Walk Res Nodes Utils Detectors WalkProof Patterns DetBase DetC05.
Local Open Scope string_scope.

Ltac break_match_hyp H :=
  repeat (cbn in H;
          match type of H with
          | context [match ?x with _ => _ end] => destruct x; try discriminate H
          end).

(* ---------------------------------------------------------------- address_zero *)
Lemma if_incl (x y : bool) (l : Loc) :
  (x = true -> y = true) -> incl (if x then [l] else []) (if y then [l] else []).
Proof. intros H. destruct x; [rewrite (H eq_refl); apply incl_refl|intros z []]. Qed.

Lemma or_mono (p q : Expression -> bool) a b :
  (forall e, p e = true -> q e = true) -> p a || p b = true -> q a || q b = true.
Proof.
  intros H Hab. apply orb_true_iff in Hab. apply orb_true_iff.
  destruct Hab as [Ha|Hb]; [left|right]; apply H; assumption.
Qed.

Lemma eqne_where_mono (p q : Expression -> bool) su :
  (forall e, p e = true -> q e = true) -> incl (eqne_where p su) (eqne_where q su).
Proof.
  intros H. unfold eqne_where. apply flat_map_incl. intros e.
  destruct (eq_ne e) as [[[l a] b]|]; [|apply incl_refl].
  apply if_incl. apply or_mono. exact H.
Qed.

Theorem address_zero_closed su :
  address_zero_optimization su = Ok (eqne_where check_for_address_zero su).
Proof.
  unfold address_zero_optimization, eqne_where, all_exprs, all_nodes, root.
  rewrite each_expr_extract; [|reflexivity|kind_irrelevant].
  f_equal. apply flat_map_ext. intros e. destruct e; reflexivity.
Qed.

Lemma address_zero_canon_check e : sp_address_zero_canon e = true -> check_for_address_zero e = true.
Proof.
  intros H. unfold sp_address_zero_canon in H. break_match_hyp H.
  cbn. apply andb_prop in H. exact (proj1 H).
Qed.

Lemma denotes_zero_0 v : String.eqb v "0" = true -> denotes_zero v = true.
Proof. intros H. apply String.eqb_eq in H. subst v. reflexivity. Qed.

Lemma address_zero_check_match e : check_for_address_zero e = true -> sp_address_zero_match e = true.
Proof.
  intros H. unfold check_for_address_zero in H. break_match_hyp H.
  cbn. apply denotes_zero_0. exact H.
Qed.

Theorem address_zero_between su :
  exists ls, address_zero_optimization su = Ok ls /\
             incl (canon_address_zero su) ls /\ incl ls (match_address_zero su).
Proof.
  eexists. split; [apply address_zero_closed|]. split; apply eqne_where_mono.
  - apply address_zero_canon_check.
  - apply address_zero_check_match.
Qed.

(* ---------------------------------------------------------------- assign_update_array_value *)
Lemma assign_locs_mono (p q : Expression -> bool) su :
  (forall e, p e = true -> q e = true) -> incl (assign_locs p su) (assign_locs q su).
Proof.
  intros H. unfold assign_locs. apply flat_map_incl. intros e. destruct e; try apply incl_refl.
  apply if_incl. apply H.
Qed.

Theorem assign_update_closed su :
  assign_update_array_optimization su = Ok (assign_locs assign_update_match su).
Proof.
  unfold assign_update_array_optimization, assign_locs, all_exprs, all_nodes, root.
  rewrite each_expr_extract1; [|reflexivity|kind_irrelevant].
  reflexivity.
Qed.

Lemma arith10_sp e : arith10 e = sp_arith10 e.
Proof. destruct e; reflexivity. Qed.

Lemma subscript_of_sp x k e :
  subscript_of x k e = same_sub (Some (x, k)) (sp_lit_subscript e).
Proof.
  unfold subscript_of, sp_lit_subscript, same_sub, name_of, idname.
  destruct e; try reflexivity.
  repeat match goal with |- context [match ?y with _ => _ end] => is_var y; destruct y; try reflexivity end.
  rewrite (String.eqb_sym x), (String.eqb_sym k). reflexivity.
Qed.

Lemma sp_lit_subscript_inv e x k :
  sp_lit_subscript e = Some (x, k) ->
  exists l id l3 ex, e = Expression_ArraySubscript l (Expression_Variable id)
                                                   (Some (Expression_NumberLiteral l3 k ex)) /\ idname id = x.
Proof.
  intros H. unfold sp_lit_subscript in H. break_match_hyp H.
  inversion H; subst. do 4 eexists. split; reflexivity.
Qed.

Lemma same_sub_inv a b : same_sub a b = true -> exists x k y j, a = Some (x, k) /\ b = Some (y, j).
Proof.
  intros H. destruct a as [[x k]|]; [|discriminate H]. destruct b as [[y j]|]; [|discriminate H].
  do 4 eexists. split; reflexivity.
Qed.

Lemma aua_canon_model e : sp_aua_canon e = true -> assign_update_match e = true.
Proof.
  intros H. unfold sp_aua_canon in H. destruct e; try discriminate H.
  match goal with H : context [sp_lit_subscript ?lhs0] |- assign_update_match (Expression_Assign _ ?lhs0 ?rhs0) = true =>
    set (lhs := lhs0) in *; set (rhs := rhs0) in * end.
  destruct (sp_arith10 rhs) as [[l r]|] eqn:Ea; [|discriminate H].
  destruct (same_sub_inv _ _ H) as [x [k [y [j [Hl Hr]]]]].
  destruct (sp_lit_subscript_inv _ _ _ Hl) as [l1 [id1 [l3 [ex1 [E1 N1]]]]].
  destruct (sp_lit_subscript_inv _ _ _ Hr) as [l2 [id2 [l4 [ex2 [E2 N2]]]]].
  unfold assign_update_match. rewrite E1. fold rhs. rewrite arith10_sp, Ea. rewrite E2.
  rewrite subscript_of_sp. rewrite <- E2, Hr. unfold name_of. fold (idname id1). rewrite N1.
  rewrite Hl in H. rewrite Hr in H. exact H.
Qed.

Lemma aua_model_match e : assign_update_match e = true -> sp_aua_match e = true.
Proof.
  intros H. unfold assign_update_match in H. destruct e; try discriminate H.
  match goal with |- sp_aua_match (Expression_Assign _ ?lhs0 ?rhs0) = true =>
    set (lhs := lhs0) in *; set (rhs := rhs0) in * end.
  destruct lhs eqn:Elhs; try discriminate H.
  match goal with H : context [match ?b with _ => _ end] |- _ => destruct b eqn:Eb; try discriminate H end.
  match goal with H : context [match ?o with _ => _ end] |- _ => destruct o as [idx|] eqn:Eo; try discriminate H end.
  destruct idx eqn:Eidx; try discriminate H.
  unfold sp_aua_match. rewrite <- arith10_sp. destruct (arith10 rhs) as [[l r]|]; [|discriminate H].
  match goal with |- context [sp_lit_subscript (Expression_ArraySubscript ?a (Expression_Variable ?i) (Some (Expression_NumberLiteral ?b ?n ?c)))] =>
    change (sp_lit_subscript (Expression_ArraySubscript a (Expression_Variable i) (Some (Expression_NumberLiteral b n c))))
      with (Some (idname i, n)) end.
  rewrite <- !subscript_of_sp. unfold name_of, idname in *.
  destruct l; try discriminate H.
  match goal with H : context [match ?b with _ => _ end] |- _ => destruct b; rewrite ?H, ?orb_true_r; reflexivity end.
Qed.

Theorem assign_update_between su :
  exists ls, assign_update_array_optimization su = Ok ls /\
             incl (canon_assign_update su) ls /\ incl ls (match_assign_update su).
Proof.
  eexists. split; [apply assign_update_closed|]. split; apply assign_locs_mono.
  - apply aua_canon_model.
  - apply aua_model_match.
Qed.

(* ---------------------------------------------------------------- shift_math *)
Lemma muldiv_where_mono (p q : Expression -> bool) su :
  (forall e, p e = true -> q e = true) -> incl (muldiv_where p su) (muldiv_where q su).
Proof.
  intros H. unfold muldiv_where. apply flat_map_incl. intros e. destruct e; try apply incl_refl.
  all: apply if_incl; apply or_mono; exact H.
Qed.

Theorem shift_math_closed su :
  shift_math_optimization su = Ok (muldiv_where pow2_literal su).
Proof.
  unfold shift_math_optimization, muldiv_where, all_exprs, all_nodes, root.
  rewrite each_expr_extract; [|reflexivity|kind_irrelevant].
  reflexivity.
Qed.

Lemma digits_value_dec s acc : digits_value s acc = dec_value_acc s acc.
Proof. revert acc. induction s as [|c s IH]; intros acc; cbn; [reflexivity|]. rewrite IH. reflexivity. Qed.

Lemma is_pow2_sp v : is_pow2 v = sp_is_pow2 v.
Proof. reflexivity. Qed.

Lemma dec_value_not_plus r : dec_value (String "+"%char r) = None.
Proof. reflexivity. Qed.

Lemma strip_plus_id c r :
  c <> "+"%char ->
  (match String c r with String "+"%char r0 => r0 | _ => String c r end) = String c r.
Proof.
  intros Hc. destruct c as [[] [] [] [] [] [] [] []]; try reflexivity. exfalso. apply Hc. reflexivity.
Qed.

Lemma pow2_canon_model_lit a s s0 :
  sp_pow2_canon (Expression_NumberLiteral a s s0) = true -> pow2_literal (Expression_NumberLiteral a s s0) = true.
Proof.
  intros H. unfold sp_pow2_canon in H.
  destruct s0; [|discriminate H].
  destruct (dec_value s) as [n|] eqn:E; [|discriminate H].
  apply andb_prop in H. destruct H as [Hp Hlt].
  unfold pow2_literal, parse_u32.
  destruct s as [|c r]; [discriminate E|].
  assert (Hc : c <> "+"%char). { intros ->. rewrite dec_value_not_plus in E. discriminate E. }
  rewrite (strip_plus_id c r Hc).
  rewrite digits_value_dec. unfold dec_value in E. rewrite E, Hlt. exact Hp.
Qed.

Lemma pow2_canon_model e : sp_pow2_canon e = true -> pow2_literal e = true.
Proof. destruct e; try (intros H; discriminate H). apply pow2_canon_model_lit. Qed.

Lemma pow2_model_match_lit a s s0 :
  pow2_literal (Expression_NumberLiteral a s s0) = true -> sp_pow2_match (Expression_NumberLiteral a s s0) = true.
Proof.
  intros H. unfold pow2_literal in H.
  destruct s0; [|discriminate H].
  unfold sp_pow2_match. cbn [String.eqb orb andb].
  unfold parse_u32 in H. unfold dec_value_plus.
  destruct s as [|c r]; [discriminate H|].
  destruct (Ascii.eqb c "+"%char) eqn:Ec.
  - apply Ascii.eqb_eq in Ec. subst c. destruct r as [|c' r']; [discriminate H|].
    rewrite digits_value_dec in H. unfold dec_value.
    destruct (dec_value_acc (String c' r') 0) as [v|]; [|discriminate H].
    destruct (v <? 4294967296)%N; [exact H|discriminate H].
  - assert (Hc : c <> "+"%char). { intros ->. discriminate Ec. }
    rewrite (strip_plus_id c r Hc) in H.
    replace (match String c r with String "+"%char r0 => dec_value r0 | _ => dec_value (String c r) end)
      with (dec_value (String c r)).
    2:{ destruct c as [[] [] [] [] [] [] [] []]; try reflexivity. discriminate Ec. }
    rewrite digits_value_dec in H. unfold dec_value.
    destruct (dec_value_acc (String c r) 0) as [v|]; [|discriminate H].
    destruct (v <? 4294967296)%N; [exact H|discriminate H].
Qed.

Lemma pow2_model_match e : pow2_literal e = true -> sp_pow2_match e = true.
Proof. destruct e; try (intros H; discriminate H). apply pow2_model_match_lit. Qed.

Theorem shift_math_between su :
  exists ls, shift_math_optimization su = Ok ls /\
             incl (canon_shift_math su) ls /\ incl ls (match_shift_math su).
Proof.
  eexists. split; [apply shift_math_closed|]. split; apply muldiv_where_mono.
  - apply pow2_canon_model.
  - apply pow2_model_match.
Qed.


(* ---------------------------------------------------------------- cache_array_length *)
Lemma length_accesses_closed cond :
  length_accesses cond = Ok (flat_map sp_length_access (exprs_in (pre_Expression cond))).
Proof.
  unfold length_accesses.
  rewrite each_expr_extract1; [|reflexivity|kind_irrelevant]. reflexivity.
Qed.

Ltac stmt_kind_irrelevant :=
  let s := fresh "s" in let H := fresh "H" in
  intros s H; destruct s; try reflexivity; cbn in H; discriminate H.

Theorem cache_array_length_closed su :
  cache_array_length_optimization su = Ok (spec_cache_array_length su).
Proof.
  unfold cache_array_length_optimization, spec_cache_array_length, all_stmts, all_nodes, root.
  apply each_stmt_extract1.
  - left. reflexivity.
  - intros s. destruct s; try reflexivity.
    match goal with |- context [match ?o with Some _ => _ | None => _ end] => destruct o; [|reflexivity] end.
    apply length_accesses_closed.
  - stmt_kind_irrelevant.
Qed.

(* ---------------------------------------------------------------- increment_decrement *)
Lemma extract_pre_closed n :
  extract_pre_increment_pre_decrement n = Ok (flat_map sp_prefix_loc (exprs_in (pre n))).
Proof.
  unfold extract_pre_increment_pre_decrement.
  rewrite each_expr_extract; [|reflexivity|kind_irrelevant].
  reflexivity.
Qed.

Lemma extract_incdec_closed n :
  extract_increment_decrement n = Ok (flat_map sp_incdec_loc (exprs_in (pre n))).
Proof.
  unfold extract_increment_decrement.
  rewrite each_expr_extract; [|reflexivity|kind_irrelevant].
  reflexivity.
Qed.

Theorem increment_decrement_closed su :
  increment_decrement_optimization su = Ok (spec_increment_decrement su).
Proof.
  unfold increment_decrement_optimization.
  rewrite (each_stmt_extract1 Target_Block (root su) _
             (fun s => match s with
                       | Statement_Block _ true stmts =>
                           flat_map (fun st => flat_map sp_prefix_loc (exprs_in (pre_Statement st))) stmts
                       | _ => [] end)).
  - cbn [bind]. rewrite extract_incdec_closed. cbn [bind]. reflexivity.
  - right. reflexivity.
  - intros s. destruct s; try reflexivity.
    match goal with |- context [match ?b with true => _ | false => _ end] => destruct b; [|reflexivity] end.
    rewrite (mapM_ok_ext _ (fun st => flat_map sp_prefix_loc (exprs_in (pre_Statement st)))).
    + cbn [rmap]. rewrite flat_map_concat_map. reflexivity.
    + intros st. apply (extract_pre_closed (N_Statement st)).
  - stmt_kind_irrelevant.
Qed.
