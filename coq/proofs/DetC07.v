(* C07: vulnerability detectors - closed forms and relation to the specification. *)
From Coq Require Import List String Ascii NArith ZArith Bool.
Import ListNotations.
From Solstat Require Import Lift Pt Walk Res Nodes Utils Detectors WalkProof Patterns DetBase DetC05 StructLemmas.
Local Open Scope string_scope.

Lemma mapM_map {A B C} (f : B -> res C) (h : A -> B) l : mapM f (map h l) = mapM (fun x => f (h x)) l.
Proof. induction l as [|x l IH]; cbn; [reflexivity|]. rewrite IH. reflexivity. Qed.

(* ---------------------------------------------------------------- unsafe_erc20_operation *)
Theorem unsafe_erc20_closed su :
  unsafe_erc20_operation_vulnerability su = Ok (spec_unsafe_erc20 su).
Proof.
  unfold unsafe_erc20_operation_vulnerability, spec_unsafe_erc20, all_exprs, all_nodes, root.
  rewrite each_expr_extract1; [|reflexivity|kind_irrelevant]. reflexivity.
Qed.

(* ---------------------------------------------------------------- divide_before_multiply *)
Lemma mul_chain_eq : forall e, mul_chain_has_div e = sp_mul_chain_div e.
Proof. fix IH 1. intros e. destruct e; try reflexivity; cbn; apply IH. Qed.
Lemma arith_chain_eq : forall e, arith_chain_has_mul e = sp_arith_chain_mul e.
Proof. fix IH 1. intros e. destruct e; try reflexivity; cbn; apply IH. Qed.

Theorem divide_before_multiply_closed su :
  divide_before_multiply_vulnerability su = Ok (spec_divide_before_multiply su).
Proof.
  unfold divide_before_multiply_vulnerability, spec_divide_before_multiply, all_exprs, all_nodes, root.
  rewrite each_expr_extract; [|reflexivity|kind_irrelevant].
  reflexivity.
Qed.

(* the boolean deciders are the inductive chains of the statement *)
Lemma MulChainDiv_iff : forall e, sp_mul_chain_div e = true <-> MulChainDiv e.
Proof.
  intros e. split.
  - revert e. fix IH 1. intros e H. destruct e; try discriminate H.
    + apply MCD_par. apply IH. exact H.
    + apply MCD_mul. apply IH. exact H.
    + apply MCD_div.
  - induction 1; cbn; auto.
Qed.
Lemma ArithChainMul_iff : forall e, sp_arith_chain_mul e = true <-> ArithChainMul e.
Proof.
  intros e. split.
  - revert e. fix IH 1. intros e H. destruct e; try discriminate H;
      first [ apply ACM_mul | constructor; apply IH; exact H ].
  - induction 1; cbn; auto.
Qed.

(* ---------------------------------------------------------------- floating_pragma *)
Lemma cp_not_kind t ps :
  (forall p, ksel t (N_ContractPart p) = false) -> filter (ksel t) (map N_ContractPart ps) = [].
Proof. intros H. induction ps as [|p ps IH]; cbn; [reflexivity|]. rewrite H. exact IH. Qed.

Lemma cp_not_pragma p : ksel Target_PragmaDirective (N_ContractPart p) = false.
Proof. destruct p; reflexivity. Qed.
Lemma cp_not_contract p : ksel Target_ContractDefinition (N_ContractPart p) = false.
Proof. destruct p; reflexivity. Qed.

Definition is_pragma_part (p : SourceUnitPart) : bool :=
  match p with SourceUnitPart_PragmaDirective _ _ _ => true | _ => false end.

Lemma pragma_nodes_closed su :
  extract_target_from_node Target_PragmaDirective (root su) =
  match su with Mk_SourceUnit parts => map N_SourceUnitPart (filter is_pragma_part parts) end.
Proof.
  unfold root. rewrite extract_ksel, filter_pre_skeleton by apply es_free_PragmaDirective.
  destruct su as [parts]. unfold skeleton. cbn [filter].
  change (ksel Target_PragmaDirective (N_SourceUnit (Mk_SourceUnit parts))) with false. cbn iota.
  rewrite filter_flat_map. induction parts as [|p ps IH]; [reflexivity|].
  cbn [flat_map filter map]. rewrite IH. unfold skeleton_part. cbn [filter].
  destruct p; cbn; try reflexivity.
  rewrite (cp_not_kind _ _ cp_not_pragma). reflexivity.
Qed.

Lemma has_char_contains c s : contains_char c s = sp_has_char c s.
Proof.
  unfold contains_char. induction s as [|d s IH]; [reflexivity|].
  cbn [contains sp_has_char prefixb]. rewrite IH. destruct (Ascii.eqb c d); reflexivity.
Qed.

Lemma unwrap_sup_nodes {B} (f : SourceUnitPart -> res B) ps :
  mapM (fun n => bind (unwrap "node.source_unit_part().unwrap()" (node_source_unit_part n)) f)
       (map N_SourceUnitPart ps) = mapM f ps.
Proof. rewrite mapM_map. reflexivity. Qed.

Theorem floating_pragma_closed su :
  floating_pragma_vulnerability su = Ok (spec_floating_pragma su).
Proof.
  unfold floating_pragma_vulnerability, spec_floating_pragma, pragmas, each_sup.
  rewrite pragma_nodes_closed. destruct su as [parts].
  rewrite unwrap_sup_nodes.
  rewrite (mapM_ok_ext _ (fun p => match p with
                                   | SourceUnitPart_PragmaDirective loc _ lit =>
                                       if sp_has_char "^"%char (StringLiteral_string lit) then [loc] else []
                                   | _ => [] end)).
  - cbn [rmap]. f_equal. rewrite flat_map_concat_map.
    induction parts as [|p ps IH]; [reflexivity|].
    destruct p; cbn [filter is_pragma_part flat_map app]; try exact IH.
    rewrite IH. reflexivity.
  - intros p. destruct p; try reflexivity. rewrite has_char_contains. reflexivity.
Qed.

(* caret-ranged value => reported; exactly pinned value => not reported *)
Lemma has_char_app_l c a b : sp_has_char c a = true -> sp_has_char c (a ++ b) = true.
Proof.
  induction a as [|d a IH]; cbn; [discriminate|]. intros H. apply orb_true_iff in H.
  apply orb_true_iff. destruct H as [H|H]; [left; exact H|right; apply IH; exact H].
Qed.

(* ---------------------------------------------------------------- unprotected_selfdestruct *)
Lemma contract_nodes_closed su :
  contract_nodes su = map (fun c => N_SourceUnitPart (SourceUnitPart_ContractDefinition c)) (contracts su).
Proof.
  unfold contract_nodes, root. rewrite extract_ksel, filter_pre_skeleton by apply es_free_ContractDefinition.
  destruct su as [parts]. unfold skeleton, contracts. cbn [filter].
  change (ksel Target_ContractDefinition (N_SourceUnit (Mk_SourceUnit parts))) with false. cbn iota.
  rewrite filter_flat_map. induction parts as [|p ps IH]; [reflexivity|].
  cbn [flat_map map]. rewrite IH. unfold skeleton_part. cbn [filter].
  destruct p; cbn; try reflexivity.
  rewrite (cp_not_kind _ _ cp_not_contract). reflexivity.
Qed.

Definition is_fn_part (p : ContractPart) : bool :=
  match p with ContractPart_FunctionDefinition _ => true | _ => false end.

Lemma fn_nodes_of_contract c :
  extract_target_from_node Target_FunctionDefinition (N_SourceUnitPart (SourceUnitPart_ContractDefinition c)) =
  map N_ContractPart (filter is_fn_part (ContractDefinition_parts c)).
Proof.
  rewrite extract_ksel, filter_pre_contract_node by apply es_free_FunctionDefinition.
  cbn [filter]. change (ksel Target_FunctionDefinition (N_SourceUnitPart (SourceUnitPart_ContractDefinition c))) with false.
  cbn iota. induction (ContractDefinition_parts c) as [|p ps IH]; [reflexivity|].
  cbn [map filter]. rewrite IH. destruct p; reflexivity.
Qed.

Lemma filter_fn_parts ps :
  filter is_fn_part ps =
  map ContractPart_FunctionDefinition
      (flat_map (fun p => match p with ContractPart_FunctionDefinition f => [f] | _ => [] end) ps).
Proof. induction ps as [|p ps IH]; [reflexivity|]. destruct p; cbn; rewrite IH; reflexivity. Qed.

Lemma unwrap_cp_nodes ps :
  mapM (fun n => unwrap "node.contract_part().unwrap()" (node_contract_part n)) (map N_ContractPart ps) = Ok ps.
Proof.
  rewrite mapM_map. rewrite (mapM_ok_ext _ (fun p => p)); [rewrite map_id; reflexivity|]. intros p. reflexivity.
Qed.

Theorem contract_function_parts_closed su :
  contract_function_parts su = Ok (map ContractPart_FunctionDefinition (member_functions su)).
Proof.
  unfold contract_function_parts, member_functions. rewrite contract_nodes_closed.
  rewrite mapM_map.
  rewrite (mapM_ok_ext _ (fun c => map ContractPart_FunctionDefinition (functions_of c))).
  - cbn [bind]. f_equal. rewrite flat_map_concat_map.
    induction (contracts su) as [|c cs IH]; [reflexivity|]. cbn [flat_map]. rewrite map_app, IH. reflexivity.
  - intros c. rewrite fn_nodes_of_contract. rewrite unwrap_cp_nodes. f_equal. apply filter_fn_parts.
Qed.

Lemma existsb_ext {A} (f g : A -> bool) l : (forall x, f x = g x) -> existsb f l = existsb g l.
Proof. intros H. induction l as [|x l IH]; [reflexivity|]. cbn. rewrite H, IH. reflexivity. Qed.

Lemma selfdestruct_calls_closed body : selfdestruct_calls body = Ok (sp_selfdestruct_calls body).
Proof.
  unfold selfdestruct_calls, sp_selfdestruct_calls.
  rewrite each_expr_extract1; [|reflexivity|kind_irrelevant]. reflexivity.
Qed.

Lemma sender_arg_eq a : sender_check_arg a = sp_sender_arg a.
Proof.
  destruct a; try reflexivity.
  unfold sender_check_arg, sp_sender_arg. rewrite orb_false_r. reflexivity.
Qed.

Lemma sender_check_eq e : sender_check_call e = sp_sender_check e.
Proof.
  destruct e; try reflexivity.
  unfold sender_check_call, sp_sender_check, is_type_conversion_callee.
  match goal with |- context [is_selfdestruct ?c] =>
    change (is_selfdestruct c) with (sp_is_selfdestruct_callee c); destruct (sp_is_selfdestruct_callee c) end;
    [reflexivity|].
  cbn [negb andb].
  match goal with |- context [existsb sender_check_arg ?args] =>
    rewrite (existsb_ext sender_check_arg sp_sender_arg args sender_arg_eq) end.
  match goal with |- (if (match ?c with _ => _ end) then _ else _) = _ => destruct c; reflexivity end.
Qed.

Lemma existsb_filter_irrelevant {A} (p q : A -> bool) l :
  (forall x, q x = false -> p x = false) -> existsb p (filter q l) = existsb p l.
Proof.
  intros H. induction l as [|x l IH]; [reflexivity|]. cbn. destruct (q x) eqn:E; cbn; rewrite IH; [reflexivity|].
  rewrite (H x E). reflexivity.
Qed.

Lemma unwrap_expr_nodes ns :
  Forall (fun n => is_expr_node n = true) ns ->
  mapM (fun n => unwrap "node.expression().unwrap()" (node_expression n)) ns = Ok (exprs_in ns).
Proof.
  induction 1 as [|n ns Hn Hns IH]; [reflexivity|].
  destruct n; try discriminate Hn. cbn. cbn in IH. rewrite IH. reflexivity.
Qed.

Lemma msg_sender_conditions_closed f body :
  FunctionDefinition_body f = Some body ->
  contains_msg_sender_conditions f = Ok (existsb sp_sender_check (exprs_in (pre_Statement body))).
Proof.
  intros Hb. unfold contains_msg_sender_conditions. rewrite Hb.
  rewrite extract_single_as_multi, extract_multi_lemma.
  change (fun m => existsb (Target_eqb (kind_of m)) [Target_FunctionCall]) with (tsel [Target_FunctionCall]).
  rewrite unwrap_expr_nodes by (apply tsel_expr_nodes; reflexivity).
  cbn [bind]. f_equal. rewrite exprs_in_filter.
  rewrite existsb_filter_irrelevant.
  - apply existsb_ext. intros e. apply sender_check_eq.
  - intros e He. destruct e; try reflexivity. cbn in He. discriminate He.
Qed.

Definition spec_selfdestruct_fn (f : FunctionDefinition) : list Loc :=
  match FunctionDefinition_body f with
  | Some body =>
      if negb (sp_is_ctor f) && sp_pub_ext f && negb (sp_only_modifier f)
         && negb (existsb sp_sender_check (exprs_in (pre_Statement body)))
      then sp_selfdestruct_calls body else []
  | None => [] end.

Lemma substring_contains p s : contains p s = sp_substring p s.
Proof. reflexivity. Qed.

Lemma only_modifier_eq f : contains_protection_modifiers f = sp_only_modifier f.
Proof.
  reflexivity.
Qed.

Lemma unprotected_selfdestruct_fn_closed f :
  unprotected_selfdestruct_fn f = Ok (spec_selfdestruct_fn f).
Proof.
  unfold unprotected_selfdestruct_fn, spec_selfdestruct_fn.
  destruct (FunctionDefinition_body f) as [body|] eqn:Hb; [|reflexivity].
  change (is_constructor f) with (sp_is_ctor f). destruct (sp_is_ctor f); [reflexivity|].
  change (is_public_or_external f) with (sp_pub_ext f). destruct (sp_pub_ext f); [|reflexivity].
  cbn [negb andb]. rewrite selfdestruct_calls_closed. cbn [bind].
  rewrite only_modifier_eq.
  destruct (sp_selfdestruct_calls body) as [|c cs] eqn:Hc.
  - destruct (negb (sp_only_modifier f) && negb (existsb sp_sender_check (exprs_in (pre_Statement body)))); reflexivity.
  - destruct (sp_only_modifier f); [reflexivity|]. cbn [negb andb].
    rewrite (msg_sender_conditions_closed f body Hb). cbn [bind].
    destruct (existsb sp_sender_check (exprs_in (pre_Statement body))); reflexivity.
Qed.

Theorem unprotected_selfdestruct_closed su :
  unprotected_selfdestruct_vulnerability su = Ok (spec_unprotected_selfdestruct su).
Proof.
  unfold unprotected_selfdestruct_vulnerability, spec_unprotected_selfdestruct.
  rewrite contract_function_parts_closed. cbn [bind].
  rewrite mapM_map. rewrite (mapM_ok_ext _ spec_selfdestruct_fn).
  - cbn [rmap]. rewrite flat_map_concat_map. reflexivity.
  - intros f. apply unprotected_selfdestruct_fn_closed.
Qed.

(* ---- the classes named in the statement, as corollaries of the exact characterisation *)
Lemma spec_selfdestruct_in su l :
  In l (spec_unprotected_selfdestruct su) <->
  exists f body, In f (member_functions su) /\ FunctionDefinition_body f = Some body /\
                 sp_is_ctor f = false /\ sp_pub_ext f = true /\ sp_only_modifier f = false /\
                 existsb sp_sender_check (exprs_in (pre_Statement body)) = false /\
                 In l (sp_selfdestruct_calls body).
Proof.
  unfold spec_unprotected_selfdestruct. rewrite in_flat_map. split.
  - intros [f [Hf Hl]]. destruct (FunctionDefinition_body f) as [body|] eqn:Hb; [|contradiction].
    destruct (sp_is_ctor f) eqn:E1; [contradiction|]. destruct (sp_pub_ext f) eqn:E2; [|contradiction].
    destruct (sp_only_modifier f) eqn:E3; [contradiction|].
    destruct (existsb sp_sender_check (exprs_in (pre_Statement body))) eqn:E; [contradiction|].
    exists f, body. repeat split; assumption.
  - intros [f [body [Hf [Hb [H1 [H2 [H3 [H4 Hl]]]]]]]]. exists f. split; [exact Hf|].
    rewrite Hb, H1, H2, H3, H4. exact Hl.
Qed.

(* ---- floating_pragma corollaries *)
Lemma caret_value_reported_lemma parts l id lit rest :
  In (SourceUnitPart_PragmaDirective l id lit) parts -> StringLiteral_string lit = String "^"%char rest ->
  In l (spec_floating_pragma (Mk_SourceUnit parts)).
Proof.
  intros Hin Hv. unfold spec_floating_pragma, pragmas. apply in_flat_map.
  exists (l, idname id, StringLiteral_string lit). split.
  - apply in_flat_map. exists (SourceUnitPart_PragmaDirective l id lit). split; [exact Hin|left; reflexivity].
  - rewrite Hv. left. reflexivity.
Qed.

Definition digit_or_dot (c : ascii) : bool :=
  let n := N_of_ascii c in ((48 <=? n)%N && (n <=? 57)%N) || Ascii.eqb c "."%char.
Fixpoint all_chars (p : ascii -> bool) (s : string) : bool :=
  match s with EmptyString => true | String c r => p c && all_chars p r end.

Lemma pinned_no_caret v : all_chars digit_or_dot v = true -> sp_has_char "^"%char v = false.
Proof.
  induction v as [|c v IH]; [reflexivity|]. cbn [all_chars sp_has_char]. intros H.
  apply andb_prop in H. destruct H as [Hc Hv].
  rewrite (IH Hv), orb_false_r.
  destruct (Ascii.eqb "^"%char c) eqn:E; [|reflexivity]. apply Ascii.eqb_eq in E. subst c. discriminate Hc.
Qed.

Lemma pinned_value_not_reported_lemma parts l :
  (forall id lit, In (SourceUnitPart_PragmaDirective l id lit) parts ->
                  all_chars digit_or_dot (StringLiteral_string lit) = true) ->
  ~ In l (spec_floating_pragma (Mk_SourceUnit parts)).
Proof.
  intros H Hin. unfold spec_floating_pragma, pragmas in Hin.
  apply in_flat_map in Hin. destruct Hin as [[[l' n] v] [Hp Hl]].
  apply in_flat_map in Hp. destruct Hp as [p [Hp Hq]].
  destruct p as [c|pl pid plit|i|d|d|d|d|d|d|d|d|sl]; try contradiction.
  destruct Hq as [Hq|[]]. inversion Hq; subst.
  destruct (sp_has_char "^"%char (StringLiteral_string plit)) eqn:E; [|contradiction].
  destruct Hl as [Hl|[]]. subst.
  rewrite (pinned_no_caret _ (H _ _ Hp)) in E. discriminate E.
Qed.
