(* C09: the declarative reading of a pragma value (spec/Patterns2.sp_parse_version: the value is
   exactly [op][blanks]M.m.p) agrees with what the model's regex scanner + i32 parsing extract. *)
From Coq Require Import List String Ascii NArith ZArith Bool Lia.
Import ListNotations.
From Solstat Require Import Lift Pt Walk Res Nodes Utils Detectors Patterns Patterns2 VersionProof DetC09.
Local Open Scope string_scope.
Local Open Scope list_scope.

Lemma take_digits_spec : forall s d t,
  sp_take_digits s = (d, t) -> s = (d ++ t)%string /\ all_chars is_digit d = true.
Proof.
  induction s as [|c s IH]; intros d t H.
  - inversion H. split; reflexivity.
  - cbn [sp_take_digits] in H. change (sp_is_digit c) with (is_digit c) in H.
    destruct (is_digit c) eqn:Ec.
    + destruct (sp_take_digits s) as [d' t'] eqn:E. inversion H; subst. destruct (IH d' t eq_refl) as [Hs Hd].
      split; [cbn; rewrite Hs; reflexivity|]. cbn [all_chars]. rewrite Ec, Hd. reflexivity.
    + inversion H; subst. split; reflexivity.
Qed.

Lemma strip_op_spec s : exists pre, s = (pre ++ sp_strip_op s)%string /\ no_digit pre.
Proof.
  unfold sp_strip_op.
  destruct s as [|c r]; [exists ""; split; reflexivity|].
  destruct (Ascii.eqb c ">"%char) eqn:E1.
  - apply Ascii.eqb_eq in E1. subst c. destruct r as [|c2 r2]; [exists ">"; split; reflexivity|].
    destruct (Ascii.eqb c2 "="%char) eqn:E2.
    + apply Ascii.eqb_eq in E2. subst c2. exists ">=". split; reflexivity.
    + exists ">". split; [|reflexivity].
      destruct c2 as [[] [] [] [] [] [] [] []]; try reflexivity. discriminate E2.
  - destruct (Ascii.eqb c "^"%char) eqn:E2; [apply Ascii.eqb_eq in E2; subst c; exists "^"; split; reflexivity|].
    destruct (Ascii.eqb c "~"%char) eqn:E3; [apply Ascii.eqb_eq in E3; subst c; exists "~"; split; reflexivity|].
    destruct (Ascii.eqb c "="%char) eqn:E4; [apply Ascii.eqb_eq in E4; subst c; exists "="; split; reflexivity|].
    exists "". split; [|reflexivity].
    destruct c as [[] [] [] [] [] [] [] []]; try reflexivity; discriminate.
Qed.

Lemma drop_blanks_spec s : exists pre, s = (pre ++ sp_drop_blanks s)%string /\ no_digit pre.
Proof.
  induction s as [|c r IH]; [exists ""; split; reflexivity|].
  cbn [sp_drop_blanks]. destruct (Ascii.eqb c " "%char) eqn:E.
  - apply Ascii.eqb_eq in E. subst c. destruct IH as [pre [Hs Hn]].
    exists (String " "%char pre). split; [cbn; rewrite <- Hs; reflexivity|]. exact Hn.
  - exists "". split; [|reflexivity].
    destruct c as [[] [] [] [] [] [] [] []]; try reflexivity; discriminate.
Qed.

Lemma dec_value_acc_value : forall s acc n,
  dec_value_acc s acc = Some n -> all_chars is_digit s = true /\ n = value_acc s acc.
Proof.
  induction s as [|c s IH]; intros acc n H.
  - inversion H. split; reflexivity.
  - cbn [dec_value_acc] in H. cbv zeta in H.
    change ((48 <=? N_of_ascii c)%N && (N_of_ascii c <=? 57)%N) with (is_digit c) in H.
    destruct (is_digit c) eqn:Ec; [|discriminate H].
    destruct (IH _ _ H) as [Hd Hv]. split; [cbn [all_chars]; rewrite Ec, Hd; reflexivity|].
    cbn [value_acc]. rewrite Hv. f_equal. lia.
Qed.

Lemma sp_num_spec d x :
  sp_num d = Some x ->
  all_chars is_digit d = true /\ d <> EmptyString /\ (value d < 2 ^ 31)%N /\ x = Z.of_N (value d).
Proof.
  unfold sp_num, dec_value. destruct d as [|c r]; [discriminate|].
  destruct (dec_value_acc (String c r) 0) as [n|] eqn:E; [|discriminate].
  destruct (dec_value_acc_value _ _ _ E) as [Hd Hv].
  destruct (n <? 2147483648)%N eqn:Hlt; [|discriminate]. intros H. inversion H; subst x.
  apply N.ltb_lt in Hlt. unfold value. rewrite <- Hv.
  split; [exact Hd|]. split; [discriminate|]. split; [exact Hlt|reflexivity].
Qed.

Lemma string_app_assoc (a b c : string) : ((a ++ b) ++ c = a ++ (b ++ c))%string.
Proof. induction a as [|x a IH]; [reflexivity|]. cbn. rewrite IH. reflexivity. Qed.

Theorem parse_version_model s v : sp_parse_version s = Some v -> version_of_string s = Some v.
Proof.
  unfold sp_parse_version.
  destruct (strip_op_spec s) as [p1 [Hs1 Hn1]].
  destruct (drop_blanks_spec (sp_strip_op s)) as [p2 [Hs2 Hn2]].
  set (s1 := sp_drop_blanks (sp_strip_op s)) in *.
  destruct (sp_take_digits s1) as [a r1] eqn:Ea.
  destruct r1 as [|c1 r1']; [discriminate|].
  destruct (Ascii.eqb c1 "."%char) eqn:Ec1.
  2:{ destruct c1 as [[] [] [] [] [] [] [] []]; try discriminate. }
  apply Ascii.eqb_eq in Ec1. subst c1.
  destruct (sp_take_digits r1') as [b r2] eqn:Eb.
  destruct r2 as [|c2 r2']; [discriminate|].
  destruct (Ascii.eqb c2 "."%char) eqn:Ec2.
  2:{ destruct c2 as [[] [] [] [] [] [] [] []]; try discriminate. }
  apply Ascii.eqb_eq in Ec2. subst c2.
  destruct (sp_take_digits r2') as [c r3] eqn:Ec.
  destruct r3; [|discriminate].
  destruct (sp_num a) as [x|] eqn:Hx; [|discriminate].
  destruct (sp_num b) as [y|] eqn:Hy; [|discriminate].
  destruct (sp_num c) as [z|] eqn:Hz; [|discriminate].
  intros H. inversion H; subst v; clear H.
  destruct (take_digits_spec _ _ _ Ea) as [Ha _].
  destruct (take_digits_spec _ _ _ Eb) as [Hb _].
  destruct (take_digits_spec _ _ _ Ec) as [Hc _].
  destruct (sp_num_spec _ _ Hx) as [Da [Na [La Vx]]].
  destruct (sp_num_spec _ _ Hy) as [Db [Nb [Lb Vy]]].
  destruct (sp_num_spec _ _ Hz) as [Dc [Nc [Lc Vz]]].
  assert (Hs : s = ((p1 ++ p2) ++ a ++ "." ++ b ++ "." ++ c)%string).
  { rewrite Hs1 at 1. rewrite Hs2 at 1. fold s1. rewrite Ha, Hb, Hc.
    rewrite string_app_assoc. f_equal. f_equal. f_equal. cbn.
    rewrite (string_app_assoc c EmptyString EmptyString) || idtac.
    replace (c ++ "")%string with c; [reflexivity|]. clear. induction c as [|q c IH]; [reflexivity|]. cbn. rewrite <- IH. reflexivity. }
  unfold version_of_string. rewrite Hs.
  rewrite scan_three_components; [| apply no_digit_app; assumption | split; assumption | split; assumption | split; assumption].
  cbn [map]. rewrite (parse_i32_digits a Da Na La), (parse_i32_digits b Db Nb Lb), (parse_i32_digits c Dc Nc Lc).
  cbn [all_some]. subst. reflexivity.
Qed.

(* a file whose single `pragma solidity` names one full version v: the model extracts v *)
Theorem file_version_model su v : file_version su = Some v -> model_version su = Some v.
Proof.
  unfold file_version, model_version. destruct su as [parts].
  destruct (filter (fun p => match p with (_, n, _) => String.eqb n "solidity" end) (pragmas (Mk_SourceUnit parts)))
    as [|[[l n] s] [|q qs]] eqn:E; try discriminate.
  intros H. rewrite (first_solidity_pragma_spec parts l n s E). apply parse_version_model. exact H.
Qed.

Lemma version_lt_sp v w : version_lt v w = sp_ver_lt v w.
Proof.
  unfold version_lt, version_ge, sp_ver_lt. destruct v as [[a b] c], w as [[a' b'] c'].
  destruct (a' <? a)%Z eqn:E1, (a =? a')%Z eqn:E2, (b' <? b)%Z eqn:E3, (b =? b')%Z eqn:E4, (c' <=? c)%Z eqn:E5,
           (a <? a')%Z eqn:E6, (b <? b')%Z eqn:E7, (c <? c')%Z eqn:E8; cbn; try reflexivity; lia.
Qed.

(* ---- the gates, end to end from the file's pragma *)
Theorem safe_math_pre_spec su v :
  file_version su = Some v -> safe_math_pre_080_optimization su = Ok (spec_safemath_pre v su).
Proof.
  intros H. unfold safe_math_pre_080_optimization. rewrite safe_math_closed, (file_version_model su v H).
  unfold spec_safemath_pre, gated. cbn [andb negb orb]. rewrite orb_false_r.
  rewrite version_lt_sp. reflexivity.
Qed.

Theorem safe_math_post_spec su v :
  file_version su = Some v -> safe_math_post_080_optimization su = Ok (spec_safemath_post v su).
Proof.
  intros H. unfold safe_math_post_080_optimization. rewrite safe_math_closed, (file_version_model su v H).
  unfold spec_safemath_post, gated. cbn [andb negb orb].
  replace (version_ge v v080) with (negb (sp_ver_lt v (0, 8, 0)%Z)); [reflexivity|].
  rewrite <- version_lt_sp. unfold version_lt. rewrite negb_involutive. reflexivity.
Qed.

Theorem string_errors_spec su v :
  file_version su = Some v -> wf_require_strings su = true ->
  string_error_optimization su = Ok (spec_string_errors v su).
Proof.
  intros H Hwf. rewrite (string_errors_closed su Hwf), (file_version_model su v H).
  unfold spec_string_errors, gated.
  replace (version_ge v v084) with (negb (sp_ver_lt v (0, 8, 4)%Z)); [reflexivity|].
  rewrite <- version_lt_sp. unfold version_lt. rewrite negb_involutive. reflexivity.
Qed.

Theorem short_revert_spec su v :
  file_version su = Some v -> short_revert_string_optimization su = Ok (spec_short_revert v su).
Proof.
  intros H. rewrite short_revert_closed, (file_version_model su v H).
  unfold spec_short_revert, gated. rewrite version_lt_sp. reflexivity.
Qed.

(* never both SafeMath detectors; monotone in v *)
Lemma sp_ver_lt_trans u v w : sp_ver_lt v w = true -> sp_ver_lt u v = true -> sp_ver_lt u w = true.
Proof.
  unfold sp_ver_lt. destruct u as [[a b] c], v as [[a' b'] c'], w as [[a'' b''] c''].
  rewrite !orb_true_iff, !andb_true_iff, !orb_true_iff, !andb_true_iff, !Z.ltb_lt, !Z.eqb_eq. lia.
Qed.
(* monotonicity of the gates in v: a "<" gate that is open at v is open at every smaller u;
   a ">=" gate that is open at u is open at every larger v *)
Lemma gate_lt_monotone u v w : sp_ver_lt u v = true -> sp_ver_lt v w = true -> sp_ver_lt u w = true.
Proof. intros H1 H2. exact (sp_ver_lt_trans u v w H2 H1). Qed.
Lemma gate_ge_monotone u v w : sp_ver_lt u v = true -> sp_ver_lt u w = false -> sp_ver_lt v w = false.
Proof.
  intros H1 H2. destruct (sp_ver_lt v w) eqn:E; [|reflexivity].
  rewrite (sp_ver_lt_trans u v w E H1) in H2. discriminate H2.
Qed.
