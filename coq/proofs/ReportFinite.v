(* Finite side conditions on the CURRENT constant texts of the report (gen/Sections.v), decided by
   vm_compute.  A changed section text, overview or heading that would confuse the reader of
   spec/ReportReader.v makes this file fail to compile. *)
From Coq Require Import List String Ascii NArith ZArith Bool.
Import ListNotations.
From Solstat Require Import Bytes Tables Sections Report ReportReader ReportLines ReportReaderProof ReportCategory.
Local Open Scope list_scope.
Local Open Scope string_scope.

Lemma opt_cat_ok : cat_okb Optimization Optimization_idx Optimization_all opt_keys [] optimization_section = true.
Proof. vm_compute; reflexivity. Qed.

Definition opt_sfx_lines : list string := removelast (split_lines opt_overview_suffix).
Definition opt_s0 : string := hd "" opt_sfx_lines.
Definition opt_mid : list string := tl opt_sfx_lines.

Lemma opt_suffix_eq : opt_overview_suffix = opt_s0 ++ nl ++ unlines opt_mid.
Proof. vm_compute; reflexivity. Qed.
Lemma opt_ovw_finite :
  no_lfb opt_overview_prefix = true /\ no_lfb opt_s0 = true /\ forallb no_lfb opt_mid = true /\
  take_digits opt_s0 = "" /\
  prefix_okb Optimization Optimization_all opt_keys [] optimization_section opt_overview_prefix = true /\
  plain_lines_okb Optimization Optimization_all opt_keys [] optimization_section opt_mid = true /\
  fst (scan Optimization opt_keys [] (None, None) opt_mid) = None.
Proof. vm_compute; repeat split; reflexivity. Qed.


Lemma qa_cat_ok : cat_okb QualityAssurance QualityAssurance_idx QualityAssurance_all qa_keys [] qa_section = true.
Proof. vm_compute; reflexivity. Qed.

Definition qa_ovw : list string := split_lines qa_overview.

Lemma qa_ovw_finite :
  plain_lines_okb QualityAssurance QualityAssurance_all qa_keys [] qa_section qa_ovw = true /\
  fst (scan QualityAssurance qa_keys [] (None, None) qa_ovw) = None.
Proof. vm_compute; split; reflexivity. Qed.


Lemma vul_cat_ok : cat_okb Vulnerability Vulnerability_idx Vulnerability_all vul_keys vul_headings vulnerability_section = true.
Proof. vm_compute; reflexivity. Qed.

Definition vul_sfx_lines : list string := removelast (split_lines vul_overview_suffix).
Definition vul_s0 : string := hd "" vul_sfx_lines.
Definition vul_mid : list string := tl vul_sfx_lines.

Lemma vul_suffix_eq : vul_overview_suffix = vul_s0 ++ nl ++ unlines vul_mid.
Proof. vm_compute; reflexivity. Qed.
Lemma vul_ovw_finite :
  no_lfb vul_overview_prefix = true /\ no_lfb vul_s0 = true /\ forallb no_lfb vul_mid = true /\
  take_digits vul_s0 = "" /\
  prefix_okb Vulnerability Vulnerability_all vul_keys vul_headings vulnerability_section vul_overview_prefix = true /\
  plain_lines_okb Vulnerability Vulnerability_all vul_keys vul_headings vulnerability_section vul_mid = true /\
  fst (scan Vulnerability vul_keys vul_headings (None, None) vul_mid) = None /\
  forallb (fun h => negb (existsb (String.eqb h) vul_mid)) vul_headings = true.
Proof. vm_compute; repeat split; reflexivity. Qed.

Lemma vul_heading_finite : forall s,
  severity_heading s = unlines [heading_of s] /\
  plain_lines_okb Vulnerability Vulnerability_all vul_keys vul_headings vulnerability_section [heading_of s] = true /\
  fst (scan Vulnerability vul_keys vul_headings (None, None) [heading_of s]) = Some (heading_of s) /\
  In (heading_of s) vul_headings.
Proof. intro s; destruct s; vm_compute; repeat split; try reflexivity; tauto. Qed.

Lemma heading_of_inj : forall s s', heading_of s = heading_of s' -> s = s'.
Proof. intros s s' H; destruct s; destruct s'; try reflexivity; discriminate H. Qed.


