(* The instantiated analysis (model/RunTree.v) never looks at a file whose name is not eligible:
   C16's inert_files (proofs/DirProof.v) lifted to the whole run. *)
From Coq Require Import List String Ascii NArith ZArith Bool.
Import ListNotations.
From Solstat Require Import Res Names Opts Dir DirSpec DirProof Run RunTree RunProof.
Local Open Scope string_scope.

Lemma analyse_tree_inert : forall an_opt an_vul an_qa render t t' o v q, inert_ext t t' ->
  analyse_tree an_opt an_vul an_qa render t' o v q = analyse_tree an_opt an_vul an_qa render t o v q.
Proof.
  intros an_opt an_vul an_qa render t t' o v q H. unfold analyse_tree.
  rewrite (inert_files_lemma N N.eq_dec an_vul v t t' H).
  rewrite (inert_files_lemma N N.eq_dec an_opt o t t' H).
  rewrite (inert_files_lemma N N.eq_dec an_qa q t t' H).
  reflexivity.
Qed.

Lemma analyse_concrete_ignores_ineligible_lemma : forall tree_at an_opt an_vul an_qa render,
  tree_view_faithful tree_at ->
  ignores_ineligible (analyse_concrete tree_at an_opt an_vul an_qa render).
Proof.
  intros tree_at an_opt an_vul an_qa render Hv f1 f2 d name Hn Hag cwd p o v q.
  unfold analyse_concrete.
  pose proof (Hv f1 f2 d name Hn Hag (join cwd p)) as H.
  destruct (tree_at f1 (join cwd p)) as [t1|]; destruct (tree_at f2 (join cwd p)) as [t2|];
    cbn [opt_rel] in H; try contradiction; [|reflexivity].
  symmetry. apply analyse_tree_inert. exact H.
Qed.

Lemma old_report_inert_concrete_lemma : forall parse_toml tree_at an_opt an_vul an_qa render,
  tree_view_faithful tree_at ->
  forall f1 f2 cwd a, agree_except (report_path cwd) f1 f2 ->
  (forall file, arg_toml a = Some file -> join cwd file <> report_path cwd) ->
  let r := run parse_toml (analyse_concrete tree_at an_opt an_vul an_qa render) in
  snd (r f1 cwd a) = snd (r f2 cwd a) /\
  (snd (r f1 cwd a) = 0%N -> forall q, fst (r f1 cwd a) q = fst (r f2 cwd a) q).
Proof.
  intros parse_toml tree_at an_opt an_vul an_qa render Hv f1 f2 cwd a Hag Ht r.
  destruct (old_report_inert_lemma parse_toml _
              (analyse_concrete_ignores_ineligible_lemma tree_at an_opt an_vul an_qa render Hv)
              f1 f2 cwd a Hag Ht) as [H1 [_ H3]].
  split; assumption.
Qed.

(* ------------------------------------------------------------------ example used by props/C18.v:
   a faithful enumeration (the hypothesis tree_view_faithful is satisfiable, non-trivially: the
   enumerated tree really contains the old report when there is one) *)
Local Open Scope list_scope.

Definition ex_tree_at (f : fs) (p : path) : option (list entry) :=
  if String.eqb p "/w" then
    Some ((match f "/w/a.sol" with Some (FileN c) => [EFile "a.sol" (Some c)] | _ => [] end) ++
          (match f "/w/solstat_report.md" with Some (FileN c) => [EFile "solstat_report.md" (Some c)] | _ => [] end))
  else None.

Lemma a_sol_is_eligible_name : forall d0 n0, "/w/a.sol"%string = (d0 ++ "/" ++ n0)%string -> eligible n0 = true.
Proof.
  intros d0 n0 E.
  destruct d0 as [|c0 d0]; cbn in E; [inversion E; subst; vm_compute; reflexivity|].
  destruct d0 as [|c1 d0]; cbn in E; [inversion E|].
  destruct d0 as [|c2 d0]; cbn in E; [inversion E; subst; vm_compute; reflexivity|].
  destruct d0 as [|c3 d0]; cbn in E; [inversion E|].
  destruct d0 as [|c4 d0]; cbn in E; [inversion E|].
  destruct d0 as [|c5 d0]; cbn in E; [inversion E|].
  destruct d0 as [|c6 d0]; cbn in E; [inversion E|].
  destruct d0 as [|c7 d0]; cbn in E; [inversion E|].
  destruct d0 as [|c8 d0]; cbn in E; inversion E.
Qed.

Lemma ex_tree_at_faithful_lemma : tree_view_faithful ex_tree_at.
Proof.
  intros f1 f2 d name Hn [Hag [Hd1 Hd2]] p. unfold ex_tree_at.
  destruct (String.eqb p "/w"); cbn [opt_rel]; [|exact I].
  assert (f1 "/w/a.sol"%string = f2 "/w/a.sol"%string) as Ea.
  { apply Hag. intro H. rewrite (a_sol_is_eligible_name d name H) in Hn. discriminate. }
  rewrite Ea.
  set (l1 := match f2 "/w/a.sol"%string with Some (FileN c) => [EFile "a.sol" (Some c)] | _ => [] end).
  destruct (string_dec "/w/solstat_report.md" (d ++ "/" ++ name)) as [E | NE].
  - (* the one path at which the two file systems may differ: a file or nothing in both *)
    unfold is_dir in Hd1, Hd2. rewrite <- E in Hd1, Hd2.
    assert (forall c, inert_ins l1 (l1 ++ [EFile "solstat_report.md" (Some c)])) as Hins.
    { intros c. pose proof (inert_here "solstat_report.md" (Some c) l1 [] report_not_eligible) as H.
      rewrite app_nil_r in H. exact H. }
    destruct (f1 "/w/solstat_report.md"%string) as [[c1|]|]; [ | discriminate | ];
      (destruct (f2 "/w/solstat_report.md"%string) as [[c2|]|]; [ | discriminate | ]).
    + eapply inert_trans; [apply inert_del, Hins | apply inert_add, Hins].
    + rewrite app_nil_r. apply inert_del, Hins.
    + rewrite app_nil_r. apply inert_add, Hins.
    + apply inert_refl.
  - rewrite (Hag _ NE). apply inert_refl.
Qed.

Lemma ex_tree_sees_old_report_lemma :
  ex_tree_at (ex_fs (Some "old report")) "/w" =
  Some [EFile "a.sol" (Some "contract A {}"); EFile "solstat_report.md" (Some "old report")].
Proof. vm_compute. reflexivity. Qed.
