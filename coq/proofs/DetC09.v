(* C09: version-gated detectors - closed forms in terms of the version the model extracts. *)
From Coq Require Import List String Ascii NArith ZArith Bool Lia.
Import ListNotations.
From Solstat Require Import Lift Pt Walk Res Nodes Utils Detectors WalkProof Patterns Patterns2 DetBase DetC05 StructLemmas DetC07 DetC06.
Local Open Scope string_scope.
Local Open Scope list_scope.

(* ---------------------------------------------------------------- the version of a file *)
Definition model_version (su : SourceUnit) : option version :=
  match su with Mk_SourceUnit parts =>
    match first_solidity_pragma parts with
    | Some s => version_of_string s
    | None => None end end.

Lemma first_solidity_pragma_filter parts :
  first_solidity_pragma (filter is_pragma_part parts) = first_solidity_pragma parts.
Proof.
  induction parts as [|p ps IH]; [reflexivity|].
  destruct p; cbn [filter is_pragma_part first_solidity_pragma]; try exact IH.
  rewrite IH. reflexivity.
Qed.

Theorem version_closed su :
  get_solidity_version_from_source_unit su = Ok (model_version su).
Proof.
  unfold get_solidity_version_from_source_unit, model_version.
  rewrite pragma_nodes_closed. destruct su as [parts]. rewrite unwrap_sup_list. cbn [bind].
  rewrite first_solidity_pragma_filter. reflexivity.
Qed.

(* the pragmas of other kinds do not matter, wherever they stand *)
Lemma first_solidity_pragma_spec parts l n s :
  filter (fun p => match p with (_, n, _) => String.eqb n "solidity" end) (pragmas (Mk_SourceUnit parts)) = [(l, n, s)] ->
  first_solidity_pragma parts = Some s.
Proof.
  unfold pragmas. induction parts as [|p ps IH]; [discriminate|].
  destruct p as [?|pl pid plit|?|?|?|?|?|?|?|?|?|?]; cbn [flat_map app]; try exact IH.
  cbn [filter first_solidity_pragma]. unfold name_of, idname.
  destruct (Identifier_name pid =? "solidity").
  - intros H. inversion H. reflexivity.
  - exact IH.
Qed.

(* ---------------------------------------------------------------- SafeMath *)
Lemma cp_using_nodes ps :
  filter (ksel Target_Using) (map N_ContractPart ps) =
  map N_ContractPart (filter (fun q => match q with ContractPart_Using _ => true | _ => false end) ps).
Proof. induction ps as [|q qs IH]; [reflexivity|]. destruct q; cbn; rewrite IH; reflexivity. Qed.

Lemma using_safemath_eq u : using_is_safemath u = sp_using_safemath u.
Proof. reflexivity. Qed.

Theorem check_if_using_safe_math_closed su : check_if_using_safe_math su = uses_safemath su.
Proof.
  unfold check_if_using_safe_math, uses_safemath, root.
  rewrite extract_ksel, filter_pre_skeleton by apply es_free_Using.
  destruct su as [parts]. unfold skeleton. cbn [filter].
  change (ksel Target_Using (N_SourceUnit (Mk_SourceUnit parts))) with false. cbn iota.
  rewrite filter_flat_map.
  induction parts as [|p ps IH]; [reflexivity|].
  cbn [flat_map existsb]. rewrite existsb_app, IH. f_equal. clear IH.
  unfold skeleton_part. cbn [filter].
  destruct p as [c|? ? ?|?|?|?|?|?|?|?|?|u|?]; try reflexivity.
  - change (ksel Target_Using (N_SourceUnitPart (SourceUnitPart_ContractDefinition c))) with false. cbn iota.
    rewrite cp_using_nodes.
    induction (ContractDefinition_parts c) as [|q qs IH]; [reflexivity|].
    destruct q; cbn [filter map existsb]; rewrite ?IH; try reflexivity.
  - cbn. rewrite orb_false_r. reflexivity.
Qed.

Theorem safe_math_sites_closed su :
  parse_contract_for_safe_math_functions su = Ok (safemath_sites su).
Proof.
  unfold parse_contract_for_safe_math_functions, safemath_sites, all_exprs, all_nodes, root.
  rewrite each_expr_extract1; [|reflexivity|kind_irrelevant]. reflexivity.
Qed.

Definition gated (cond : bool) (ls : list Loc) : list Loc := if cond then ls else [].

Theorem safe_math_closed su pre_080 :
  safe_math_optimization su pre_080 =
  Ok (match model_version su with
      | None => []
      | Some v => gated (((pre_080 && version_lt v v080) || (negb pre_080 && version_ge v v080)) && uses_safemath su)
                        (safemath_sites su)
      end).
Proof.
  unfold safe_math_optimization. rewrite version_closed. cbn [bind].
  destruct (model_version su) as [v|]; [|reflexivity].
  rewrite check_if_using_safe_math_closed, safe_math_sites_closed. unfold gated.
  destruct ((pre_080 && version_lt v v080) || (negb pre_080 && version_ge v v080)); cbn [andb]; [|reflexivity].
  destruct (uses_safemath su); reflexivity.
Qed.

(* ---------------------------------------------------------------- require strings *)
Lemma last_map_some {A} (l : list A) : last (map Some l) None = hd_error (rev l).
Proof.
  induction l as [|x l IH]; [reflexivity|].
  cbn [map rev]. destruct l as [|y l'].
  - reflexivity.
  - change (last (Some x :: map Some (y :: l')) None) with (last (map Some (y :: l')) None).
    rewrite IH. cbn [rev]. destruct (rev l' ++ [y]) eqn:E.
    + destruct (rev l'); discriminate E.
    + reflexivity.
Qed.

Lemma require_string_spec e :
  sp_require_string e =
  match require_last_string e with Some (p :: _) => Some p | _ => None end.
Proof.
  destruct e; try reflexivity.
  match goal with |- context [Expression_FunctionCall _ ?c _] => destruct c; try reflexivity end.
  unfold sp_require_string, require_last_string, name_of, idname.
  match goal with |- context [String.eqb ?a ?b] => destruct (String.eqb a b); [|reflexivity] end.
  rewrite last_map_some.
  match goal with |- context [rev ?l] => destruct (rev l) as [|x r]; [reflexivity|] end.
  cbn [hd_error]. destruct x; try reflexivity.
Qed.

(* no `require(.., <string literal with zero parts>)`: holds for every parser output
   (the grammar production is StringLiteral+); evaluated on every parsed tree by the checks *)
Definition wf_require_strings (su : SourceUnit) : bool :=
  forallb (fun e => match require_last_string e with Some [] => false | _ => true end) (all_exprs su).

Definition string_errors_of (e : Expression) : list Loc :=
  match sp_require_string e with Some p => [StringLiteral_loc p] | None => [] end.

Lemma map_require_strings su :
  map StringLiteral_loc (require_strings su) = flat_map string_errors_of (all_exprs su).
Proof.
  unfold require_strings, string_errors_of. induction (all_exprs su) as [|e es IH]; [reflexivity|].
  cbn [flat_map]. rewrite map_app, IH. destruct (sp_require_string e); reflexivity.
Qed.

Lemma string_error_loop ns :
  Forall (fun n => is_expr_node n = true) ns ->
  forallb (fun e => match require_last_string e with Some [] => false | _ => true end) (exprs_in ns) = true ->
  mapM (fun n => do e <- unwrap "node.expression().unwrap()" (node_expression n) ;;
                 match require_last_string e with
                 | Some (lit :: _) => Ok [StringLiteral_loc lit]
                 | Some [] => Panic "vec_string_literal[0]"
                 | None => Ok []
                 end) ns = Ok (map string_errors_of (exprs_in ns)).
Proof.
  induction 1 as [|n ns Hn Hns IH]; intros Hwf; [reflexivity|].
  destruct n; try discriminate Hn. cbn [exprs_in flat_map app] in Hwf. fold (exprs_in ns) in Hwf.
  cbn [forallb] in Hwf. apply andb_prop in Hwf. destruct Hwf as [Hx Hrest].
  cbn [mapM node_expression unwrap bind]. rewrite (IH Hrest).
  cbn [exprs_in flat_map app map]. fold (exprs_in ns).
  replace (string_errors_of x) with (match require_last_string x with Some (p :: _) => [StringLiteral_loc p] | _ => [] end)
    by (unfold string_errors_of; rewrite require_string_spec; destruct (require_last_string x) as [[|p ps]|]; reflexivity).
  destruct (require_last_string x) as [[|p ps]|]; try reflexivity. discriminate Hx.
Qed.

Theorem string_errors_closed su :
  wf_require_strings su = true ->
  string_error_optimization su =
  Ok (match model_version su with
      | None => []
      | Some v => gated (version_ge v v084) (map StringLiteral_loc (require_strings su))
      end).
Proof.
  intros Hwf. unfold string_error_optimization. rewrite version_closed. cbn [bind].
  destruct (model_version su) as [v|]; [|reflexivity]. unfold gated.
  destruct (version_ge v v084); [|reflexivity].
  rewrite extract_single_as_multi, extract_multi_lemma.
  change (fun m => existsb (Target_eqb (kind_of m)) [Target_FunctionCall]) with (tsel [Target_FunctionCall]).
  rewrite string_error_loop.
  - cbn [rmap]. f_equal. rewrite flat_map_concat_map. rewrite exprs_in_filter.
    rewrite map_require_strings. unfold all_exprs, all_nodes, root.
    apply flat_map_filter_irrelevant. intros e He. destruct e; try reflexivity. cbn in He. discriminate He.
  - apply tsel_expr_nodes. reflexivity.
  - rewrite exprs_in_filter. unfold wf_require_strings, all_exprs, all_nodes in Hwf.
    rewrite forallb_forall in Hwf. apply forallb_forall. intros e He. apply filter_In in He. apply Hwf. exact (proj1 He).
Qed.

Definition short_revert_of (e : Expression) : list Loc :=
  match sp_require_string e with
  | Some p => if (32 <=? sp_len (StringLiteral_string p))%N then [StringLiteral_loc p] else []
  | None => [] end.

Theorem short_revert_closed su :
  short_revert_string_optimization su =
  Ok (match model_version su with
      | None => []
      | Some v => gated (version_lt v v084)
                        (map StringLiteral_loc (filter (fun p => (32 <=? sp_len (StringLiteral_string p))%N) (require_strings su)))
      end).
Proof.
  unfold short_revert_string_optimization. rewrite version_closed. cbn [bind].
  destruct (model_version su) as [v|]; [|reflexivity]. unfold gated, version_lt.
  destruct (version_ge v v084); [reflexivity|]. cbn [negb].
  rewrite each_expr_extract1; [|reflexivity|].
  - f_equal. unfold require_strings. fold (all_nodes su). fold (all_exprs su).
    change (pre (root su)) with (all_nodes su). fold (all_exprs su).
    induction (all_exprs su) as [|e es IH]; [reflexivity|].
    cbn [flat_map]. rewrite filter_app, map_app, <- IH. f_equal.
    rewrite require_string_spec.
    destruct (require_last_string e) as [[|p ps]|]; try reflexivity.
    cbn [filter]. unfold strlen, sp_len. destruct (32 <=? N.of_nat (String.length (StringLiteral_string p)))%N; reflexivity.
  - intros e He. destruct e; try reflexivity. cbn in He. discriminate He.
Qed.
