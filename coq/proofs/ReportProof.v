(* C11 / C12: the three report generators of model/Report.v against the reader of
   spec/ReportReader.v.  The finite side conditions on the CURRENT section texts
   (gen/Sections.v) are decided here by vm_compute: a changed text that would confuse the
   reader makes this file fail to compile. *)
From Coq Require Import List String Ascii NArith ZArith Bool Lia Permutation.
Import ListNotations.
From Solstat Require Import Bytes Tables Sections Report ReportReader ReportSort ReportSet ReportLines
     ReportReaderProof ReportCategory ReportFinite.
Local Open Scope list_scope.
Local Open Scope string_scope.

(* ------------------------------------------------------------------ overviews with a total *)
Definition ovw_lines (pre s0 : string) (mid : list string) (n : N) : list string :=
  (pre ++ usize_to_string n ++ s0) :: mid.

Lemma ovw_unlines : forall pre suffix s0 mid n, suffix = s0 ++ nl ++ unlines mid ->
  pre ++ usize_to_string n ++ suffix = unlines (ovw_lines pre s0 mid n).
Proof.
  intros pre suffix s0 mid n H; unfold ovw_lines; rewrite unlines_cons, H, !sapp_assoc; reflexivity.
Qed.

Lemma forallb_no_lf : forall ls, forallb no_lfb ls = true -> all_no_lf ls.
Proof. intros ls H; unfold all_no_lf; rewrite Forall_forall; rewrite forallb_forall in H; exact H. Qed.

Lemma ovw_no_lf : forall pre s0 mid n, no_lfb pre = true -> no_lfb s0 = true -> forallb no_lfb mid = true ->
  all_no_lf (ovw_lines pre s0 mid n).
Proof.
  intros pre s0 mid n H1 H2 H3; unfold ovw_lines; constructor; [|apply forallb_no_lf; exact H3].
  rewrite !no_lfb_app, H1, H2, (digits_no_lf _ (usize_to_string_digits n)); reflexivity.
Qed.

Lemma printed_total_first : forall pre s0 n rest report,
  take_digits s0 = "" -> split_lines report = (pre ++ usize_to_string n ++ s0) :: rest ->
  printed_total pre report = Some n.
Proof.
  intros pre s0 n rest report Hs0 Hsplit; unfold printed_total; rewrite Hsplit; cbn [flat_map].
  rewrite strip_prefix_app; cbn [List.app].
  rewrite (take_digits_app _ _ (usize_to_string_digits n) Hs0); apply parse_nat_usize.
Qed.

Section OverviewBlock.
  Variable P : Type.
  Variable idx : P -> N.
  Variable all : list P.
  Hypothesis all_complete : forall p, In p all.
  Variable keys : list (string * P).
  Variable headings : list string.
  Variable sec : P -> string.

  Lemma ovw_plain : forall pre s0 mid n,
    prefix_okb P all keys headings sec pre = true -> plain_lines_okb P all keys headings sec mid = true ->
    forallb (plain_ok P keys headings) (ovw_lines pre s0 mid n) = true /\
    (forall p, ~ In (key P sec p) (ovw_lines pre s0 mid n)) /\
    scan P keys headings (None, None) (ovw_lines pre s0 mid n) = scan P keys headings (None, None) mid /\
    (forall h, In h headings -> In h (ovw_lines pre s0 mid n) -> In h mid).
  Proof.
    intros pre s0 mid n Hpre Hmid; unfold ovw_lines.
    destruct (prefix_facts P all all_complete keys headings sec pre (usize_to_string n ++ s0) Hpre) as [A [B [C D]]].
    destruct (plain_lines_facts P all all_complete keys headings sec mid Hmid) as [E F].
    repeat split.
    - cbn [forallb]; rewrite A, E; reflexivity.
    - intros p [Hp|Hp]; [apply (C p); symmetry; exact Hp | exact (F p Hp)].
    - unfold scan; cbn [fold_left]; rewrite B; reflexivity.
    - intros h Hh [Hin|Hin]; [exfalso; apply (D h Hh); symmetry; exact Hin | exact Hin].
  Qed.
End OverviewBlock.

Lemma append_nonempty : forall a b : string, a ++ b = "" -> a = "" /\ b = "".
Proof. intros [|c a] b H; [split; [reflexivity | exact H] | discriminate H]. Qed.

Lemma completed_section_nonempty : forall t v, completed_report_section t v <> "".
Proof.
  intros t v H; unfold completed_report_section in H.
  apply append_nonempty in H; destruct H as [_ H]; discriminate H.
Qed.

(* ================================================================== optimizations *)
Definition opt_items (F : findings Optimization) := rendered_items Optimization_idx F.

Definition doc_opt (F : findings Optimization) : list (block Optimization) :=
  BPlain (ovw_lines opt_overview_prefix opt_s0 opt_mid (total_entries (opt_items F))) ::
  sec_blocks optimization_section (opt_items F).

Lemma doc_lines_cons_plain : forall (P : Type) ls (bs : list (block P)),
  doc_lines (BPlain ls :: bs) = (ls ++ doc_lines bs)%list.
Proof. reflexivity. Qed.

Lemma opt_report_unlines : forall F, generate_optimization_report F = unlines (doc_lines (doc_opt F)).
Proof.
  intro F; unfold generate_optimization_report, opt_overview, doc_opt; fold (opt_items F).
  rewrite doc_lines_cons_plain, unlines_app, <- sec_blocks_unlines, sapp_assoc, sapp_assoc.
  rewrite <- (ovw_unlines _ _ _ _ _ opt_suffix_eq), !sapp_assoc; reflexivity.
Qed.

Lemma opt_shape : forall F, shape Optimization opt_keys [] optimization_section (doc_opt F) (opt_items F).
Proof.
  intro F; destruct opt_ovw_finite as [_ [_ [_ [_ [Hpre [Hmid _]]]]]].
  destruct (ovw_plain Optimization Optimization_all Optimization_all_complete opt_keys [] optimization_section
              opt_overview_prefix opt_s0 opt_mid (total_entries (opt_items F)) Hpre Hmid) as [A [B _]].
  unfold doc_opt; apply shape_cons_plain; [exact A | exact B | apply shape_sec_blocks].
Qed.

Lemma opt_no_lf : forall F, items_no_lf F -> all_no_lf (doc_lines (doc_opt F)).
Proof.
  intros F H; unfold doc_opt; rewrite doc_lines_cons_plain; apply Forall_app; split.
  - destruct opt_ovw_finite as [A [B [C _]]]; apply ovw_no_lf; assumption.
  - apply sec_blocks_no_lf, rendered_items_no_lf; exact H.
Qed.

Definition opt_base := base_facts Optimization Optimization_idx Optimization_all opt_keys [] optimization_section opt_cat_ok.

Theorem opt_roundtrip : forall F, items_no_lf F ->
  read_optimization_report (generate_optimization_report F) = tag_items None (opt_items F).
Proof.
  intros F Hlf; rewrite opt_report_unlines; unfold read_optimization_report.
  destruct opt_base as [B1 [B2 [B3 B4]]].
  rewrite (read_doc Optimization opt_keys [] B1 B2 B3 B4).
  - unfold doc_opt; cbn [doc_out].
    destruct opt_ovw_finite as [_ [_ [_ [_ [Hpre [Hmid Hscan]]]]]].
    destruct (ovw_plain Optimization Optimization_all Optimization_all_complete opt_keys [] optimization_section
                opt_overview_prefix opt_s0 opt_mid (total_entries (opt_items F)) Hpre Hmid) as [_ [_ [E _]]].
    rewrite E, Hscan; cbn [over].
    rewrite <- (app_nil_r (sec_blocks optimization_section (opt_items F))), doc_out_sec_blocks.
    cbn [doc_out]; apply app_nil_r.
  - apply (shape_ok Optimization Optimization_idx Optimization_all Optimization_all_complete Optimization_idx_inj
             opt_keys [] optimization_section opt_cat_ok _ _ (opt_shape F)).
  - apply opt_no_lf; exact Hlf.
Qed.

Lemma opt_lines : forall F, items_no_lf F ->
  split_lines (generate_optimization_report F) = (doc_lines (doc_opt F) ++ [""])%list.
Proof. intros F H; rewrite opt_report_unlines; apply split_unlines_end, opt_no_lf; exact H. Qed.

Theorem opt_section_iff : forall F p, items_no_lf F ->
  (In (key_line (optimization_section p)) (split_lines (generate_optimization_report F)) <->
   exists v, In (p, v) F /\ v <> []).
Proof.
  intros F p H; rewrite (opt_lines F H).
  rewrite (shape_key_iff Optimization Optimization_idx Optimization_all Optimization_all_complete Optimization_idx_inj
             opt_keys [] optimization_section opt_cat_ok _ _ p (opt_shape F)).
  unfold opt_items; split.
  - intros [w Hin]; apply in_rendered_items in Hin; destruct Hin as [v [Hin [Hne _]]]; exists v; tauto.
  - intros [v [Hin Hne]]; exists (isort entry_leb v); apply in_rendered_items; exists v; tauto.
Qed.

Theorem opt_total : forall F, items_no_lf F ->
  printed_total opt_overview_prefix (generate_optimization_report F) =
  Some (N.of_nat (List.length (read_optimization_report (generate_optimization_report F)))).
Proof.
  intros F H; rewrite (opt_roundtrip F H), tag_items_length, <- total_entries_length.
  destruct opt_ovw_finite as [_ [_ [_ [Hd _]]]].
  eapply printed_total_first; [exact Hd|].
  rewrite (opt_lines F H); unfold doc_opt; rewrite doc_lines_cons_plain; unfold ovw_lines; reflexivity.
Qed.

(* ================================================================== quality assurance *)
Definition qa_items (F : findings QualityAssurance) := rendered_items QualityAssurance_idx F.

Definition doc_qa (F : findings QualityAssurance) : list (block QualityAssurance) :=
  BPlain qa_ovw :: sec_blocks qa_section (qa_items F).

Lemma qa_report_unlines : forall F, generate_qa_report F = unlines (doc_lines (doc_qa F)).
Proof.
  intro F; unfold generate_qa_report, doc_qa; fold (qa_items F).
  rewrite doc_lines_cons_plain, unlines_app, <- sec_blocks_unlines, unlines_split; reflexivity.
Qed.

Lemma qa_shape : forall F, shape QualityAssurance qa_keys [] qa_section (doc_qa F) (qa_items F).
Proof.
  intro F; destruct qa_ovw_finite as [Hmid _].
  destruct (plain_lines_facts QualityAssurance QualityAssurance_all QualityAssurance_all_complete qa_keys [] qa_section
              qa_ovw Hmid) as [A B].
  unfold doc_qa; apply shape_cons_plain; [exact A | exact B | apply shape_sec_blocks].
Qed.

Lemma qa_no_lf : forall F, items_no_lf F -> all_no_lf (doc_lines (doc_qa F)).
Proof.
  intros F H; unfold doc_qa; rewrite doc_lines_cons_plain; apply Forall_app; split.
  - apply split_lines_no_lf.
  - apply sec_blocks_no_lf, rendered_items_no_lf; exact H.
Qed.

Definition qa_base := base_facts QualityAssurance QualityAssurance_idx QualityAssurance_all qa_keys [] qa_section qa_cat_ok.

Theorem qa_roundtrip : forall F, items_no_lf F ->
  read_qa_report (generate_qa_report F) = tag_items None (qa_items F).
Proof.
  intros F Hlf; rewrite qa_report_unlines; unfold read_qa_report.
  destruct qa_base as [B1 [B2 [B3 B4]]].
  rewrite (read_doc QualityAssurance qa_keys [] B1 B2 B3 B4).
  - unfold doc_qa; cbn [doc_out].
    destruct qa_ovw_finite as [_ Hscan]; rewrite Hscan; cbn [over].
    rewrite <- (app_nil_r (sec_blocks qa_section (qa_items F))), doc_out_sec_blocks.
    cbn [doc_out]; apply app_nil_r.
  - apply (shape_ok QualityAssurance QualityAssurance_idx QualityAssurance_all QualityAssurance_all_complete
             QualityAssurance_idx_inj qa_keys [] qa_section qa_cat_ok _ _ (qa_shape F)).
  - apply qa_no_lf; exact Hlf.
Qed.

Lemma qa_lines : forall F, items_no_lf F ->
  split_lines (generate_qa_report F) = (doc_lines (doc_qa F) ++ [""])%list.
Proof. intros F H; rewrite qa_report_unlines; apply split_unlines_end, qa_no_lf; exact H. Qed.

Theorem qa_section_iff : forall F p, items_no_lf F ->
  (In (key_line (qa_section p)) (split_lines (generate_qa_report F)) <-> exists v, In (p, v) F /\ v <> []).
Proof.
  intros F p H; rewrite (qa_lines F H).
  rewrite (shape_key_iff QualityAssurance QualityAssurance_idx QualityAssurance_all QualityAssurance_all_complete
             QualityAssurance_idx_inj qa_keys [] qa_section qa_cat_ok _ _ p (qa_shape F)).
  unfold qa_items; split.
  - intros [w Hin]; apply in_rendered_items in Hin; destruct Hin as [v [Hin [Hne _]]]; exists v; tauto.
  - intros [v [Hin Hne]]; exists (isort entry_leb v); apply in_rendered_items; exists v; tauto.
Qed.

(* ================================================================== vulnerabilities *)
Definition vul_items (F : findings Vulnerability) := rendered_items Vulnerability_idx F.

Definition of_severity (s : VulnerabilitySeverity) (items : findings Vulnerability) : findings Vulnerability :=
  filter (fun kv => VulnerabilitySeverity_eqb (vul_severity (fst kv)) s) items.

Definition group (s : VulnerabilitySeverity) (items : findings Vulnerability) : list (block Vulnerability) :=
  match of_severity s items with
  | [] => []
  | its => BPlain [heading_of s] :: sec_blocks vulnerability_section its
  end.

Definition doc_vul (F : findings Vulnerability) : list (block Vulnerability) :=
  BPlain (ovw_lines vul_overview_prefix vul_s0 vul_mid (total_entries (vul_items F))) ::
  (group Sev_High (vul_items F) ++ group Sev_Medium (vul_items F) ++ group Sev_Low (vul_items F))%list.

Lemma emit_buffer_unlines : forall s items, emit_buffer s items = unlines (doc_lines (group s items)).
Proof.
  intros s items; unfold emit_buffer, severity_buffer, group; fold (of_severity s items).
  destruct (of_severity s items) as [|kv its] eqn:E.
  - cbn [map sconcat fold_right]; rewrite sapp_nil_r, String.eqb_refl; reflexivity.
  - destruct (String.eqb _ _) eqn:Heq.
    + apply String.eqb_eq, sapp_inv_nil in Heq; cbn [map] in Heq; rewrite sconcat_cons in Heq.
      apply append_nonempty in Heq; destruct Heq as [Heq _]; exfalso; exact (completed_section_nonempty _ _ Heq).
    + rewrite doc_lines_cons_plain, unlines_app, <- sec_blocks_unlines.
      destruct (vul_heading_finite s) as [Hh _]; rewrite Hh; reflexivity.
Qed.

Lemma doc_lines_app : forall (P : Type) (a b : list (block P)), doc_lines (a ++ b)%list = (doc_lines a ++ doc_lines b)%list.
Proof. intros; unfold doc_lines; apply flat_map_app. Qed.

Lemma vul_report_unlines : forall F, generate_vulnerability_report F = unlines (doc_lines (doc_vul F)).
Proof.
  intro F; unfold generate_vulnerability_report, vul_overview, doc_vul; fold (vul_items F).
  rewrite doc_lines_cons_plain, !doc_lines_app, !unlines_app, <- !emit_buffer_unlines.
  rewrite <- (ovw_unlines _ _ _ _ _ vul_suffix_eq), !sapp_assoc; reflexivity.
Qed.

Lemma group_shape : forall s items,
  shape Vulnerability vul_keys vul_headings vulnerability_section (group s items) (of_severity s items).
Proof.
  intros s items; unfold group; destruct (of_severity s items) as [|kv its] eqn:E.
  - split; [intros b [] | intros q v []].
  - destruct (vul_heading_finite s) as [_ [Hp _]].
    destruct (plain_lines_facts Vulnerability Vulnerability_all Vulnerability_all_complete vul_keys vul_headings
                vulnerability_section _ Hp) as [A B].
    apply shape_cons_plain; [exact A | exact B | apply shape_sec_blocks].
Qed.

Definition by_severity (items : findings Vulnerability) : findings Vulnerability :=
  (of_severity Sev_High items ++ of_severity Sev_Medium items ++ of_severity Sev_Low items)%list.

Lemma vul_shape : forall F,
  shape Vulnerability vul_keys vul_headings vulnerability_section (doc_vul F) (by_severity (vul_items F)).
Proof.
  intro F; destruct vul_ovw_finite as [_ [_ [_ [_ [Hpre [Hmid _]]]]]].
  destruct (ovw_plain Vulnerability Vulnerability_all Vulnerability_all_complete vul_keys vul_headings vulnerability_section
              vul_overview_prefix vul_s0 vul_mid (total_entries (vul_items F)) Hpre Hmid) as [A [B _]].
  unfold doc_vul, by_severity.
  apply shape_cons_plain; [exact A | exact B |].
  apply shape_app; [apply group_shape|]. apply shape_app; apply group_shape.
Qed.

Lemma by_severity_perm : forall items, Permutation (by_severity items) items.
Proof.
  intro items; unfold by_severity, of_severity; induction items as [|kv items IH]; [apply perm_nil|].
  cbn [filter]; destruct (vul_severity (fst kv)); cbn [VulnerabilitySeverity_eqb VulnerabilitySeverity_idx N.eqb Pos.eqb].
  - cbn [List.app]; apply perm_skip; exact IH.
  - eapply perm_trans; [apply Permutation_sym, Permutation_middle | apply perm_skip; exact IH].
  - rewrite app_assoc; eapply perm_trans; [apply Permutation_sym, Permutation_middle|].
    apply perm_skip; rewrite <- app_assoc; exact IH.
Qed.

Lemma in_by_severity : forall items x, In x (by_severity items) <-> In x items.
Proof.
  intros items x; split; apply Permutation_in; [apply by_severity_perm | apply Permutation_sym, by_severity_perm].
Qed.

Lemma vul_no_lf : forall F, items_no_lf F -> all_no_lf (doc_lines (doc_vul F)).
Proof.
  intros F H; unfold doc_vul; rewrite doc_lines_cons_plain; apply Forall_app; split.
  - destruct vul_ovw_finite as [A [B [C _]]]; apply ovw_no_lf; assumption.
  - pose proof (rendered_items_no_lf _ Vulnerability_idx F H) as Hit; fold (vul_items F) in Hit.
    assert (G : forall s, all_no_lf (doc_lines (group s (vul_items F)))).
    { intro s; unfold group; destruct (of_severity s (vul_items F)) as [|kv its] eqn:E; [constructor|].
      rewrite doc_lines_cons_plain; apply Forall_app; split.
      - destruct s; repeat constructor.
      - apply sec_blocks_no_lf; rewrite <- E; unfold of_severity, items_no_lf in *.
        rewrite Forall_forall in *; intros x Hx; apply filter_In in Hx; apply Hit; tauto. }
    rewrite !doc_lines_app; unfold all_no_lf; rewrite !Forall_app; repeat split; apply G.
Qed.

Definition vul_base := base_facts Vulnerability Vulnerability_idx Vulnerability_all vul_keys vul_headings vulnerability_section vul_cat_ok.

Lemma doc_out_group : forall s items hd rest, exists hd',
  doc_out Vulnerability vul_keys vul_headings hd (group s items ++ rest)%list =
  (tag_items (Some (heading_of s)) (of_severity s items) ++ doc_out Vulnerability vul_keys vul_headings hd' rest)%list.
Proof.
  intros s items hd rest; unfold group; destruct (of_severity s items) as [|kv its] eqn:E.
  - exists hd; reflexivity.
  - exists (Some (heading_of s)).
    cbn [List.app doc_out].
    destruct (vul_heading_finite s) as [_ [_ [Hs _]]]; rewrite Hs; cbn [over].
    apply doc_out_sec_blocks.
Qed.

(* what reading a vulnerability report returns: the sections grouped by severity, each entry
   under the heading of its severity *)
Definition vul_expected (F : findings Vulnerability) : list (option string * Vulnerability * string * Z) :=
  (tag_items (Some (heading_of Sev_High)) (of_severity Sev_High (vul_items F)) ++
   tag_items (Some (heading_of Sev_Medium)) (of_severity Sev_Medium (vul_items F)) ++
   tag_items (Some (heading_of Sev_Low)) (of_severity Sev_Low (vul_items F)))%list.

Theorem vul_roundtrip : forall F, items_no_lf F ->
  read_vulnerability_report (generate_vulnerability_report F) = vul_expected F.
Proof.
  intros F Hlf; rewrite vul_report_unlines; unfold read_vulnerability_report.
  destruct vul_base as [B1 [B2 [B3 B4]]].
  rewrite (read_doc Vulnerability vul_keys vul_headings B1 B2 B3 B4).
  - unfold doc_vul; cbn [doc_out].
    destruct vul_ovw_finite as [_ [_ [_ [_ [Hpre [Hmid [Hscan _]]]]]]].
    destruct (ovw_plain Vulnerability Vulnerability_all Vulnerability_all_complete vul_keys vul_headings vulnerability_section
                vul_overview_prefix vul_s0 vul_mid (total_entries (vul_items F)) Hpre Hmid) as [_ [_ [E _]]].
    rewrite E, Hscan; cbn [over].
    destruct (doc_out_group Sev_High (vul_items F) None
                (group Sev_Medium (vul_items F) ++ group Sev_Low (vul_items F))%list) as [h1 E1]; rewrite E1.
    destruct (doc_out_group Sev_Medium (vul_items F) h1 (group Sev_Low (vul_items F))) as [h2 E2]; rewrite E2.
    rewrite <- (app_nil_r (group Sev_Low (vul_items F))).
    destruct (doc_out_group Sev_Low (vul_items F) h2 []) as [h3 E3]; rewrite E3.
    cbn [doc_out]; rewrite app_nil_r; reflexivity.
  - apply (shape_ok Vulnerability Vulnerability_idx Vulnerability_all Vulnerability_all_complete Vulnerability_idx_inj
             vul_keys vul_headings vulnerability_section vul_cat_ok _ _ (vul_shape F)).
  - apply vul_no_lf; exact Hlf.
Qed.

Lemma vul_expected_triples : forall F, map drop_heading (vul_expected F) = triples (by_severity (vul_items F)).
Proof.
  intro F; unfold vul_expected, by_severity, triples at 1.
  rewrite !map_app; unfold entry; rewrite !drop_heading_tag_items, !flat_map_app; reflexivity.
Qed.

Lemma vul_lines : forall F, items_no_lf F ->
  split_lines (generate_vulnerability_report F) = (doc_lines (doc_vul F) ++ [""])%list.
Proof. intros F H; rewrite vul_report_unlines; apply split_unlines_end, vul_no_lf; exact H. Qed.

Theorem vul_section_iff : forall F p, items_no_lf F ->
  (In (key_line (vulnerability_section p)) (split_lines (generate_vulnerability_report F)) <->
   exists v, In (p, v) F /\ v <> []).
Proof.
  intros F p H; rewrite (vul_lines F H).
  rewrite (shape_key_iff Vulnerability Vulnerability_idx Vulnerability_all Vulnerability_all_complete Vulnerability_idx_inj
             vul_keys vul_headings vulnerability_section vul_cat_ok _ _ p (vul_shape F)).
  unfold vul_items; split.
  - intros [w Hin]; apply in_by_severity, in_rendered_items in Hin; destruct Hin as [v [Hin [Hne _]]]; exists v; tauto.
  - intros [v [Hin Hne]]; exists (isort entry_leb v); apply in_by_severity, in_rendered_items; exists v; tauto.
Qed.

Lemma triples_perm : forall (P : Type) (a b : findings P), Permutation a b -> Permutation (triples a) (triples b).
Proof. intros P a b H; unfold triples; apply Permutation_flat_map; exact H. Qed.

Theorem vul_total : forall F, items_no_lf F ->
  printed_total vul_overview_prefix (generate_vulnerability_report F) =
  Some (N.of_nat (List.length (read_vulnerability_report (generate_vulnerability_report F)))).
Proof.
  intros F H; rewrite (vul_roundtrip F H).
  rewrite <- (map_length drop_heading), vul_expected_triples.
  rewrite (Permutation_length (triples_perm _ _ _ (by_severity_perm (vul_items F)))).
  rewrite <- total_entries_length.
  destruct vul_ovw_finite as [_ [_ [_ [Hd _]]]].
  eapply printed_total_first; [exact Hd|].
  rewrite (vul_lines F H); unfold doc_vul; rewrite doc_lines_cons_plain; unfold ovw_lines; reflexivity.
Qed.

(* a severity heading is printed iff a pattern of that severity has a non-empty vector *)
Theorem vul_heading_iff : forall F s, items_no_lf F ->
  (In (heading_of s) (split_lines (generate_vulnerability_report F)) <->
   exists p v, In (p, v) F /\ v <> [] /\ vul_severity p = s).
Proof.
  intros F s H; rewrite (vul_lines F H).
  destruct (vul_heading_finite s) as [_ [_ [_ Hin_h]]].
  rewrite (shape_heading_iff Vulnerability Vulnerability_idx Vulnerability_all Vulnerability_all_complete
             vul_keys vul_headings vulnerability_section vul_cat_ok _ _ _ (vul_shape F) Hin_h).
  assert (G : forall s' ls, In (BPlain ls) (group s' (vul_items F)) ->
                            ls = [heading_of s'] /\ of_severity s' (vul_items F) <> []).
  { intros s' ls Hb; unfold group in Hb; destruct (of_severity s' (vul_items F)) as [|kv its] eqn:E; [destruct Hb|].
    destruct Hb as [Hb|Hb]; [injection Hb as Hb; split; [symmetry; exact Hb | discriminate]|].
    unfold sec_blocks in Hb; apply in_map_iff in Hb; destruct Hb as [x [Hx _]]; discriminate Hx. }
  assert (K : forall s', of_severity s' (vul_items F) <> [] -> exists p v, In (p, v) F /\ v <> [] /\ vul_severity p = s').
  { intros s' Hne; destruct (of_severity s' (vul_items F)) as [|[p w] its] eqn:E; [contradiction Hne; reflexivity|].
    assert (Hin : In (p, w) (of_severity s' (vul_items F))) by (rewrite E; left; reflexivity).
    unfold of_severity in Hin; apply filter_In in Hin; destruct Hin as [Hin Hs]; cbn [fst] in Hs.
    apply in_rendered_items in Hin; destruct Hin as [v [Hin [Hv _]]].
    exists p, v; repeat split; try assumption.
    apply VulnerabilitySeverity_eqb_eq; exact Hs. }
  split.
  - intros [ls [Hb Hl]]; unfold doc_vul in Hb; destruct Hb as [Hb|Hb].
    + injection Hb as Hb; subst ls; exfalso.
      destruct vul_ovw_finite as [_ [_ [_ [_ [Hpre [Hmid [_ Hnh]]]]]]].
      destruct (ovw_plain Vulnerability Vulnerability_all Vulnerability_all_complete vul_keys vul_headings vulnerability_section
                  vul_overview_prefix vul_s0 vul_mid (total_entries (vul_items F)) Hpre Hmid) as [_ [_ [_ D]]].
      specialize (D _ Hin_h Hl); rewrite forallb_forall in Hnh; specialize (Hnh _ Hin_h).
      apply existsb_eqb_in in D; rewrite D in Hnh; discriminate Hnh.
    + apply in_app_or in Hb; destruct Hb as [Hb|Hb]; [|apply in_app_or in Hb; destruct Hb as [Hb|Hb]];
        apply G in Hb; destruct Hb as [Hls Hne]; subst ls; destruct Hl as [Hl|[]];
        apply heading_of_inj in Hl; subst s; apply K; exact Hne.
  - intros [p [v [Hin [Hv Hs]]]].
    assert (Hne : of_severity s (vul_items F) <> []).
    { intro E. assert (Hx : In (p, isort entry_leb v) (of_severity s (vul_items F))).
      { unfold of_severity; apply filter_In; split.
        - apply in_rendered_items; exists v; tauto.
        - cbn [fst]; apply VulnerabilitySeverity_eqb_eq; exact Hs. }
      rewrite E in Hx; destruct Hx. }
    exists [heading_of s]; split; [|left; reflexivity].
    assert (Hg : In (BPlain [heading_of s]) (group s (vul_items F))).
    { unfold group; destruct (of_severity s (vul_items F)); [contradiction Hne; reflexivity | left; reflexivity]. }
    unfold doc_vul; right; destruct s; repeat (apply in_or_app; first [left; exact Hg | right]); exact Hg.
Qed.

(* every entry read lies under the heading of the severity of its pattern *)
Theorem vul_entries_under_own_heading : forall F, items_no_lf F ->
  Forall (fun e => let '(h, p, _, _) := e in h = Some (heading_of (vul_severity p)))
         (read_vulnerability_report (generate_vulnerability_report F)).
Proof.
  intros F H; rewrite (vul_roundtrip F H); unfold vul_expected.
  assert (G : forall s, Forall (fun e : option string * Vulnerability * string * Z =>
                                  let '(h, p, _, _) := e in h = Some (heading_of (vul_severity p)))
                               (tag_items (Some (heading_of s)) (of_severity s (vul_items F)))).
  { intro s; rewrite Forall_forall; intros [[[h p] f] z] Hin.
    unfold tag_items in Hin; apply in_flat_map in Hin; destruct Hin as [[q w] [Hq Hin]].
    unfold tag in Hin; cbn [fst snd] in Hin; apply in_flat_map in Hin; destruct Hin as [fl [_ Hin]].
    apply in_map_iff in Hin; destruct Hin as [z' [E _]]; injection E as <- <- _ _.
    unfold of_severity in Hq; apply filter_In in Hq; destruct Hq as [_ Hs]; cbn [fst] in Hs.
    apply VulnerabilitySeverity_eqb_eq in Hs; rewrite Hs; reflexivity. }
  rewrite !Forall_app; repeat split; apply G.
Qed.

Theorem vul_severity_required : forall v, vul_severity v = required_severity v.
Proof. intro v; destruct v; vm_compute; reflexivity. Qed.

(* ================================================================== statements in terms of the specification *)
Lemma names_without_lf_items : forall (P : Type) (F : findings P), names_without_lf F -> items_no_lf F.
Proof.
  intros P F H; unfold items_no_lf, names_no_lf; rewrite Forall_forall; intros [p v] Hin; cbn [snd].
  rewrite Forall_forall; intros [f ls] Hfl; cbn [fst]; exact (H p v f ls Hin Hfl).
Qed.

Lemma wf_names : forall (P : Type) (F : findings P), wf_findings F -> names_without_lf F.
Proof. intros P F H p v f ls Hin Hfl; destruct (H p v Hin) as [_ H2]; destruct (H2 f ls Hfl) as [_ H3]; exact H3. Qed.

Lemma wf_has_finding : forall (P : Type) (F : findings P) p, wf_findings F ->
  ((exists v, In (p, v) F /\ v <> []) <-> has_finding p F).
Proof.
  intros P F p H; split.
  - intros [v [Hin Hne]]; destruct v as [|[f ls] v]; [contradiction Hne; reflexivity|].
    destruct (H p _ Hin) as [_ H2]; destruct (H2 f ls (or_introl eq_refl)) as [Hls _].
    destruct ls as [|z ls]; [contradiction Hls; reflexivity|].
    exists ((f, z :: ls) :: v), f, (z :: ls), z; repeat split; [exact Hin | left; reflexivity | left; reflexivity].
  - intros [v [f [ls [z [Hin [Hfl _]]]]]]; exists v; split; [exact Hin | intro E; subst v; destruct Hfl].
Qed.

Theorem opt_roundtrip_spec : forall F, names_without_lf F ->
  map drop_heading (read_optimization_report (generate_optimization_report F)) = triples (rendered_items Optimization_idx F).
Proof. intros F H; rewrite (opt_roundtrip F (names_without_lf_items _ F H)); apply drop_heading_tag_items. Qed.

Theorem qa_roundtrip_spec : forall F, names_without_lf F ->
  map drop_heading (read_qa_report (generate_qa_report F)) = triples (rendered_items QualityAssurance_idx F).
Proof. intros F H; rewrite (qa_roundtrip F (names_without_lf_items _ F H)); apply drop_heading_tag_items. Qed.

Theorem vul_roundtrip_spec : forall F, names_without_lf F ->
  map drop_heading (read_vulnerability_report (generate_vulnerability_report F)) =
  triples (by_severity (rendered_items Vulnerability_idx F)).
Proof. intros F H; rewrite (vul_roundtrip F (names_without_lf_items _ F H)); apply vul_expected_triples. Qed.

Theorem opt_entries_exact : forall F, names_without_lf F ->
  Permutation (map drop_heading (read_optimization_report (generate_optimization_report F))) (triples F).
Proof. intros F H; rewrite (opt_roundtrip_spec F H); apply triples_rendered_items. Qed.

Theorem qa_entries_exact : forall F, names_without_lf F ->
  Permutation (map drop_heading (read_qa_report (generate_qa_report F))) (triples F).
Proof. intros F H; rewrite (qa_roundtrip_spec F H); apply triples_rendered_items. Qed.

Theorem vul_entries_exact : forall F, names_without_lf F ->
  Permutation (map drop_heading (read_vulnerability_report (generate_vulnerability_report F))) (triples F).
Proof.
  intros F H; rewrite (vul_roundtrip_spec F H).
  eapply perm_trans; [apply triples_perm, by_severity_perm | apply triples_rendered_items].
Qed.

Theorem opt_section_iff_spec : forall F p, wf_findings F ->
  (has_line (key_line (optimization_section p)) (generate_optimization_report F) <-> has_finding p F).
Proof.
  intros F p H; unfold has_line.
  rewrite (opt_section_iff F p (names_without_lf_items _ F (wf_names _ F H))); apply wf_has_finding; exact H.
Qed.

Theorem qa_section_iff_spec : forall F p, wf_findings F ->
  (has_line (key_line (qa_section p)) (generate_qa_report F) <-> has_finding p F).
Proof.
  intros F p H; unfold has_line.
  rewrite (qa_section_iff F p (names_without_lf_items _ F (wf_names _ F H))); apply wf_has_finding; exact H.
Qed.

Theorem vul_section_iff_spec : forall F p, wf_findings F ->
  (has_line (key_line (vulnerability_section p)) (generate_vulnerability_report F) <-> has_finding p F).
Proof.
  intros F p H; unfold has_line.
  rewrite (vul_section_iff F p (names_without_lf_items _ F (wf_names _ F H))); apply wf_has_finding; exact H.
Qed.

Theorem opt_total_spec : forall F, names_without_lf F ->
  printed_total opt_overview_prefix (generate_optimization_report F) =
  Some (N.of_nat (List.length (read_optimization_report (generate_optimization_report F)))).
Proof. intros F H; apply opt_total, names_without_lf_items; exact H. Qed.

Theorem vul_total_spec : forall F, names_without_lf F ->
  printed_total vul_overview_prefix (generate_vulnerability_report F) =
  Some (N.of_nat (List.length (read_vulnerability_report (generate_vulnerability_report F)))).
Proof. intros F H; apply vul_total, names_without_lf_items; exact H. Qed.

(* the number printed is the number of (file, line) findings of the map *)
Theorem opt_total_findings : forall F, names_without_lf F ->
  printed_total opt_overview_prefix (generate_optimization_report F) = Some (N.of_nat (List.length (triples F))).
Proof.
  intros F H; rewrite (opt_total_spec F H), <- (map_length drop_heading).
  rewrite (Permutation_length (opt_entries_exact F H)); reflexivity.
Qed.

Theorem vul_total_findings : forall F, names_without_lf F ->
  printed_total vul_overview_prefix (generate_vulnerability_report F) = Some (N.of_nat (List.length (triples F))).
Proof.
  intros F H; rewrite (vul_total_spec F H), <- (map_length drop_heading).
  rewrite (Permutation_length (vul_entries_exact F H)); reflexivity.
Qed.

Theorem vul_heading_iff_spec : forall F s, wf_findings F ->
  (has_line (heading_of s) (generate_vulnerability_report F) <->
   exists p, required_severity p = s /\ has_finding p F).
Proof.
  intros F s H; unfold has_line.
  rewrite (vul_heading_iff F s (names_without_lf_items _ F (wf_names _ F H))); split.
  - intros [p [v [Hin [Hne Hs]]]]; exists p; split; [rewrite <- vul_severity_required; exact Hs|].
    apply (wf_has_finding _ F p H); exists v; tauto.
  - intros [p [Hs Hf]]; apply (wf_has_finding _ F p H) in Hf; destruct Hf as [v [Hin Hne]].
    exists p, v; repeat split; try assumption; rewrite vul_severity_required; exact Hs.
Qed.

Theorem vul_own_heading_spec : forall F, names_without_lf F ->
  Forall (fun e => let '(h, p, _, _) := e in h = Some (heading_of (required_severity p)))
         (read_vulnerability_report (generate_vulnerability_report F)).
Proof.
  intros F H; pose proof (vul_entries_under_own_heading F (names_without_lf_items _ F H)) as G.
  rewrite Forall_forall in *; intros [[[h p] f] z] Hin; specialize (G _ Hin); cbn in G.
  rewrite <- vul_severity_required; exact G.
Qed.
