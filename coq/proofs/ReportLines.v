(* Strings, lines and entry lines: facts shared by the report-reader proofs (C11, C12). *)
From Coq Require Import List String Ascii NArith ZArith Bool Lia DecimalString DecimalN DecimalFacts.
Import ListNotations.
From Solstat Require Import Bytes Tables Sections Report ReportReader.
Local Open Scope list_scope.
Local Open Scope string_scope.

(* ------------------------------------------------------------------ append / sconcat *)
Lemma sapp_nil_r : forall s : string, s ++ "" = s.
Proof. intro s; induction s as [|c r IH]; cbn [append]; [reflexivity | rewrite IH; reflexivity]. Qed.

Lemma sapp_assoc : forall a b c : string, (a ++ b) ++ c = a ++ (b ++ c).
Proof. intros a b c; induction a as [|x a IH]; cbn [append]; [reflexivity | rewrite IH; reflexivity]. Qed.

Lemma sconcat_app : forall l1 l2, sconcat (l1 ++ l2)%list = sconcat l1 ++ sconcat l2.
Proof.
  intros l1 l2; unfold sconcat; induction l1 as [|x l1 IH]; cbn [List.app fold_right]; [reflexivity|].
  rewrite IH, sapp_assoc; reflexivity.
Qed.

Lemma sconcat_cons : forall x l, sconcat (x :: l) = x ++ sconcat l.
Proof. reflexivity. Qed.

Lemma sapp_inv_nil : forall h x : string, h ++ x = h -> x = "".
Proof.
  intros h x; induction h as [|c h IH]; cbn [append]; intro H; [exact H|].
  injection H as H; apply IH; exact H.
Qed.

(* ------------------------------------------------------------------ lines *)
Definition unlines (ls : list string) : string := sconcat (map (fun l => l ++ nl) ls).

Lemma unlines_app : forall a b, unlines (a ++ b)%list = unlines a ++ unlines b.
Proof. intros; unfold unlines; rewrite map_app, sconcat_app; reflexivity. Qed.

Lemma unlines_cons : forall l ls, unlines (l :: ls) = l ++ nl ++ unlines ls.
Proof. intros; unfold unlines; cbn [map]; rewrite sconcat_cons, sapp_assoc; reflexivity. Qed.

Lemma no_lfb_app : forall a b, no_lfb (a ++ b) = no_lfb a && no_lfb b.
Proof.
  intros a b; induction a as [|c a IH]; cbn [append no_lfb]; [reflexivity|].
  rewrite IH, andb_assoc; reflexivity.
Qed.

Lemma split_aux_app : forall a s, no_lfb a = true ->
  split_lines_aux (a ++ s) = (a ++ fst (split_lines_aux s), snd (split_lines_aux s)).
Proof.
  intros a s; induction a as [|c a IH]; intro H; cbn [append].
  - destruct (split_lines_aux s); reflexivity.
  - cbn [no_lfb] in H; apply andb_true_iff in H; destruct H as [Hc Ha].
    cbn [split_lines_aux]; rewrite (IH Ha).
    destruct (Ascii.eqb c LF); [discriminate Hc | reflexivity].
Qed.

Lemma split_aux_lf : forall s, split_lines_aux (String LF s) = ("", split_lines s).
Proof.
  intro s; cbn [split_lines_aux]; unfold split_lines.
  destruct (split_lines_aux s) as [l ls]; rewrite Ascii.eqb_refl; reflexivity.
Qed.

Lemma split_lines_line : forall a s, no_lfb a = true -> split_lines (a ++ nl ++ s) = a :: split_lines s.
Proof.
  intros a s H; unfold split_lines at 1; rewrite (split_aux_app a _ H).
  unfold nl; cbn [append]; rewrite split_aux_lf; cbn [fst snd]; rewrite sapp_nil_r; reflexivity.
Qed.

Lemma split_lines_last : forall a, no_lfb a = true -> split_lines a = [a].
Proof.
  intros a H; unfold split_lines; rewrite <- (sapp_nil_r a) at 1; rewrite (split_aux_app a _ H).
  cbn [split_lines_aux fst snd]; rewrite sapp_nil_r; reflexivity.
Qed.

Definition all_no_lf (ls : list string) : Prop := Forall (fun l => no_lfb l = true) ls.

Lemma split_unlines : forall ls s, all_no_lf ls -> split_lines (unlines ls ++ s) = (ls ++ split_lines s)%list.
Proof.
  intros ls s H; induction H as [|l ls Hl Hls IH]; [reflexivity|].
  rewrite unlines_cons, !sapp_assoc, (split_lines_line l _ Hl), IH; reflexivity.
Qed.

Lemma split_unlines_end : forall ls, all_no_lf ls -> split_lines (unlines ls) = (ls ++ [""])%list.
Proof.
  intros ls H; rewrite <- (sapp_nil_r (unlines ls)), (split_unlines ls "" H); reflexivity.
Qed.

Lemma split_lines_no_lf : forall s, all_no_lf (split_lines s).
Proof.
  intro s; unfold split_lines, all_no_lf; induction s as [|c r IH]; cbn [split_lines_aux].
  - constructor; [reflexivity | constructor].
  - destruct (split_lines_aux r) as [l ls].
    destruct (Ascii.eqb c LF) eqn:Hc.
    + constructor; [reflexivity | exact IH].
    + inversion IH as [|? ? Hl Hls]; subst; constructor; [|exact Hls].
      cbn [no_lfb]; rewrite Hc, Hl; reflexivity.
Qed.

(* a text followed by a line feed is the sequence of its lines, each terminated *)
Lemma unlines_split : forall s, s ++ nl = unlines (split_lines s).
Proof.
  intro s; unfold split_lines; induction s as [|c r IH]; cbn [split_lines_aux append].
  - reflexivity.
  - destruct (split_lines_aux r) as [l ls].
    destruct (Ascii.eqb c LF) eqn:Hc.
    + apply Ascii.eqb_eq in Hc; subst c.
      rewrite unlines_cons; cbn [append]; unfold nl at 2; cbn [append]; rewrite IH; reflexivity.
    + rewrite unlines_cons; cbn [append]; rewrite IH, unlines_cons; reflexivity.
Qed.

(* ------------------------------------------------------------------ decimal numerals *)
Fixpoint all_digitsb (s : string) : bool :=
  match s with
  | EmptyString => true
  | String c r => is_digit c && all_digitsb r
  end.

Lemma string_of_uint_digits : forall d, all_digitsb (NilEmpty.string_of_uint d) = true.
Proof. intro d; induction d as [|d IH|d IH|d IH|d IH|d IH|d IH|d IH|d IH|d IH|d IH]; cbn; try reflexivity; exact IH. Qed.

Lemma to_uint_nonnil : forall n, N.to_uint n <> Decimal.Nil.
Proof.
  intro n; rewrite <- (DecimalN.Unsigned.of_to n), DecimalN.Unsigned.to_of.
  apply unorm_nonnil.
Qed.

Lemma usize_to_string_digits : forall n, all_digitsb (usize_to_string n) = true.
Proof. intro n; apply string_of_uint_digits. Qed.

Lemma usize_to_string_nonempty : forall n, usize_to_string n <> "".
Proof.
  intro n; unfold usize_to_string; pose proof (to_uint_nonnil n) as H.
  destruct (N.to_uint n); [contradiction H; reflexivity | | | | | | | | | |]; cbn; discriminate.
Qed.

Lemma parse_nat_usize : forall n, parse_nat (usize_to_string n) = Some n.
Proof.
  intro n; unfold parse_nat.
  pose proof (usize_to_string_nonempty n) as Hne.
  destruct (usize_to_string n) eqn:Hs; [contradiction Hne; reflexivity|].
  rewrite <- Hs; unfold usize_to_string; rewrite NilEmpty.usu; cbn [option_map].
  rewrite DecimalN.Unsigned.of_to; reflexivity.
Qed.

Lemma digit_not_minus : forall c, is_digit c = true -> Ascii.eqb c "-" = false.
Proof.
  intros c H; apply Ascii.eqb_neq; intro Hc; subst c; vm_compute in H; discriminate H.
Qed.
Lemma digit_not_colon : forall c, is_digit c = true -> Ascii.eqb c ":" = false.
Proof.
  intros c H; apply Ascii.eqb_neq; intro Hc; subst c; vm_compute in H; discriminate H.
Qed.
Lemma digit_not_lf : forall c, is_digit c = true -> Ascii.eqb c LF = false.
Proof.
  intros c H; apply Ascii.eqb_neq; intro Hc; subst c; vm_compute in H; discriminate H.
Qed.

Lemma parse_int_i32 : forall z, parse_int (i32_to_string z) = Some z.
Proof.
  intros [|p|p]; unfold i32_to_string.
  - reflexivity.
  - pose proof (usize_to_string_nonempty (Npos p)) as Hne.
    pose proof (usize_to_string_digits (Npos p)) as Hd.
    pose proof (parse_nat_usize (Npos p)) as Hp.
    destruct (usize_to_string (Npos p)) as [|c r]; [contradiction Hne; reflexivity|].
    cbn [all_digitsb] in Hd; apply andb_true_iff in Hd; destruct Hd as [Hc _].
    unfold parse_int; rewrite (digit_not_minus c Hc), Hp; reflexivity.
  - cbn [append]; unfold parse_int; rewrite Ascii.eqb_refl, parse_nat_usize; reflexivity.
Qed.

Fixpoint no_colonb (s : string) : bool :=
  match s with
  | EmptyString => true
  | String c r => negb (Ascii.eqb c ":") && no_colonb r
  end.

Lemma digits_no_colon : forall s, all_digitsb s = true -> no_colonb s = true.
Proof.
  intro s; induction s as [|c r IH]; cbn [all_digitsb no_colonb]; intro H; [reflexivity|].
  apply andb_true_iff in H; destruct H as [Hc Hr]; rewrite (digit_not_colon c Hc), (IH Hr); reflexivity.
Qed.
Lemma digits_no_lf : forall s, all_digitsb s = true -> no_lfb s = true.
Proof.
  intro s; induction s as [|c r IH]; cbn [all_digitsb no_lfb]; intro H; [reflexivity|].
  apply andb_true_iff in H; destruct H as [Hc Hr]; rewrite (digit_not_lf c Hc), (IH Hr); reflexivity.
Qed.

Lemma i32_no_colon : forall z, no_colonb (i32_to_string z) = true.
Proof.
  intros [|p|p]; unfold i32_to_string; [reflexivity | apply digits_no_colon, usize_to_string_digits |].
  cbn [append no_colonb]; rewrite (digits_no_colon _ (usize_to_string_digits _)); reflexivity.
Qed.
Lemma i32_no_lf : forall z, no_lfb (i32_to_string z) = true.
Proof.
  intros [|p|p]; unfold i32_to_string; [reflexivity | apply digits_no_lf, usize_to_string_digits |].
  cbn [append no_lfb]; rewrite (digits_no_lf _ (usize_to_string_digits _)); reflexivity.
Qed.

(* ------------------------------------------------------------------ entry lines *)
Lemma split_last_colon_none : forall s, no_colonb s = true -> split_last_colon s = None.
Proof.
  intro s; induction s as [|c r IH]; cbn [no_colonb split_last_colon]; intro H; [reflexivity|].
  apply andb_true_iff in H; destruct H as [Hc Hr]; rewrite (IH Hr).
  destruct (Ascii.eqb c ":"); [discriminate Hc | reflexivity].
Qed.

Lemma split_last_colon_app : forall f d, no_colonb d = true -> split_last_colon (f ++ ":" ++ d) = Some (f, d).
Proof.
  intros f d Hd; induction f as [|c f IH]; cbn [append split_last_colon].
  - rewrite (split_last_colon_none d Hd); reflexivity.
  - cbn [append] in IH; rewrite IH; reflexivity.
Qed.

(* the text of an entry line, without its line feed *)
Definition entry_line (f : string) (z : Z) : string := "- " ++ f ++ ":" ++ i32_to_string z.

Lemma render_entry_line : forall f z, render_entry f z = entry_line f z ++ nl.
Proof.
  intros f z; unfold render_entry, entry_line.
  rewrite !sapp_assoc; reflexivity.
Qed.

Lemma parse_entry_line : forall f z, parse_entry (entry_line f z) = Some (f, z).
Proof.
  intros f z; unfold entry_line.
  change ("- " ++ f ++ ":" ++ i32_to_string z) with (String "-" (String " " (f ++ ":" ++ i32_to_string z))).
  unfold parse_entry.
  change (Ascii.eqb "-" "-" && Ascii.eqb " " " ")%bool with true; cbv iota.
  rewrite (split_last_colon_app f _ (i32_no_colon z)), parse_int_i32; reflexivity.
Qed.

Lemma entry_line_no_lf : forall f z, no_lfb f = true -> no_lfb (entry_line f z) = true.
Proof.
  intros f z H; unfold entry_line; rewrite !no_lfb_app, H, i32_no_lf; reflexivity.
Qed.

(* the entry lines of a vector, in order *)
Definition entry_lines (v : list (string * list Z)) : list string :=
  flat_map (fun fl => map (entry_line (fst fl)) (snd fl)) v.

Definition names_no_lf (v : list (string * list Z)) : Prop := Forall (fun fl => no_lfb (fst fl) = true) v.

Lemma entry_lines_no_lf : forall v, names_no_lf v -> all_no_lf (entry_lines v).
Proof.
  intros v H; unfold entry_lines, all_no_lf; rewrite Forall_forall; intros l Hl.
  apply in_flat_map in Hl; destruct Hl as [[f ls] [Hin Hl]]; cbn [fst snd] in Hl.
  apply in_map_iff in Hl; destruct Hl as [z [Hz _]]; subst l.
  apply entry_line_no_lf; unfold names_no_lf in H; rewrite Forall_forall in H; apply (H (f, ls)); exact Hin.
Qed.

Lemma render_file_lines_unlines : forall fl, render_file_lines fl = unlines (map (entry_line (fst fl)) (snd fl)).
Proof.
  intros [f ls]; unfold render_file_lines; cbn [fst snd]; induction ls as [|z ls IH]; cbn [map]; [reflexivity|].
  rewrite sconcat_cons, IH, unlines_cons, render_entry_line, sapp_assoc; reflexivity.
Qed.

Lemma entries_unlines : forall v, sconcat (map render_file_lines v) = unlines (entry_lines v).
Proof.
  intro v; unfold entry_lines; induction v as [|fl v IH]; cbn [map flat_map]; [reflexivity|].
  rewrite sconcat_cons, IH, unlines_app, render_file_lines_unlines; reflexivity.
Qed.

(* a completed section is the sequence of these lines *)
Definition section_lines (text : string) (v : list (string * list Z)) : list string :=
  (split_lines text ++ [lines_marker] ++ entry_lines v ++ [""; ""])%list.

Lemma completed_section_unlines : forall text v,
  completed_report_section text v = unlines (section_lines text v).
Proof.
  intros text v; unfold completed_report_section, matches_section, section_lines.
  rewrite !unlines_app, <- unlines_split, entries_unlines.
  unfold lines_marker; rewrite !sapp_assoc; reflexivity.
Qed.

Lemma section_lines_no_lf : forall text v, names_no_lf v -> all_no_lf (section_lines text v).
Proof.
  intros text v H; unfold section_lines, all_no_lf; rewrite !Forall_app; repeat split.
  - apply split_lines_no_lf.
  - constructor; [reflexivity | constructor].
  - apply entry_lines_no_lf; exact H.
  - repeat constructor.
Qed.

(* number of entries *)
Lemma fold_count : forall (v : list (string * list Z)) (n : N),
  fold_left (fun n fl => (n + N.of_nat (List.length (snd fl)))%N) v n =
  (n + N.of_nat (List.length (entry_lines v)))%N.
Proof.
  intro v; induction v as [|fl v IH]; intro n; cbn [fold_left entry_lines flat_map].
  - cbn; lia.
  - rewrite IH; fold (entry_lines v); rewrite app_length, map_length; lia.
Qed.

Lemma count_matches_length : forall v, count_matches v = N.of_nat (List.length (entry_lines v)).
Proof. intro v; unfold count_matches; rewrite fold_count; lia. Qed.
