(* Generic lemmas turning the detector models (loops over extract_target(s)_from_node with
   .unwrap()) into closed forms over the complete pre-order. *)
From Coq Require Import List String Ascii NArith ZArith Bool.
Import ListNotations.
From Solstat Require Import Lift Pt Walk Res Nodes WalkProof Patterns.

Definition is_expr_node (n : node) : bool := match n with N_Expression _ => true | _ => false end.
Definition is_stmt_node (n : node) : bool := match n with N_Statement _ => true | _ => false end.
Definition is_es_node (n : node) : bool := is_expr_node n || is_stmt_node n.

(* kinds carried by expression nodes only *)
Definition is_expr_target (t : Target) : bool :=
  match t with
  | Target_Args | Target_Return | Target_Revert | Target_RevertNamedArgs | Target_Emit | Target_Expression
  | Target_VariableDefinition | Target_Block | Target_If | Target_While | Target_For | Target_DoWhile | Target_Try
  | Target_SourceUnit | Target_ContractDefinition | Target_EnumDefinition | Target_EventDefinition
  | Target_ErrorDefinition | Target_FunctionDefinition | Target_ImportDirective | Target_PragmaDirective
  | Target_StraySemicolon | Target_StructDefinition | Target_TypeDefinition | Target_Using | Target_None => false
  | _ => true
  end.

Lemma expr_kind_node n : is_expr_target (kind_of n) = true -> is_expr_node n = true.
Proof.
  destruct n as [s|e|su|p|p]; [destruct s|reflexivity|idtac|destruct p|destruct p]; cbn; intros H; try reflexivity; discriminate H.
Qed.

Lemma expr_node_kind e : is_expr_target (kind_of (N_Expression e)) = true.
Proof. destruct e; reflexivity. Qed.

Lemma stmt_kind_node n :
  (kind_of n = Target_For \/ kind_of n = Target_Block) -> is_stmt_node n = true.
Proof.
  destruct n as [s|e|su|p|p]; [reflexivity|destruct e|idtac|destruct p|destruct p]; cbn; intros [H|H]; discriminate H.
Qed.

Lemma sup_kind_node n :
  (kind_of n = Target_PragmaDirective \/ kind_of n = Target_ContractDefinition) ->
  exists p, n = N_SourceUnitPart p.
Proof.
  destruct n as [s|e|su|p|p]; [destruct s|destruct e|idtac|eexists; reflexivity|destruct p]; cbn; intros [H|H]; discriminate H.
Qed.

(* ---- mapM over total functions *)
Lemma mapM_ok {A B} (f : A -> res B) (g : A -> B) l :
  Forall (fun x => f x = Ok (g x)) l -> mapM f l = Ok (map g l).
Proof.
  induction 1 as [|x l Hx Hl IH]; cbn; [reflexivity|]. rewrite Hx, IH. reflexivity.
Qed.

Lemma flat_map_concat_map {A B} (f : A -> list B) l : List.concat (map f l) = flat_map f l.
Proof. induction l as [|x l IH]; cbn; [reflexivity|]. rewrite IH. reflexivity. Qed.

Lemma exprs_in_app a b : exprs_in (a ++ b) = exprs_in a ++ exprs_in b.
Proof. unfold exprs_in. apply flat_map_app. Qed.

Lemma flat_map_exprs_in {B} (f : Expression -> list B) ns :
  Forall (fun n => is_expr_node n = true) ns ->
  flat_map (fun n => match n with N_Expression e => f e | _ => [] end) ns = flat_map f (exprs_in ns).
Proof.
  induction 1 as [|n ns Hn Hns IH]; cbn; [reflexivity|].
  destruct n; try discriminate Hn. cbn. rewrite IH. reflexivity.
Qed.

(* `for node in nodes { let e = node.expression().unwrap(); ... }` never panics on expression nodes *)
Lemma each_expr_ok ns f :
  Forall (fun n => is_expr_node n = true) ns ->
  each_expr ns f = Ok (flat_map f (exprs_in ns)).
Proof.
  intros H. unfold each_expr.
  rewrite (mapM_ok _ (fun n => match n with N_Expression e => f e | _ => [] end)).
  - cbn. rewrite flat_map_concat_map. rewrite flat_map_exprs_in by exact H. reflexivity.
  - eapply Forall_impl; [|exact H]. intros n Hn. destruct n; try discriminate Hn. reflexivity.
Qed.

(* filtering the pre-order by kinds a function ignores anyway *)
Lemma flat_map_filter_irrelevant {A B} (p : A -> bool) (f : A -> list B) l :
  (forall x, p x = false -> f x = []) -> flat_map f (filter p l) = flat_map f l.
Proof.
  intros H. induction l as [|x l IH]; cbn; [reflexivity|].
  destruct (p x) eqn:E; cbn; rewrite IH; [reflexivity|]. rewrite (H x E). reflexivity.
Qed.

Lemma exprs_in_filter (p : node -> bool) ns :
  exprs_in (filter p ns) = filter (fun e => p (N_Expression e)) (exprs_in ns).
Proof.
  induction ns as [|n ns IH]; [reflexivity|].
  cbn [filter]. destruct (p n) eqn:E.
  - destruct n; cbn [exprs_in flat_map app filter] in *; fold (exprs_in (filter p ns)); fold (exprs_in ns);
      rewrite ?E, IH; reflexivity.
  - destruct n; cbn [exprs_in flat_map app filter] in *; fold (exprs_in (filter p ns)); fold (exprs_in ns);
      rewrite ?E, IH; reflexivity.
Qed.

Definition tsel (ts : list Target) (n : node) : bool := existsb (Target_eqb (kind_of n)) ts.

Lemma tsel_expr_nodes ts ns :
  forallb is_expr_target ts = true ->
  Forall (fun n => is_expr_node n = true) (filter (tsel ts) ns).
Proof.
  intros Hts. apply Forall_forall. intros n Hn. apply filter_In in Hn. destruct Hn as [_ Hn].
  unfold tsel in Hn. apply existsb_exists in Hn. destruct Hn as [t [Ht Heq]].
  apply Target_eqb_eq in Heq. apply expr_kind_node. rewrite Heq.
  rewrite forallb_forall in Hts. apply Hts. exact Ht.
Qed.

(* the main closed form: a loop over extract_targets_from_node with expression targets *)
Theorem each_expr_extract ts n f :
  forallb is_expr_target ts = true ->
  (forall e, tsel ts (N_Expression e) = false -> f e = []) ->
  each_expr (extract_targets_from_node ts n) f = Ok (flat_map f (exprs_in (pre n))).
Proof.
  intros Hts Hf. rewrite extract_multi_lemma.
  change (fun m => existsb (Target_eqb (kind_of m)) ts) with (tsel ts).
  rewrite each_expr_ok by (apply tsel_expr_nodes; exact Hts).
  rewrite exprs_in_filter. rewrite flat_map_filter_irrelevant; [reflexivity|]. exact Hf.
Qed.

Lemma extract_single_as_multi t n : extract_target_from_node t n = extract_targets_from_node [t] n.
Proof.
  unfold extract_target_from_node, extract_targets_from_node. rewrite !walk_exact_lemma.
  apply filter_ext. intros m. unfold sel. cbn. rewrite orb_false_r. reflexivity.
Qed.

Theorem each_expr_extract1 t n f :
  is_expr_target t = true ->
  (forall e, Target_eqb (kind_of (N_Expression e)) t = false -> f e = []) ->
  each_expr (extract_target_from_node t n) f = Ok (flat_map f (exprs_in (pre n))).
Proof.
  intros Ht Hf. rewrite extract_single_as_multi. apply each_expr_extract.
  - cbn. rewrite Ht. reflexivity.
  - intros e He. apply Hf. unfold tsel in He. cbn in He. rewrite orb_false_r in He. exact He.
Qed.

(* inclusion through flat_map *)
Lemma flat_map_incl {A B} (f g : A -> list B) l :
  (forall x, incl (f x) (g x)) -> incl (flat_map f l) (flat_map g l).
Proof.
  intros H y Hy. apply in_flat_map in Hy. destruct Hy as [x [Hx Hy]].
  apply in_flat_map. exists x. split; [exact Hx|]. apply H. exact Hy.
Qed.

(* ---- statement loops *)
Lemma stmts_in_app a b : stmts_in (a ++ b) = stmts_in a ++ stmts_in b.
Proof. unfold stmts_in. apply flat_map_app. Qed.

Lemma each_stmt_ok ns f g :
  Forall (fun n => is_stmt_node n = true) ns ->
  (forall s, f s = Ok (g s)) ->
  each_stmt ns f = Ok (flat_map g (stmts_in ns)).
Proof.
  intros H Hf. unfold each_stmt.
  rewrite (mapM_ok _ (fun n => match n with N_Statement s => g s | _ => [] end)).
  - cbn. rewrite flat_map_concat_map. f_equal.
    induction H as [|n ns Hn Hns IH]; cbn; [reflexivity|].
    destruct n; try discriminate Hn. cbn. rewrite IH. reflexivity.
  - eapply Forall_impl; [|exact H]. intros n Hn. destruct n; try discriminate Hn. cbn. apply Hf.
Qed.

Lemma stmts_in_filter (p : node -> bool) ns :
  stmts_in (filter p ns) = filter (fun s => p (N_Statement s)) (stmts_in ns).
Proof.
  induction ns as [|n ns IH]; [reflexivity|].
  cbn [filter]. destruct (p n) eqn:E.
  - destruct n; cbn [stmts_in flat_map app filter] in *; fold (stmts_in (filter p ns)); fold (stmts_in ns);
      rewrite ?E, IH; reflexivity.
  - destruct n; cbn [stmts_in flat_map app filter] in *; fold (stmts_in (filter p ns)); fold (stmts_in ns);
      rewrite ?E, IH; reflexivity.
Qed.

Theorem each_stmt_extract1 t n f g :
  (t = Target_For \/ t = Target_Block) ->
  (forall s, f s = Ok (g s)) ->
  (forall s, Target_eqb (kind_of (N_Statement s)) t = false -> g s = []) ->
  each_stmt (extract_target_from_node t n) f = Ok (flat_map g (stmts_in (pre n))).
Proof.
  intros Ht Hf Hg. rewrite extract_single_lemma.
  rewrite (each_stmt_ok _ f g).
  - rewrite stmts_in_filter. rewrite flat_map_filter_irrelevant; [reflexivity|]. exact Hg.
  - apply Forall_forall. intros m Hm. apply filter_In in Hm. destruct Hm as [_ Hm].
    apply Target_eqb_eq in Hm. apply stmt_kind_node. rewrite Hm. destruct Ht; subst; tauto.
  - exact Hf.
Qed.

(* the same loops, when the nodes are produced by a detector-local extraction *)
Lemma mapM_ok_ext {A B} (f : A -> res B) (g : A -> B) l :
  (forall x, f x = Ok (g x)) -> mapM f l = Ok (map g l).
Proof. intros H. apply mapM_ok. apply Forall_forall. intros x _. apply H. Qed.
