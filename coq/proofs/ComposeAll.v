(* C19: all 28 detectors of the property (every detector except the two SafeMath ones) compose over the
   top-level items of a file; the line sets compose as well.  Assembles Compose1.v and Compose2.v. *)
From Coq Require Import List String Ascii NArith ZArith Bool Lia Sorted.
Import ListNotations.
From Solstat Require Import Lift Pt Walk Res Nodes Utils Detectors Opt_pack Cases DetCases Patterns Patterns2
     LineSpec LinesDet Compose Compose1 Compose2.
Local Open Scope list_scope.

(* the 28 detectors C19 quantifies over, in the order of harness/src/main.rs without the SafeMath pair *)
Definition c19_detectors : list (SourceUnit -> res (list Loc)) :=
  [ address_balance_optimization; address_zero_optimization; assign_update_array_optimization;
    bool_equals_bool_optimization; cache_array_length_optimization; constant_variable_optimization;
    immutable_variables_optimization; increment_decrement_optimization; memory_to_calldata_optimization;
    multiple_require_optimization; optimal_comparison_optimization; pack_storage_variables_optimization;
    pack_struct_variables_optimization; payable_function_optimization; private_constant_optimization;
    shift_math_optimization; short_revert_string_optimization; solidity_keccak256_optimization;
    solidity_math_optimization; sstore_optimization; string_error_optimization;
    divide_before_multiply_vulnerability; floating_pragma_vulnerability;
    unprotected_selfdestruct_vulnerability; unsafe_erc20_operation_vulnerability;
    constructor_order_qa; private_func_leading_underscore; private_vars_leading_underscore ].

(* the hypotheses on a file: the property's own ("items do not mention each other's state-variable
   names") and a fact about every parser output (constructs of different items have different
   locations; only increment_decrement, which compares locations, needs it) *)
Definition c19_file_ok (parts : list SourceUnitPart) : Prop :=
  no_cross_mentions parts /\ incdec_locs_separate parts.

Theorem compose_all_lemma : Forall (composes_if incdec_locs_separate) c19_detectors.
Proof.
  unfold c19_detectors.
  repeat match goal with |- Forall _ (_ :: _) => constructor | |- Forall _ [] => constructor end;
    first [ exact increment_decrement_composes_partial | apply composes_if_of_composes ].
  - exact address_balance_composes.
  - exact address_zero_composes.
  - exact assign_update_array_composes.
  - exact bool_equals_bool_composes.
  - exact cache_array_length_composes.
  - exact constant_variable_composes.
  - exact immutable_variables_composes.
  - exact memory_to_calldata_composes.
  - exact multiple_require_composes.
  - exact optimal_comparison_composes.
  - exact pack_storage_variables_composes.
  - exact pack_struct_variables_composes.
  - exact payable_function_composes.
  - exact private_constant_composes.
  - exact shift_math_composes.
  - exact short_revert_string_composes.
  - exact solidity_keccak256_composes.
  - exact solidity_math_composes.
  - exact sstore_composes.
  - exact string_error_composes.
  - exact divide_before_multiply_composes.
  - exact floating_pragma_composes.
  - exact unprotected_selfdestruct_composes.
  - exact unsafe_erc20_operation_composes.
  - exact constructor_order_qa_composes.
  - exact private_func_leading_underscore_composes.
  - exact private_vars_leading_underscore_composes.
Qed.

(* ---- boolean form of the property's hypothesis *)
Lemma in_indexed_nth {A} (l : list A) i x : nth_error l i = Some x -> In (i, x) (indexed l).
Proof. intros H. apply in_indexed. exact H. Qed.

Lemma existsb_string_eqb x l : existsb (String.eqb x) l = true <-> In x l.
Proof.
  rewrite existsb_exists. split.
  - intros [y [Hy He]]. apply String.eqb_eq in He. subst y. exact Hy.
  - intros H. exists x. split; [exact H|apply String.eqb_refl].
Qed.

Theorem no_cross_mentions_b_sound parts : no_cross_mentions_b parts = true -> no_cross_mentions parts.
Proof.
  unfold no_cross_mentions_b, no_cross_mentions. intros H i j p q Hij Hp Hq x Hx.
  rewrite forallb_forall in H. specialize (H (i, p) (in_indexed_nth _ _ _ Hp)).
  rewrite forallb_forall in H. specialize (H (j, q) (in_indexed_nth _ _ _ Hq)).
  cbn [fst snd] in H. apply orb_prop in H. destruct H as [H|H]; [apply Nat.eqb_eq in H; contradiction|].
  rewrite forallb_forall in H. specialize (H x Hx). apply andb_prop in H. destruct H as [H1 H2].
  apply negb_true_iff in H1. apply negb_true_iff in H2. split; intros Hin.
  - apply existsb_string_eqb in Hin. rewrite Hin in H1. discriminate H1.
  - apply existsb_string_eqb in Hin. rewrite Hin in H2. discriminate H2.
Qed.

(* ---- the reported LINES compose *)
Lemma mapM_Forall2 {A B} (f : A -> res B) l ys : mapM f l = Ok ys <-> Forall2 (fun x y => f x = Ok y) l ys.
Proof.
  revert ys. induction l as [|x l IH]; intros ys; cbn [mapM].
  - split; [intros H; inversion H; constructor|intros H; inversion H; reflexivity].
  - split.
    + destruct (f x) as [y|s] eqn:E; cbn [bind]; [|discriminate].
      destruct (mapM f l) as [ys'|s] eqn:E'; cbn [bind]; [|discriminate].
      intros H. inversion H; subst ys. constructor; [exact E|]. apply IH. reflexivity.
    + intros H. inversion H as [|? y ? ys' Hy Hr]; subst. rewrite Hy. cbn [bind].
      apply IH in Hr. rewrite Hr. reflexivity.
Qed.

Lemma analyze_lines_ok_inv d src su ls : analyze_lines d src su = Ok ls -> exists locs, d su = Ok locs.
Proof. unfold analyze_lines. destruct (d su) as [locs|s]; [intros _; exists locs; reflexivity|discriminate]. Qed.

Theorem compose_lines_lemma d :
  composes_if incdec_locs_separate d ->
  forall parts src, item_indices parts <> [] -> no_cross_mentions parts -> incdec_locs_separate parts ->
  lines_lt_i32 src ->
  forall ls, analyze_lines d src (Mk_SourceUnit parts) = Ok ls ->
  exists lss, mapM (fun k => analyze_lines d src (isolate parts k)) (item_indices parts) = Ok lss /\
              forall z, In z ls <-> In z (List.concat lss).
Proof.
  intros Hc parts src Hne Hncm Hsep Hlt ls Ha.
  destruct (analyze_lines_ok_inv _ _ _ _ Ha) as [locs Hd].
  destruct (Hc parts Hne Hncm Hsep locs Hd) as [locss [Hm Heq]].
  destruct (analyze_lines_spec d src _ locs Hd Hlt) as [ls0 [Ha0 [_ Hls0]]].
  rewrite Ha in Ha0. inversion Ha0; subst ls0. clear Ha0.
  apply mapM_Forall2 in Hm.
  (* per item: the line set of the isolated file *)
  assert (Hex : exists lss, Forall2 (fun k l => analyze_lines d src (isolate parts k) = Ok l) (item_indices parts) lss /\
                            forall z, In z (List.concat lss) <->
                                      exists l, In l (List.concat locss) /\ get_line_number (loc_start l) src = Ok z).
  { clear Heq Hd Hls0 Ha Hne. induction Hm as [|k lk ks lks Hk HF IH].
    - exists []. split; [constructor|]. cbn [List.concat]. split; [intros []|intros [l [[] _]]].
    - destruct IH as [lss [HF2 Hz]].
      destruct (analyze_lines_spec d src _ lk Hk Hlt) as [l1 [Hl1 [_ Hin1]]].
      exists (l1 :: lss). split; [constructor; assumption|].
      intros z. cbn [List.concat]. rewrite in_app_iff, Hin1, Hz. split.
      + intros [[l [Hl Hg]]|[l [Hl Hg]]]; exists l; (split; [rewrite in_app_iff; auto|exact Hg]).
      + intros [l [Hl Hg]]. rewrite in_app_iff in Hl. destruct Hl as [Hl|Hl]; [left|right]; exists l; split; assumption. }
  destruct Hex as [lss [HF2 Hz]]. exists lss. split; [apply mapM_Forall2; exact HF2|].
  intros z. rewrite Hls0, Hz. split; intros [l [Hl Hg]]; exists l; (split; [apply Heq; exact Hl|exact Hg]).
Qed.

(* ---- non-vacuity: a real four-part file (tree and locations as returned by the parser, converted by
   tools/dbg2coq.py) that satisfies the hypotheses and has findings in all three items:
     pragma solidity 0.8.10;
     contract A { uint x; function f() public { x = x + 1; } }
     contract B { uint y; function g() public { y = y + 2; ++y; } }
     function fr(uint q) pure returns (uint) { unchecked { ++q; } return q * 2; }                  *)
Definition ex_parts : list SourceUnitPart :=
  [(SourceUnitPart_PragmaDirective (Loc_File 0 0 22) (Mk_Identifier (Loc_File 0 7 15) "solidity") (Mk_StringLiteral (Loc_File 0 16 22) false "0.8.10")); (SourceUnitPart_ContractDefinition (Mk_ContractDefinition (Loc_File 0 24 81) (ContractTy_Contract (Loc_File 0 24 32)) (Mk_Identifier (Loc_File 0 33 34) "A") [] [(ContractPart_VariableDefinition (Mk_VariableDefinition (Loc_File 0 37 43) (Expression_Type (Loc_File 0 37 41) (Ty_Uint 256)) [] (Mk_Identifier (Loc_File 0 42 43) "x") None)); (ContractPart_FunctionDefinition (Mk_FunctionDefinition (Loc_File 0 45 64) FunctionTy_Function (Some (Mk_Identifier (Loc_File 0 54 55) "f")) (Loc_File 0 54 55) [] [(FunctionAttribute_Visibility (Visibility_Public (Some (Loc_File 0 58 64))))] None [] (Some (Statement_Block (Loc_File 0 65 79) false [(Statement_Expression (Loc_File 0 67 76) (Expression_Assign (Loc_File 0 67 76) (Expression_Variable (Mk_Identifier (Loc_File 0 67 68) "x")) (Expression_Add (Loc_File 0 71 76) (Expression_Variable (Mk_Identifier (Loc_File 0 71 72) "x")) (Expression_NumberLiteral (Loc_File 0 75 76) "1" ""))))]))))])); (SourceUnitPart_ContractDefinition (Mk_ContractDefinition (Loc_File 0 82 144) (ContractTy_Contract (Loc_File 0 82 90)) (Mk_Identifier (Loc_File 0 91 92) "B") [] [(ContractPart_VariableDefinition (Mk_VariableDefinition (Loc_File 0 95 101) (Expression_Type (Loc_File 0 95 99) (Ty_Uint 256)) [] (Mk_Identifier (Loc_File 0 100 101) "y") None)); (ContractPart_FunctionDefinition (Mk_FunctionDefinition (Loc_File 0 103 122) FunctionTy_Function (Some (Mk_Identifier (Loc_File 0 112 113) "g")) (Loc_File 0 112 113) [] [(FunctionAttribute_Visibility (Visibility_Public (Some (Loc_File 0 116 122))))] None [] (Some (Statement_Block (Loc_File 0 123 142) false [(Statement_Expression (Loc_File 0 125 134) (Expression_Assign (Loc_File 0 125 134) (Expression_Variable (Mk_Identifier (Loc_File 0 125 126) "y")) (Expression_Add (Loc_File 0 129 134) (Expression_Variable (Mk_Identifier (Loc_File 0 129 130) "y")) (Expression_NumberLiteral (Loc_File 0 133 134) "2" "")))); (Statement_Expression (Loc_File 0 136 139) (Expression_PreIncrement (Loc_File 0 136 139) (Expression_Variable (Mk_Identifier (Loc_File 0 138 139) "y"))))]))))])); (SourceUnitPart_FunctionDefinition (Mk_FunctionDefinition (Loc_File 0 145 184) FunctionTy_Function (Some (Mk_Identifier (Loc_File 0 154 156) "fr")) (Loc_File 0 154 156) [((Loc_File 0 157 163), (Some (Mk_Param (Loc_File 0 157 163) (Expression_Type (Loc_File 0 157 161) (Ty_Uint 256)) None (Some (Mk_Identifier (Loc_File 0 162 163) "q")))))] [(FunctionAttribute_Mutability (Mutability_Pure (Loc_File 0 165 169)))] None [((Loc_File 0 179 183), (Some (Mk_Param (Loc_File 0 179 183) (Expression_Type (Loc_File 0 179 183) (Ty_Uint 256)) None None)))] (Some (Statement_Block (Loc_File 0 185 221) false [(Statement_Block (Loc_File 0 187 205) true [(Statement_Expression (Loc_File 0 199 202) (Expression_PreIncrement (Loc_File 0 199 202) (Expression_Variable (Mk_Identifier (Loc_File 0 201 202) "q"))))]); (Statement_Return (Loc_File 0 206 218) (Some (Expression_Multiply (Loc_File 0 213 218) (Expression_Variable (Mk_Identifier (Loc_File 0 213 214) "q")) (Expression_NumberLiteral (Loc_File 0 217 218) "2" ""))))]))))].
Definition L (s e : N) : Loc := Loc_File 0 s e.

Example ex_parts_ok :
  item_indices ex_parts = [1; 2; 3]%nat /\ no_cross_mentions_b ex_parts = true /\ incdec_locs_separate_b ex_parts = true.
Proof. vm_compute. repeat split. Qed.

Example ex_parts_findings :
  solidity_math_optimization (Mk_SourceUnit ex_parts) = Ok [L 71 76; L 129 134; L 213 218] /\
  solidity_math_optimization (isolate ex_parts 1) = Ok [L 71 76] /\
  solidity_math_optimization (isolate ex_parts 2) = Ok [L 129 134] /\
  solidity_math_optimization (isolate ex_parts 3) = Ok [L 213 218] /\
  sstore_optimization (isolate ex_parts 2) = Ok [L 125 134] /\
  increment_decrement_optimization (Mk_SourceUnit ex_parts) = Ok [L 136 139] /\
  increment_decrement_optimization (isolate ex_parts 2) = Ok [L 136 139] /\
  increment_decrement_optimization (isolate ex_parts 3) = Ok [].
Proof. vm_compute. repeat split. Qed.
